"""Domain B: ownership, aliasing and in-place effects (interprocedural may-mutate analysis).

Every function is evaluated once per option specialisation by the value-numbering evaluator in
join mode; from its events and returned terms a *summary* is derived:

    mutates : {param -> witness}   the parameter object (or something reachable from it) may be written
    ret     : AbsVal               what the returned object may alias
    rtype   : light type of the result (DimArray / Axis / Axes / Dataset / ndarray / None)

AbsVal = (shell, contents):  `shell` = set of (root, depth) the value itself may be (depth 0: the
parameter object, 1: something reachable from it); `contents` = roots reachable from inside the
value.  Fresh allocations have an empty shell; a fresh container whose elements alias a parameter
has that parameter in its contents.

Calls are resolved through the program model (module functions, methods by receiver type, class
hierarchy by member name when the receiver type is unknown, `_NumpyDesc` descriptors, constructors)
and their summaries are substituted at the call site; summaries of call-graph cycles are iterated
to a fixpoint.  External (stdlib / NumPy) callees use the frozen tables below, which are the trusted
base of this analysis.
"""
import ast

from .loader import AnalysisError, ClassInfo, FunctionInfo
from . import terms as T
from .terms import const
from .symeval import Evaluator, MUTATORS

class AV(tuple):
    """abstract value: (shell, contents, fields).  `fields` (None or frozenset of (field, root)) is known for freshly
    constructed objects: which roots each of the fields _values / _axes / _attrs may alias."""
    def __new__(cls, shell=frozenset(), contents=frozenset(), fields=None):
        return tuple.__new__(cls, (frozenset(shell), frozenset(contents), fields))

    @property
    def fields(self):
        return self[2]


FRESH = AV()

# ---- frozen tables (trusted base) ------------------------------------------------------------
# attributes whose value is an immutable scalar / tuple of immutables
SCALAR_ATTRS = {'name', '_name', 'size', 'shape', 'ndim', 'dims', 'dtype', 'kind', 'tol', '_tol', '_monotonic', '_indexing',
                '_indexing_broadcast', '__name__', '__class__', 'start', 'stop', 'step', 'itemsize', 'nbytes'}
# ndarray / numpy functions that return (or may return) a view of their first argument / receiver
VIEW_METHODS = {'transpose', 'reshape', 'squeeze', 'swapaxes', 'ravel', 'view', 'diagonal', 'filled_', '__array__'}
VIEW_NP_FUNCS = {'asarray', 'asanyarray', 'transpose', 'reshape', 'squeeze', 'swapaxes', 'rollaxis', 'moveaxis', 'ravel',
                 'atleast_1d', 'atleast_2d', 'broadcast_to', 'expand_dims', 'ascontiguousarray', 'array_'}
# external functions that write into one of their arguments: name -> argument index
NP_WRITERS = {'put': 0, 'place': 0, 'copyto': 0, 'putmask': 0, 'fill_diagonal': 0, 'put_along_axis': 0, 'shuffle': 0}
# container methods that store a reference to their argument in the receiver
CAPTURING = {'append', 'insert', 'extend', 'update', 'add', 'setdefault', '__setitem__'}
# container accessors returning elements
ELEMENT_METHODS = {'get', 'pop', 'values', 'items', 'keys', 'popitem', '__getitem__', 'copy_', 'setdefault'}

# primitive writes that are deliberately not counted (one named symbol, one reason each)
# fields that are caches of derived information: writing them changes no observable state
BENIGN_FIELDS = {'_monotonic': 'cached monotonicity flag of an Axis (recomputed on demand, reset on every label write: C05-R6)',
                 '_size': 'lazily computed size of a MultiAxis'}
FIELD_ALIASES = {'axes': '_axes', 'values': '_values', 'attrs': '_attrs', 'name': '_name'}

IGNORED_WRITES = {
    ('dimarray.core.axes.MultiAxis.values', 'self'): 'lazy label cache of a grouped axis (filled on first read from the member axes)',
    ('dimarray.core.bases.AbstractHasAxes._get_indices', 'indices'):
        'rewrites integer keys of a caller-supplied {dim: index} mapping to names; the mapping is not an array (outside the statement); reported as INFO',
}


# sites whose operand-freshness depends on a correlation the abstraction does not carry; each is decided by a
# dedicated structural rule (C15-R4) instead of by the generic analysis
SITE_DECIDED = {
    ('dimarray.dataset.Dataset.reindex_axis', 'self'):
        'fills / relabels the result of take_axis: variables that have the dimension are fresh (np.take), variables lacking it keep the '
        'operand buffer and are skipped by the has-dimension guard (decided by C15-R4)',
    ('dimarray.core.reshape.reshape', 'self'):
        "the temporary ',' <-> ';' renaming acts on the Axis objects of a working array that was rebuilt around copies of the axes "
        '([ax.copy() for ax in o.axes]) and then only passed through squeeze / transpose / newaxis / flatten, which keep those copies: '
        'decided structurally by C11-R4, re-run as C15-R5',
}


def join(a, b):
    fa, fb = a[2], b[2]
    if fa is not None and fb is not None:
        f = fa | fb
    elif fa is None and fb is None:
        f = None
    else:
        # one side has no field knowledge: only keep it if that side is the empty value
        other = b if fa is not None else a
        f = (fa if fa is not None else fb) if not (other[0] or other[1]) else None
    return AV(a[0] | b[0], a[1] | b[1], f)


def inside(v, field=None):
    """value of a field / element of v"""
    if field is not None and v[2] is not None and not v[0]:
        # fields of a freshly constructed object: `field` = roots the field object itself may be (part of); `field!c` = roots only its contents alias
        # (the constructor stored a fresh container there, e.g. DimArray._axes = _init_axes(...): a new Axes list holding the caller's Axis objects)
        roots = set(r for f, r in v[2] if f == field)
        cont = set(r for f, r in v[2] if f == field + '!c')
        return AV(frozenset((r, 1) for r in roots), frozenset(roots | cont))
    # depth: 0 = the root object itself; a field name = inside the root through that field; 1 = inside, unknown path
    shell = set()
    for r, d in v[0]:
        # depth tags: 0 = the root object itself; 'F' = exactly the object stored in its field F; 'F+' = strictly inside that field; 1 = inside, unknown path
        if d == 0:
            nd = field or 1
        elif isinstance(d, str) and not d.endswith('+'):
            nd = d + '+'
        else:
            nd = d
        shell.add((r, nd))
    for r in v[1]:
        if not any(x == r for x, d in v[0]):
            shell.add((r, 1))
    return AV(frozenset(shell), frozenset(roots_of(v)))


def roots_of(v):
    return set(r for r, d in v[0]) | set(v[1])


def container_of(vals):
    """fresh container holding the given values"""
    c = set()
    for v in vals:
        c |= roots_of(v)
    return AV(frozenset(), frozenset(c))


class Summary(object):
    def __init__(self):
        self.mutates = {}       # param -> list of witness strings (call chain)
        self.kinds = {}         # param -> {'self', 'deep'}
        self.wkind = {}         # param -> kind -> first witness
        self.ret = FRESH
        self.field_caps = {}    # param -> field -> set of params captured into that field (constructors)
        self.rtype = None
        self.captures = {}      # param -> set of params whose objects are stored inside it (constructors)
        self.notes = []

    def key(self):
        return (tuple(sorted((k, tuple(sorted(v))) for k, v in self.kinds.items())), tuple(self.ret), self.rtype, tuple(sorted((k, tuple(sorted(v))) for k, v in self.captures.items())))


DIMARRAY = 'dimarray.core.dimarraycls.DimArray'
DATASET = 'dimarray.dataset.Dataset'
AXIS = 'dimarray.core.axes.Axis'
AXES = 'dimarray.core.axes.Axes'
TYPE_CLASSES = {'DimArray': DIMARRAY, 'Dataset': DATASET, 'Axis': AXIS, 'Axes': AXES, 'MultiAxis': 'dimarray.core.axes.MultiAxis',
                'DatasetAxes': 'dimarray.dataset.DatasetAxes'}


class Effects(object):
    def __init__(self, program):
        self.P = program
        self.cache = {}
        self.meta = {}
        self.deps = {}
        self.worklist = set()
        self.current = None
        self.evals = {}
        self.changed = False
        self.first_param_types = self._first_param_types()
        self.helper_param_types = self._helper_param_types()
        self.calls_resolved = 0
        self.calls_external = 0
        self.calls_unknown = 0
        self.evaluated = 0

    # ------------------------------------------------------------------ typing
    def _first_param_types(self):
        """module functions installed as methods: their first parameter is an instance of that class"""
        out = {}
        for cq in (DIMARRAY, DATASET, AXIS, AXES):
            ci = self.P.classes.get(cq)
            if ci is None:
                continue
            for name, m in self.P.all_members(ci).items():
                r = self.P.resolve_member(m)
                if r and r[0] == 'func' and r[1].cls is None and r[1].params:
                    out.setdefault(r[1].qualname, set()).add(cq.rsplit('.', 1)[-1])
        return out

    def _helper_param_types(self):
        """private module-level helpers: a parameter that receives, at every call site in the module, the `self` of a method of one class (or `<x>.values` / `<x>.axes`)
        is of that type; a call site whose argument is anything else leaves the parameter untyped"""
        seen = {}
        byname = {}
        for q, g in self.P.functions.items():
            if g.cls is None and g.name.startswith('_') and not g.name.startswith('__'):
                byname.setdefault((g.module, g.name), g)
        if not byname:
            return {}
        for q, f in self.P.functions.items():
            recv_t = None
            if f.params:
                recv_t = self.param_type(f, f.params[0]) if f.cls is not None else None
                if f.cls is None:
                    ts = self.first_param_types.get(f.qualname)
                    recv_t = list(ts)[0] if ts and len(ts) == 1 else ('DimArray' if ts and 'DimArray' in ts else None)
            for node in ast.walk(f.node):
                if not (isinstance(node, ast.Call) and isinstance(node.func, ast.Name) and (f.module, node.func.id) in byname):
                    continue
                g = byname[(f.module, node.func.id)]
                if any(isinstance(a, ast.Starred) for a in node.args) or any(k.arg is None for k in node.keywords):
                    for p_ in g.params:
                        seen.setdefault((g.qualname, p_), set()).add(None)
                    continue
                bound = list(zip(g.params, node.args)) + [(k.arg, k.value) for k in node.keywords]
                for p_, a in bound:
                    t_ = None
                    if isinstance(a, ast.Name) and f.params and a.id == f.params[0] and not any(
                            isinstance(n, (ast.Assign, ast.AugAssign, ast.For)) and any(isinstance(x, ast.Name) and x.id == a.id for tgt in
                            (n.targets if isinstance(n, ast.Assign) else [n.target]) for x in ast.walk(tgt)) for n in ast.walk(f.node)):
                        t_ = recv_t
                    elif isinstance(a, ast.Attribute) and a.attr in ('values', '_values'):
                        t_ = 'ndarray'
                    elif isinstance(a, ast.Attribute) and a.attr in ('axes', '_axes'):
                        t_ = 'Axes'
                    elif isinstance(a, ast.Subscript) and isinstance(a.value, ast.Attribute) and a.value.attr in ('axes', '_axes') and not isinstance(a.slice, ast.Slice):
                        t_ = 'Axis'
                    elif isinstance(a, ast.Name):
                        # a local assigned exactly once, from `<x>.axes[<one index>]`: an Axis
                        defs = [n for n in ast.walk(f.node) if isinstance(n, (ast.Assign, ast.AugAssign, ast.For, ast.With, ast.NamedExpr, ast.comprehension)) and any(
                            isinstance(x, ast.Name) and x.id == a.id for tgt in (n.targets if isinstance(n, ast.Assign) else [n.target] if hasattr(n, 'target') else
                                                                                  [i.optional_vars for i in n.items if i.optional_vars is not None]) for x in ast.walk(tgt))]
                        if len(defs) == 1 and isinstance(defs[0], ast.Assign) and len(defs[0].targets) == 1 and isinstance(defs[0].targets[0], ast.Name) \
                                and a.id not in f.params:
                            v_ = defs[0].value
                            if isinstance(v_, ast.Subscript) and isinstance(v_.value, ast.Attribute) and v_.value.attr in ('axes', '_axes') and not isinstance(v_.slice, ast.Slice):
                                t_ = 'Axis'
                    seen.setdefault((g.qualname, p_), set()).add(t_)
        return dict((k, list(v)[0]) for k, v in seen.items() if len(v) == 1 and None not in v)

    def param_type(self, fi, p):
        if fi.cls is None and getattr(self, 'helper_param_types', None) and (fi.qualname, p) in self.helper_param_types \
                and not (fi.params and p == fi.params[0] and self.first_param_types.get(fi.qualname)):
            return self.helper_param_types[(fi.qualname, p)]
        if fi.params and p == fi.params[0]:
            if fi.cls is not None:
                for c in fi.cls.mro:
                    if isinstance(c, ClassInfo) and c.name in TYPE_CLASSES:
                        return c.name
                n = fi.cls.name
                if n.startswith('Abstract'):
                    return {'AbstractDimArray': 'DimArray', 'AbstractHasAxes': None, 'AbstractAxis': 'Axis', 'AbstractAxes': 'Axes',
                            'AbstractDataset': 'Dataset'}.get(n)
                return None
            ts = self.first_param_types.get(fi.qualname)
            if ts and len(ts) == 1:
                return list(ts)[0]
            if ts:
                return 'DimArray' if 'DimArray' in ts else None
        return None

    def type_of(self, t, fi):
        tag = t[0]
        if tag == 'param':
            return self.param_type(fi, t[1])
        if tag == 'attr':
            if t[2] in ('axes', '_axes'):
                return 'Axes'
            if t[2] in ('values', '_values'):
                return 'ndarray'
            if t[2] in ('attrs', '_attrs'):
                return 'dict'
            if t[2] == 'T':
                return self.type_of(t[1], fi)
            return None
        if tag in ('sub', 'elem'):
            bt = self.type_of(t[1], fi)
            if bt == 'Axes':
                if tag == 'sub' and t[2][0] == 'slice':
                    return 'list'
                return 'Axis'
            if bt == 'Dataset' and tag == 'sub':
                return 'DimArray'
            if bt == 'ndarray':
                return 'ndarray'
            # an element of a list built by a comprehension / display has the type of what the list was built from
            src = t[1]
            while src[0] == 'sub' and src[2][0] == 'slice':
                src = src[1]
            if bt == 'list' and src[0] == 'comp':
                return self.type_of(src[2], fi)
            if bt == 'list' and src[0] == 'list' and src[1]:
                ts = set(self.type_of(x, fi) for x in src[1])
                return ts.pop() if len(ts) == 1 else None
            return None
        if tag in ('list', 'comp'):
            return 'list'
        if tag == 'dict':
            return 'dict'
        if tag == 'tuple':
            return 'tuple'
        if tag in ('setitem', 'mut'):
            return self.type_of(t[1], fi)
        if tag == 'phi':
            ts = set(self.type_of(x, fi) for x in t[1] if x[0] != 'carried' and x != T.CONST_NONE)
            ts.discard(None)          # alternatives of unknown type do not contradict the known ones (same convention as for return types)
            return ts.pop() if len(ts) == 1 else None
        if tag == 'ifexp':
            a, b = self.type_of(t[2], fi), self.type_of(t[3], fi)
            return a if a == b else None
        if tag == 'call':
            d = T.dotted(t[1]) or ''
            n = T.call_name(t)
            if d in ('DimArray', 'da.DimArray', 'Dataset', 'da.Dataset', 'Axis', 'Axes', 'MultiAxis', 'DatasetAxes'):
                return d.split('.')[-1].replace('MultiAxis', 'Axis').replace('DatasetAxes', 'Axes')
            if n == '_constructor':
                return 'DimArray'
            if t[1][0] == 'param' and fi.cls is not None and fi.params and t[1][1] == fi.params[0] \
                    and any('classmethod' in ast.unparse(d) for d in fi.decorators):
                for c in fi.cls.mro:
                    if isinstance(c, ClassInfo) and c.name in TYPE_CLASSES:
                        return c.name.replace('MultiAxis', 'Axis').replace('DatasetAxes', 'Axes')
            if d.startswith('np.') or d.startswith('numpy.'):
                return 'ndarray'
            if n == 'copy' and t[1][0] == 'attr':
                return self.type_of(t[1][1], fi)
            if d in ('copy.copy', 'copy.deepcopy') and t[2]:
                return self.type_of(t[2][0], fi)
            targets = self.resolve(t, fi)
            rts = set()
            for kind, g, meta in targets:
                if kind == 'func':
                    s = self.cache.get(self._key(g, {}))
                    if s is not None and s.rtype:
                        rts.add(s.rtype)
            if len(rts) == 1:
                return rts.pop()
            return None
        return None

    # --------------------------------------------------------------- resolution
    def resolve(self, call, fi):
        """-> list of (kind, target, meta); kind in func | ctor | external | unknown"""
        f = call[1]
        P = self.P
        mod = fi.module
        if f[0] == 'name':
            r = P.resolve_expr(mod, ast.Name(id=f[1], ctx=ast.Load()))
            if r is None:
                return [('external', f[1], None)]
            if r[0] == 'func':
                return [('func', r[1], {'method': False})]
            if r[0] == 'class':
                return [('ctor', r[1], None)]
            return [('external', f[1], None)]
        if f[0] == 'attr':
            recv, name = f[1], f[2]
            d = T.dotted(recv)
            if d is not None and recv[0] in ('name', 'attr'):
                # module alias?
                try:
                    node = ast.parse(d, mode='eval').body
                    r = P.resolve_expr(mod, node)
                except Exception:
                    r = None
                if r is not None and r[0] == 'module':
                    rr = P._unwrap_assign(P.resolve_name(r[1], name))
                    if rr and rr[0] == 'func':
                        return [('func', rr[1], {'method': False})]
                    if rr and rr[0] == 'class':
                        return [('ctor', rr[1], None)]
                    return [('external', d + '.' + name, None)]
                if r is not None and r[0] in ('extmodule', 'ext'):
                    return [('external', d + '.' + name, None)]
                if r is not None and r[0] == 'class':
                    m = P.lookup(r[1], name)
                    if m is not None:
                        rm = P.resolve_member(m)
                        if rm and rm[0] == 'func':
                            # Class.method(obj, ...) : unbound call (classmethods bind cls)
                            bound = 'classmethod' in getattr(m, 'decorators', []) or 'staticmethod' in getattr(m, 'decorators', [])
                            return [('func', rm[1], {'method': False, 'skip_first': 'classmethod' in getattr(m, 'decorators', [])})]
                    return [('external', d + '.' + name, None)]
                if d in ('np', 'numpy', 'copy', 'warnings', 'json', 'itertools', 'functools', 'string', 'os', 're', 'np.ma', 'np.random') or d.startswith('np.'):
                    return [('external', d + '.' + name, None)]
            # super(...).method
            if recv[0] == 'call' and T.dotted(recv[1]) == 'super':
                ci = fi.cls
                if ci is not None:
                    after = False
                    for c in ci.mro:
                        if c is ci:
                            after = True
                            continue
                        if after and isinstance(c, ClassInfo) and name in c.members:
                            rm = P.resolve_member(c.members[name])
                            if rm and rm[0] == 'func':
                                return [('func', rm[1], {'method': 'super', 'super_obj': recv[2][1] if len(recv[2]) == 2 else None})]
                    # super(Class, obj).method(...) acts on obj (the second argument), plain super() on the method's own receiver
                    return [('external', 'builtin.' + name, {'recv': recv[2][1] if len(recv[2]) == 2 else ('param', fi.params[0])})]
                return [('unknown', name, None)]
            rt = self.type_of(recv, fi)
            if rt in TYPE_CLASSES:
                ci = P.classes.get(TYPE_CLASSES[rt])
                m = P.lookup(ci, name) if ci else None
                if m is not None:
                    return self._member_targets(m, recv)
                return [('external', 'builtin.' + name, {'recv': recv})]
            if rt in ('ndarray', 'list', 'dict', 'tuple'):
                return [('external', rt + '.' + name, {'recv': recv})]
            # `self` inside a method of an abstract base: the receiver is an instance of one of its subclasses - their members of that name, and nothing else
            if recv[0] == 'param' and fi.cls is not None and fi.params and recv[1] == fi.params[0] and not any('staticmethod' in ast.unparse(d) or 'classmethod' in ast.unparse(d) for d in fi.decorators):
                out = []
                for ci in P.classes.values():
                    if ci.module.name.startswith('dimarray.io') or ci.module.name.startswith('dimarray.convert'):
                        continue
                    if fi.cls in ci.mro:
                        m = P.lookup(ci, name)
                        if m is not None:
                            for tgt in self._member_targets(m, recv):
                                if tgt not in out:
                                    out.append(tgt)
                if out:
                    return out
            # unknown receiver type: class-hierarchy analysis by member name + external fallback
            out = []
            for ci in P.classes.values():
                if ci.module.name.startswith('dimarray.io') or ci.module.name.startswith('dimarray.convert'):
                    continue
                if name in ci.members:
                    for tgt in self._member_targets(ci.members[name], recv):
                        if tgt not in out:
                            out.append(tgt)
            out.append(('external', 'any.' + name, {'recv': recv}))
            return out
        if f[0] == 'param' and fi.cls is not None and fi.params and f[1] == fi.params[0] and f[1] == 'cls':
            # cls(...) inside a classmethod: the constructor of the class (subclasses construct the same way)
            return [('ctor', fi.cls, None)]
        if f[0] == 'phi':
            out = []
            for alt in T.strip_phi(f):
                if alt[0] in ('carried', 'param', 'const'):
                    continue
                for t in self.resolve(('call', alt, call[2], call[3]), fi):
                    if t not in out:
                        out.append(t)
            return out or [('unknown', T.show(f)[:40], None)]
        if f[0] == 'call':
            # calling what a repository function returned (func = _get_func(name, skipna); func(values, ...)): the repository functions among its results
            inner = [t for t in self.resolve(f, fi) if t[0] == 'func' and t[1] is not None]
            out = []
            for _, g, _m in inner:
                key = ('returns', g.qualname)
                if key not in self.evals:
                    try:
                        ev = Evaluator(self.P, g, mode='join', max_paths=200000)
                        ev.run()
                        names = set()
                        for p in ev.paths:
                            if p.kind == 'return':
                                for alt in T.strip_phi(p.value):
                                    if alt[0] == 'name':
                                        names.add(alt[1])
                        self.evals[key] = names
                    except AnalysisError:
                        self.evals[key] = set()
                for n in sorted(self.evals[key]):
                    r = P.resolve_expr(g.module, ast.Name(id=n, ctx=ast.Load()))
                    if r is not None and r[0] == 'func':
                        out.append(('func', r[1], {'method': False}))
            if out:
                return out + [('unknown', T.show(f)[:40], None)]
            return [('unknown', T.show(f)[:40], None)]
        if f[0] == 'localfn':
            g = P.functions.get(f[1])
            return [('func', g, {'method': False})] if g else [('unknown', f[1], None)]
        return [('unknown', T.show(f)[:40], None)]

    def _member_targets(self, m, recv):
        rm = self.P.resolve_member(m)
        if rm is None:
            return [('unknown', 'member', None)]
        if rm[0] == 'func':
            deco = getattr(m, 'decorators', [])
            if 'classmethod' in deco:
                return [('func', rm[1], {'method': 'cls'})]
            if 'staticmethod' in deco:
                return [('func', rm[1], {'method': False})]
            return [('func', rm[1], {'method': True})]
        if rm[0] == 'numpydesc':
            g = self.P.functions.get('dimarray.core.transform.apply_along_axis')
            return [('func', g, {'method': True, 'extra_first': const(rm[1])})]
        if rm[0] == 'prop':
            # property returning a bound method (take -> _getitem, put -> _setitem)
            fget = rm[1]['fget']
            rets = [n for n in ast.walk(fget.node) if isinstance(n, ast.Return)]
            if len(rets) == 1 and isinstance(rets[0].value, ast.Attribute) and isinstance(rets[0].value.value, ast.Name) \
                    and fget.params and rets[0].value.value.id == fget.params[0]:
                out = []
                for cq in (DIMARRAY, DATASET):
                    ci = self.P.classes.get(cq)
                    if ci is not None and fget.cls in ci.mro:
                        mm = self.P.lookup(ci, rets[0].value.attr)
                        if mm is not None:
                            for t in self._member_targets(mm, recv):
                                if t not in out:
                                    out.append(t)
                return out or [('unknown', 'prop', None)]
            return [('unknown', 'property-call', None)]
        return [('unknown', rm[0], None)]

    # ----------------------------------------------------------------- absval
    def absval(self, t, ctx):
        memo = ctx['memo']
        if t in memo:
            return memo[t]
        memo[t] = FRESH          # cycle guard
        v = self._absval(t, ctx)
        memo[t] = v
        return v

    def _absval(self, t, ctx):
        tag = t[0]
        fi = ctx['fi']
        if tag == 'param':
            p = t[1]
            return AV(frozenset([(p, 0)]), frozenset([p]))
        if tag in ('const', 'name', 'idx', 'cmp', 'unop', 'fstr', 'slice', 'localfn', 'lambda', 'exc', 'unknown', 'carried', 'bv', 'tryfail'):
            return FRESH
        if tag == 'attr':
            if t[2] in SCALAR_ATTRS:
                return FRESH
            fld = FIELD_ALIASES.get(t[2], t[2])
            ov = ctx.get('overrides', {}).get((t[1], fld))
            if ov is not None:
                return ov
            base = self.absval(t[1], ctx)
            if fld == '_attrs' and not base[0]:
                # every constructor stores a *fresh* dict in _attrs (checked by C16-R2b); its values may be shared
                return AV(frozenset(), base[1])
            return inside(base, fld if fld in ('_values', '_axes', '_attrs') else None)
        if tag == 'sub':
            base = self.absval(t[1], ctx)
            if self.type_of(t[1], fi) == 'ndarray':
                idx = t[2]
                basic = idx[0] == 'slice' or (idx[0] == 'const' and isinstance(idx[1], int)) or \
                    (idx[0] == 'tuple' and all(x[0] in ('slice', 'const') or T.dotted(x) == 'np.newaxis' for x in idx[1]))
                if not basic and idx[0] not in ('tuple', 'binop'):
                    # boolean / integer-array (advanced) indexing copies... unless we cannot tell
                    if idx[0] in ('cmp', 'call', 'comp', 'list'):
                        return FRESH
                return AV(frozenset(base[0]) | frozenset((r, 1) for r in base[1] if not any(x == r for x, dd in base[0])), base[1]) if base[0] or base[1] else FRESH
            return inside(base)
        if tag == 'elem':
            return inside(self.absval(t[1], ctx))
        if tag == 'item':
            # position-sensitive projection: item i of a tuple literal, or of an element of a comprehension / list whose elements are tuple literals
            src = t[1]
            i = t[2]
            if isinstance(i, int):
                if src[0] == 'tuple' and 0 <= i < len(src[1]) and not any(x[0] == 'star' for x in src[1]):
                    return self.absval(src[1][i], ctx)
                if src[0] == 'elem' and src[1][0] == 'comp' and src[1][2][0] == 'tuple' and 0 <= i < len(src[1][2][1]) \
                        and not any(x[0] == 'star' for x in src[1][2][1]):
                    return self.absval(src[1][2][1][i], ctx)
            return inside(self.absval(t[1], ctx))
        if tag in ('tuple', 'list', 'set'):
            return container_of([self.absval(x[1] if x[0] == 'star' else x, ctx) for x in t[1]])
        if tag == 'dict':
            return container_of([self.absval(v, ctx) for k, v in t[1]])
        if tag == 'comp':
            elt = t[2]
            return container_of([self.absval(elt, ctx)])
        if tag == 'binop':
            if t[1] == '+':
                a, b = self.absval(t[2], ctx), self.absval(t[3], ctx)
                ta, tb = self.type_of(t[2], fi), self.type_of(t[3], fi)
                if ta == 'ndarray' or tb == 'ndarray':
                    return FRESH
                return AV(frozenset(), a[1] | b[1])
            if t[1] == '*' and (self.type_of(t[2], fi) in ('list', 'tuple') or self.type_of(t[3], fi) in ('list', 'tuple')):
                a, b = self.absval(t[2], ctx), self.absval(t[3], ctx)
                return AV(frozenset(), a[1] | b[1])
            return FRESH
        if tag == 'boolop':
            v = FRESH
            for x in t[2]:
                v = join(v, self.absval(x, ctx))
            return v
        if tag == 'ifexp':
            return join(self.absval(t[2], ctx), self.absval(t[3], ctx))
        if tag == 'phi':
            v = FRESH
            for x in t[1]:
                v = join(v, self.absval(x, ctx))
            return v
        if tag == 'setitem':
            c, v = self.absval(t[1], ctx), self.absval(t[3], ctx)
            return AV(c[0], c[1] | frozenset(r for r, d in v[0]) | v[1], c[2])
        if tag == 'mut':
            c = self.absval(t[1], ctx)
            if t[2] in CAPTURING:
                extra = set()
                for x in t[3]:
                    v = self.absval(x, ctx)
                    extra |= set(r for r, d in v[0]) | set(v[1])
                return AV(c[0], c[1] | frozenset(extra), c[2])
            return c
        if tag == 'star':
            return self.absval(t[1], ctx)
        if tag == 'yield':
            return self.absval(t[1], ctx)
        if tag == 'call':
            return self.call_value(t, ctx)
        return FRESH

    def arg_bindings(self, call, g, meta):
        """param name -> arg term for a resolved repo callee"""
        args = list(call[2])
        meta = meta or {}
        if meta.get('method') in (True, 'super'):
            recv = call[1][1] if meta.get('method') is True else ('param', None)
            if meta.get('method') == 'super':
                recv = None
            args = [recv] + args if recv is not None else [('SELF',)] + args
        elif meta.get('method') == 'cls':
            args = [('name', 'cls')] + args
        if meta.get('skip_first'):
            args = [('name', 'cls')] + args
        if 'extra_first' in meta:
            args = args[:1] + [meta['extra_first']] + args[1:]
        params = list(g.params)
        out = {}
        star = False
        for i, a in enumerate(args):
            if a[0] == 'star':
                star = True
                # unknown positional spread: bind to all remaining params conservatively
                for p in params[i:]:
                    out.setdefault(p, a[1])
                if g.vararg:
                    out['*' + g.vararg] = a[1]
                break
            if i < len(params):
                out[params[i]] = a
            elif g.vararg:
                out.setdefault('*' + g.vararg, ('tuple', ()))
                out['*' + g.vararg] = ('tuple', out['*' + g.vararg][1] + (a,)) if out['*' + g.vararg][0] == 'tuple' else a
        for k, v in call[3]:
            if k == '**':
                if g.kwarg:
                    out['**' + g.kwarg] = v
                continue
            if k in params or k in g.kwonly:
                out[k] = v
            elif g.kwarg:
                cur = out.get('**' + g.kwarg, ('dict', ()))
                if cur[0] == 'dict':
                    out['**' + g.kwarg] = ('dict', cur[1] + ((const(k), v),))
        return out

    def const_config(self, g, binds):
        """options of the callee that are bound to constants at this call site"""
        cfg = {}
        defaults = g.defaults()
        for p in g.params + g.kwonly:
            v = binds.get(p)
            if v is None and p in defaults:
                try:
                    v = const(ast.literal_eval(defaults[p]))
                except Exception:
                    v = None
            if v is not None and v[0] == 'const' and (isinstance(v[1], (bool, str)) or v[1] is None):
                cfg[p] = v
        return cfg

    def receiver_value(self, a, cls, av, ctx):
        """The receiver of a method that was resolved to class `cls` is an instance of `cls`.  When it is `Y.copy()` with Y of unknown type - which the generic
        rule reads as a shallow copy, the worst any `copy` method can be - the copy was made by cls's own `copy`: use what that method returns."""
        if not (a[0] == 'call' and a[1][0] == 'attr' and a[1][2] == 'copy' and self.type_of(a[1][1], ctx['fi']) is None):
            return av
        m = self.P.lookup(cls, 'copy')
        if m is None:
            return av
        tg = [t for t in self._member_targets(m, a[1][1]) if t[0] == 'func' and t[1] is not None]
        if len(tg) != 1:
            return av
        try:
            return self.call_value_one(a, tg[0][0], tg[0][1], tg[0][2], ctx)
        except Exception:
            return av

    def call_value(self, call, ctx):
        fi = ctx['fi']
        v = None
        for kind, g, meta in self.resolve(call, fi):
            r = self.call_value_one(call, kind, g, meta, ctx)
            v = r if v is None else join(v, r)
        return v if v is not None else FRESH

    def call_value_one(self, call, kind, g, meta, ctx):
        fi = ctx['fi']
        if kind == 'func':
            if g is None:
                return FRESH
            binds = self.arg_bindings(call, g, meta)
            if (meta or {}).get('method') == 'super' and fi.params:
                binds[g.params[0]] = ((meta or {}).get('super_obj') or ('param', fi.params[0])) if g.params else None
            s = self.summary(g, self.const_config(g, binds))
            return self.subst(s.ret, binds, g, ctx)
        if kind == 'ctor':
            return self.ctor_value(call, g, ctx)
        if kind == 'external':
            return self.external_value(call, g, meta, ctx)
        # unknown callable (user supplied function, getattr(...)): assumed to return a fresh value
        return FRESH

    def subst(self, av, binds, g, ctx):
        """instantiate a callee AbsVal with the abstract values of the arguments"""
        shell, contents = set(), set()
        for r, d in av[0]:
            a = self.absval(binds[r], ctx) if r in binds and binds[r] is not None and binds[r][0] != 'SELF' else FRESH
            if d == 0:
                shell |= set(a[0])
                contents |= set(a[1])
            else:
                shell |= set((x, 1) for x in a[1]) | set((x, 1) for x, dd in a[0])
                contents |= set(a[1]) | set(x for x, dd in a[0])
        for r in av[1]:
            a = self.absval(binds[r], ctx) if r in binds and binds[r] is not None and binds[r][0] != 'SELF' else FRESH
            contents |= set(a[1]) | set(x for x, dd in a[0])
        fields = None
        if av[2] is not None:
            fs = set()
            for f, r in av[2]:
                a = self.absval(binds[r], ctx) if r in binds and binds[r] is not None and binds[r][0] != 'SELF' else FRESH
                if r in binds and binds[r] is not None and binds[r][0] != 'SELF' and not f.startswith('_values') \
                        and self.type_of(binds[r], ctx['fi']) == 'ndarray':
                    continue        # a plain ndarray argument has no axes / attrs to take over
                basef = f[:-2] if f.endswith('!c') else f
                if a[2] is not None and not a[0] and basef in ('_axes', '_values', '_attrs'):
                    # the argument is itself a freshly built array with known fields: its axes come from its axes, its values from its values
                    # (field-wise flow through the array operations of this package; C10-R1 / C08-R2 check that axes are built from axes)
                    for f2, x in a[2]:
                        if (f2[:-2] if f2.endswith('!c') else f2) == basef:
                            fs.add((f if (f.endswith('!c') or f2.endswith('!c')) is False else basef + '!c', x))
                    continue
                sh = set(x for x, dd in a[0])
                for x in roots_of(a):
                    fs.add((f if (x in sh or f.endswith('!c')) else f + '!c', x))
            fields = frozenset(fs)
        return AV(frozenset(shell), frozenset(contents), fields)

    def ctor_value(self, call, ci, ctx):
        init = None
        m = self.P.lookup(ci, '__init__')
        if m is not None and m.kind == 'func':
            init = m.value
        if init is None:
            return container_of([self.absval(a[1] if a[0] == 'star' else a, ctx) for a in call[2]] + [self.absval(v, ctx) for k, v in call[3]])
        binds = self.arg_bindings(call, init, {'method': False})
        # shift: first param is the new object
        binds = self.arg_bindings(('call', call[1], (('SELF',),) + call[2], call[3]), init, {'method': False})
        s = self.summary(init, self.const_config(init, binds))
        captured = s.captures.get(init.params[0], set()) if init.params else set()
        vals = []
        for p in captured:
            if p in binds and binds[p] is not None and binds[p][0] != 'SELF':
                vals.append(self.absval(binds[p], ctx))
        v = container_of(vals)
        fc = s.field_caps.get(init.params[0]) if init.params else None
        if fc is not None:
            fs = set()
            for fld, ps in fc.items():
                for p in ps:
                    if p in binds and binds[p] is not None and binds[p][0] != 'SELF':
                        if not fld.startswith('_values') and self.type_of(binds[p], ctx['fi']) == 'ndarray':
                            continue        # a plain ndarray argument has no axes / attrs to take over
                        a = self.absval(binds[p], ctx)
                        sh = set(x for x, dd in a[0])
                        for x in roots_of(a):
                            fs.add((fld if (x in sh or fld.endswith('!c')) else fld + '!c', x))
            v = AV(v[0], v[1], frozenset(fs))
        return v

    def external_value(self, call, name, meta, ctx):
        recv = (meta or {}).get('recv')
        short = name.split('.')[-1]
        args = [self.absval(a[1] if a[0] == 'star' else a, ctx) for a in call[2]]
        if name in ('copy.deepcopy',):
            return FRESH
        if name in ('copy.copy',):
            return AV(frozenset(), args[0][1] | frozenset(r for r, d in args[0][0] if d != 0)) if args else FRESH
        if name.startswith('np.') or name.startswith('numpy.'):
            if short in VIEW_NP_FUNCS and args:
                return args[0]
            if short == 'array' and args:
                cp = T.kw(call, 'copy')
                if cp is not None and cp != T.CONST_TRUE:
                    return args[0]
                return FRESH
            return FRESH
        if name in ('list', 'tuple', 'dict', 'set', 'sorted', 'reversed', 'zip', 'enumerate', 'iter', 'filter', 'map'):
            return container_of([inside(a) for a in args] + [self.absval(v, ctx) for k, v in call[3]])
        if name in ('getattr',) and args:
            return inside(args[0])
        if name in ('len', 'isinstance', 'hasattr', 'type', 'int', 'float', 'str', 'repr', 'bool', 'range', 'min', 'max', 'sum', 'abs', 'any', 'all',
                    'callable', 'id', 'print', 'super', 'format', 'ValueError', 'TypeError', 'IndexError', 'Exception', 'AssertionError', 'KeyError'):
            return FRESH
        if recv is not None:
            rv = self.absval(recv, ctx)
            if short == 'copy':
                rt = self.type_of(recv, ctx['fi'])
                if rt == 'ndarray':
                    return FRESH
                return AV(frozenset(), rv[1])        # shallow copy of a container
            if short in VIEW_METHODS or short == 'T':
                return rv
            if short in ELEMENT_METHODS:
                return inside(rv)
            if short in ('take', 'compress', 'repeat', 'astype', 'filled', 'tolist', 'argsort', 'searchsorted', 'index', 'count', 'format', 'join', 'split',
                         'replace', 'startswith', 'endswith', 'sum', 'mean', 'min', 'max', 'any', 'all', 'item', 'strip', 'lower', 'upper', 'nonzero', 'cumsum',
                         'std', 'var', 'prod', 'round', 'clip', 'flatten', 'conj', 'dot'):
                return FRESH
            if short in MUTATORS:
                return FRESH
            # unknown method of unknown receiver: may hand out something inside the receiver
            if name.startswith('any.'):
                return FRESH
            return FRESH
        return FRESH

    # ---------------------------------------------------------------- summaries
    def _key(self, fi, config):
        return (fi.qualname, tuple(sorted((k, v) for k, v in config.items())))

    def summary(self, fi, config=None):
        """Least fixpoint over the call graph (worklist): a nested request may see a provisional (smaller) summary of a function that is still being
        computed or that will grow later; every (function, configuration) whose callee summary changes is re-evaluated until nothing changes, so the
        result does not depend on the order in which summaries are requested.  Summaries only grow (sets of written roots, aliased roots)."""
        config = dict(config or {})
        key = self._key(fi, config)
        if self.current is not None:
            self.deps.setdefault(key, set()).add(self.current)
        if key not in self.cache:
            self.meta[key] = (fi, config)
            self.cache[key] = Summary()           # bottom
            self._recompute(key)
        if self.current is None:
            # top-level request: close the fixpoint
            guard = 0
            while self.worklist:
                k = self.worklist.pop()
                guard += 1
                if guard > 20000:
                    self.cache[key].notes.append('UNDECIDED: effect fixpoint did not converge')
                    self.worklist.clear()
                    break
                self._recompute(k)
        return self.cache[key]

    def _recompute(self, key):
        fi, config = self.meta[key]
        outer = self.current
        self.current = key
        try:
            s = self._compute(fi, config)
        finally:
            self.current = outer
        old = self.cache.get(key)
        self.cache[key] = s
        if old is None or old.key() != s.key() or set(old.field_caps) != set(s.field_caps) or \
                any(old.field_caps.get(k) != v for k, v in s.field_caps.items()):
            for dep in self.deps.get(key, ()):
                if dep != key or True:
                    self.worklist.add(dep)

    def _compute(self, fi, config):
        bind = dict(config)
        ekey = self._key(fi, config)
        ev = self.evals.get(ekey)
        if ev is None:
            self.evaluated += 1
            try:
                ev = Evaluator(self.P, fi, bind=bind, mode='join', max_paths=200000, inline_depth=3)
                ev.run()
            except AnalysisError as e:
                ev = e
            self.evals[ekey] = ev
        if isinstance(ev, AnalysisError):
            s = Summary()
            s.notes.append('UNDECIDED: %s' % ev)
            return s
        s = Summary()
        ctx = {'fi': fi, 'memo': {}, 'overrides': {}}
        # field overrides: a private (fresh) object whose field is re-assigned, e.g. val = copy.copy(val); val._axes = deepcopy(...)
        for p in ev.paths:
            for e in p.state.events:
                if e.kind == 'store_attr' and isinstance(e.c, tuple):
                    tgt = self.absval(e.a, ctx)
                    # (inside a constructor the object under construction is private too: what its fields alias is what was stored)
                    in_ctor = fi.name == '__init__' and fi.params and e.a == ('param', fi.params[0])
                    if not tgt[0] or in_ctor:
                        fld = FIELD_ALIASES.get(e.b, e.b)
                        v = self.absval(e.c, ctx)
                        old = ctx['overrides'].get((e.a, fld))
                        ctx['overrides'][(e.a, fld)] = v if old is None else join(old, v)
        ctx['memo'] = {}
        seen = set()
        rtypes = set()
        for p in ev.paths:
            for e in p.state.events:
                if id(e) in seen:
                    continue
                seen.add(id(e))
                self.event_effects(e, fi, ctx, s)
            if p.kind == 'return':
                s.ret = join(s.ret, self.absval(p.value, ctx))
                rt = self.type_of(p.value, fi)
                rtypes.add(rt)
        rtypes.discard(None)
        if len(rtypes) == 1:
            s.rtype = rtypes.pop()
        if fi.name in ('copy',) and fi.cls is not None and s.rtype is None:
            s.rtype = self.param_type(fi, fi.params[0]) if fi.params else None
        return s

    def record(self, s, fi, roots, witness, deep=False):
        """roots: iterable of (root, depth); depth 0 = the parameter object itself is written ('self' kind),
        depth >= 1 (or deep=True) = something reachable from it ('deep' kind)"""
        for r, d in roots:
            if (fi.qualname, r) in IGNORED_WRITES or any(q == fi.qualname for q, _ in SITE_DECIDED):
                continue
            kind = ('deep:' + d) if isinstance(d, str) else ('deep' if (deep or d != 0) else 'self')
            s.kinds.setdefault(r, set()).add(kind)
            lst = s.mutates.setdefault(r, [])
            tagged = (kind, witness)
            if len(lst) < 4 and witness not in lst:
                lst.append(witness)
            s.wkind.setdefault(r, {}).setdefault(kind, witness)

    def apply_kinds(self, s, fi, cs, q, av, chain):
        """translate the callee's writes on parameter q to the caller, given the abstract value of the argument"""
        for kind in sorted(cs.kinds.get(q, {'deep'})):
            w = chain + '  ->  ' + cs.wkind[q][kind]
            if kind == 'self':
                # the callee writes the argument object itself
                self.record(s, fi, av[0], w)
            elif kind == 'deep':
                roots = set((r, d if d != 0 else 1) for r, d in av[0]) | set((r, 1) for r in av[1])
                self.record(s, fi, roots, w, deep=True)
            else:
                fld = kind.split(':', 1)[1]
                plus = fld.endswith('+')            # the callee writes strictly inside the field (an element, a label buffer), not the field object itself
                basef = fld.rstrip('+')
                if av[2] is not None and not av[0]:
                    # freshly constructed object with known fields: writing the field object itself only concerns roots that *are* that object;
                    # writing inside it also concerns the roots its contents alias
                    roots = set((r, 1) for f, r in av[2] if f == basef or (plus and f == basef + '!c'))
                else:
                    roots = set()
                    for r, d in av[0]:
                        if d == 0:
                            roots.add((r, fld))
                        elif isinstance(d, str) and not d.endswith('+'):
                            roots.add((r, d + '+'))
                        else:
                            roots.add((r, d))
                    roots |= set((r, 1) for r in av[1] if not any(x == r for x, dd in av[0]))
                self.record(s, fi, roots, w, deep=True)

    def event_effects(self, e, fi, ctx, s):
        where = '%s:%s' % (fi.file, e.lineno)
        if e.kind == 'store_attr' and e.b in BENIGN_FIELDS:
            return
        if e.kind in ('store_attr', 'store_sub', 'del'):
            target = self.absval(e.a, ctx)
            what = ('.%s = ...' % e.b) if e.kind == 'store_attr' else '[...] = ...' if e.kind == 'store_sub' else 'del ...'
            desc = '%s %s%s' % (where, T.show(e.a)[:60], what)
            self.record(s, fi, target[0], '%s: %s' % (fi.qualname, desc))
            # capture: the stored value becomes reachable from the target
            if e.kind in ('store_attr', 'store_sub') and isinstance(e.c, tuple):
                v = self.absval(e.c, ctx)
                for r, d in target[0]:
                    if d == 0:
                        caps = s.captures.setdefault(r, set())
                        caps |= set(x for x, dd in v[0]) | set(v[1])
                        if e.kind == 'store_attr':
                            fld = FIELD_ALIASES.get(e.b, e.b)
                            shell_roots = set(x for x, dd in v[0])
                            s.field_caps.setdefault(r, {}).setdefault(fld, set()).update(shell_roots)
                            s.field_caps.setdefault(r, {}).setdefault(fld + '!c', set()).update(set(v[1]) - shell_roots)
            return
        if e.kind == 'aug':
            old = e.a
            if isinstance(old, tuple):
                tp = self.type_of(old, fi)
                if tp in ('ndarray', 'list', 'dict'):
                    target = self.absval(old, ctx)
                    self.record(s, fi, target[0], '%s: %s in-place %s= on %s' % (fi.qualname, where, e.b, T.show(old)[:60]))
            return
        if e.kind != 'call':
            return
        call = e.a
        f = call[1]
        # an option dictionary that is given `overwrite_input` (kw.setdefault('overwrite_input', True) / kw['overwrite_input'] = ... / kw.update(overwrite_input=...))
        # and later handed on as **kw: the function that receives it may reorder its first argument in place (np.median, np.percentile, np.partition ...)
        owd = ctx.setdefault('_overwrite_dicts', {})
        if f[0] == 'attr' and f[2] in ('setdefault', '__setitem__') and len(call[2]) == 2 and call[2][0] == const('overwrite_input') and call[2][1] != T.CONST_FALSE:
            owd[f[1]] = e
        if f[0] == 'attr' and f[2] == 'update' and T.kw(call, 'overwrite_input') not in (None, T.CONST_FALSE):
            owd[f[1]] = e
        def _has_ow(t):
            for x in T.subterms(t):
                if x[0] == 'mut' and x[2] == 'setdefault' and len(x[3]) == 2 and x[3][0] == const('overwrite_input') and x[3][1] != T.CONST_FALSE:
                    return True
                if x[0] == 'setitem' and x[2] == const('overwrite_input') and x[3] != T.CONST_FALSE:
                    return True
            return False
        for k_, v_ in call[3]:
            if k_ == '**' and call[2] and (_has_ow(v_) or any(v_ == d or (v_[0] in ('mut', 'setitem') and v_[1] == d) for d in owd)) and not (f[0] == 'attr' and f[2] in ('setdefault', 'update')):
                target = self.absval(call[2][0][1] if call[2][0][0] == 'star' else call[2][0], ctx)
                self.record(s, fi, target[0], '%s: %s %s(<first argument>, **%s) after overwrite_input was put into that dictionary: NumPy may reorder the argument in place'
                            % (fi.qualname, where, T.show(f)[:40], T.show(v_)[:30]))
        # out= keyword and numpy writers
        out = T.kw(call, 'out')
        if out is not None and out != T.CONST_NONE:
            target = self.absval(out, ctx)
            roots = [(r, d) for r, d in target[0] if r != 'out']
            self.record(s, fi, roots, '%s: %s writes into out=%s' % (fi.qualname, where, T.show(out)[:40]))
        for kind, g, meta in self.resolve(call, fi):
            if kind == 'func' and g is not None:
                self.calls_resolved += 1
                binds = self.arg_bindings(call, g, meta)
                if (meta or {}).get('method') == 'super' and fi.params and g.params:
                    binds[g.params[0]] = (meta or {}).get('super_obj') or ('param', fi.params[0])
                cs = self.summary(g, self.const_config(g, binds))
                for q, wit in cs.mutates.items():
                    a = binds.get(q)
                    if a is None or a[0] == 'SELF':
                        continue
                    av = self.absval(a, ctx)
                    if g.cls is not None and g.params and q == g.params[0] and (meta or {}).get('method') is not False:
                        av = self.receiver_value(a, g.cls, av, ctx)
                    chain = '%s: %s calls %s(%s=%s)' % (fi.qualname, where, g.qualname.replace('dimarray.', ''), q, T.show(a)[:50])
                    self.apply_kinds(s, fi, cs, q, av, chain)
                # captures through constructors / helper methods
                for q, caps in cs.captures.items():
                    a = binds.get(q)
                    if a is None or a[0] == 'SELF':
                        continue
                    av = self.absval(a, ctx)
                    for r, d in av[0]:
                        if d == 0:
                            tgt = s.captures.setdefault(r, set())
                            for c in caps:
                                b = binds.get(c)
                                if b is not None and b[0] != 'SELF':
                                    bv = self.absval(b, ctx)
                                    tgt |= set(x for x, dd in bv[0]) | set(bv[1])
            elif kind == 'ctor':
                self.calls_resolved += 1
                m = self.P.lookup(g, '__init__')
                if m is not None and m.kind == 'func':
                    init = m.value
                    binds = self.arg_bindings(('call', call[1], (('SELF',),) + call[2], call[3]), init, {'method': False})
                    cs = self.summary(init, self.const_config(init, binds))
                    for q, wit in cs.mutates.items():
                        if init.params and q == init.params[0]:
                            continue
                        a = binds.get(q)
                        if a is None or a[0] == 'SELF':
                            continue
                        av = self.absval(a, ctx)
                        chain = '%s: %s constructs %s(%s=%s)' % (fi.qualname, where, g.name, q, T.show(a)[:40])
                        self.apply_kinds(s, fi, cs, q, av, chain)
            elif kind == 'external':
                self.calls_external += 1
                short = g.split('.')[-1]
                recv = (meta or {}).get('recv')
                if recv is not None and short in MUTATORS:
                    # str.replace / dict.get etc. are not in MUTATORS; list.sort / ndarray.fill / dict.update are
                    rt = self.type_of(recv, fi)
                    if rt in ('tuple',):
                        continue
                    target = self.absval(recv, ctx)
                    self.record(s, fi, target[0], '%s: %s %s.%s(...)' % (fi.qualname, where, T.show(recv)[:60], short))
                    if short in CAPTURING:
                        for r, d in target[0]:
                            if d == 0:
                                caps = s.captures.setdefault(r, set())
                                for x in call[2]:
                                    v = self.absval(x[1] if x[0] == 'star' else x, ctx)
                                    caps |= set(y for y, dd in v[0]) | set(v[1])
                if (g.startswith('np.') or g.startswith('numpy.')) and short in NP_WRITERS and call[2]:
                    target = self.absval(call[2][NP_WRITERS[short]], ctx)
                    self.record(s, fi, target[0], '%s: %s np.%s writes into its argument' % (fi.qualname, where, short))
                # np.median / np.percentile / np.partition-style options that let NumPy scribble over its input, and out= buffers
                if (g.startswith('np.') or g.startswith('numpy.') or g.startswith('bottleneck.')) and call[2]:
                    ow = T.kw(call, 'overwrite_input')
                    if ow is not None and ow != T.CONST_FALSE:
                        target = self.absval(call[2][0], ctx)
                        self.record(s, fi, target[0], '%s: %s %s(..., overwrite_input=%s) may reorder its input in place' % (fi.qualname, where, g, T.show(ow)[:20]))
                if g in ('setattr', 'delattr') and call[2]:
                    target = self.absval(call[2][0], ctx)
                    self.record(s, fi, target[0], '%s: %s %s(%s, ...)' % (fi.qualname, where, g, T.show(call[2][0])[:40]))
            else:
                self.calls_unknown += 1


_instances = {}


def get(program):
    if id(program) not in _instances:
        _instances[id(program)] = Effects(program)
    return _instances[id(program)]
