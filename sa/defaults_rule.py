"""Rule RD: frozen table of the default values of the public entry points (sa/tables/defaults.json).

A default is behaviour: `a.take_axis(ii)` means `axis=0, mode='raise'`, `ds.rename_keys(m)` renames in place, `a.cumsum()` does not skip NaN, `concatenate(arrays)` does
not align.  The pinned test suite passes with most of these defaults changed (one-site mutation analysis, tools/mutate.py), so they are frozen here: for every public
function / method of the analysed modules the literal default of each parameter is compared with the table generated from the pinned tree (tools/gen_defaults.py) and
reviewed.  Behaviour-preserving edits do not change public defaults; a changed default is reported with the call form it changes."""
import ast
import json
import os
import re

TABLE = os.path.join(os.path.dirname(os.path.abspath(__file__)), 'tables', 'defaults.json')
FILES = ('dimarray/core/indexing.py', 'dimarray/core/bases.py', 'dimarray/core/axes.py', 'dimarray/core/align.py', 'dimarray/core/operation.py', 'dimarray/core/transform.py',
         'dimarray/core/reshape.py', 'dimarray/core/missingvalues.py', 'dimarray/core/dimarraycls.py', 'dimarray/dataset.py', 'dimarray/lib/stats.py', 'dimarray/tools.py')

# which properties a function's defaults belong to (first match wins)
OWNERS = [
    (r'dataset\.Dataset\.(set_axis|rename_keys|rename_axes|__setitem__|__delitem__|_maybe_delete_axes)$', ('C13', 'C05')),
    (r'dataset\.(Dataset\.|stack_ds|concatenate_ds)', ('C14',)),
    (r'dataset\.DatasetAxes', ('C13',)),
    (r'transform\.(cumsum|cumprod|diff|argmin|argmax)$', ('C09',)),
    (r'transform\.(interp_axis|interp_like|_interp)', ('C18',)),
    (r'transform\.', ('C08',)),
    (r'lib\.stats\.', ('C08',)),
    (r'tools\.anynan$', ('C08',)),
    (r'tools\.', ('C05',)),
    (r'reshape\.(flatten|unflatten|reshape)$', ('C11',)),
    (r'reshape\.(GroupBy|Desc)', ()),
    (r'reshape\.', ('C10',)),
    (r'align\.(stack|concatenate|_check_stack|_concatenate_axes)', ('C12',)),
    (r'align\.(sort_axis|argsort)$', ('C17',)),
    (r'align\.(reindex_axis|reindex_like|_reindex)', ('C07',)),
    (r'align\.(broadcast_arrays|align_dims|get_dims|_get_axes)', ('C10', 'C04')),
    (r'align\.', ('C06',)),
    (r'operation\.', ('C04',)),
    (r'missingvalues\.', ('C17',)),
    (r'indexing\.(locate_slice|_locate_slice)', ('C02',)),
    (r'indexing\.', ('C01',)),
    (r'bases\.AbstractAxis\.loc$', ('C01', 'C02')),
    (r'bases\.(AbstractDimArray\._setitem|AbstractDimArray\.put)', ('C03',)),
    (r'bases\.(GetSetDelAttrMixin|AbstractHasMetadata)', ('C16',)),
    (r'bases\.(OpMixin)', ('C04',)),
    (r'bases\.', ('C01',)),
    (r'axes\.Axis\.(union|intersection|is_monotonic|sort)', ('C06',)),
    (r'axes\.Axis\.(set|__init__)', ('C13', 'C05')),
    (r'axes\.(MultiAxis|_flatten)', ('C11',)),
    (r'axes\.', ('C05',)),
    (r'dimarraycls\.DimArray\.(take_axis|compress|compress_axis|dropna|fillna|setna|sort_axis)', ('C17',)),
    (r'dimarraycls\.DimArray\.(put|_setvalues|fill)', ('C03',)),
    (r'dimarraycls\.DimArray\.(to_json|from_json|to_jsondict|from_jsondict|write_nc|read_nc)', ('C19',)),
    (r'dimarraycls\.DimArray\.(take|_getvalues)', ('C01',)),
    (r'dimarraycls\.DimArray\.(reindex_axis|reindex_like)', ('C07',)),
    (r'dimarraycls\.DimArray\.(copy)$', ('C15',)),
    (r'dimarraycls\.DimArray\.(_binary_op|_rbinary_op|_unary_op|_cmp|__)', ('C04',)),
    (r'dimarraycls\.', ('C05',)),
]
SKIP = re.compile(r'(pandas|larry|cube|write_nc|read_nc|open_nc|plot|_repr|GroupBy|deprecated|to_frame|MultiIndex|format_doc|to_MaskedArray|iter$|to_list|to_dict|summary)')


def owners(q):
    short = q.replace('dimarray.core.', '').replace('dimarray.', '')
    for pat, props in OWNERS:
        if re.search(pat, short):
            return props
    return ()


def is_public(fi):
    parts = fi.qualname.split('.')
    name = parts[-1]
    if SKIP.search(fi.qualname) or fi.parent is not None:
        return False
    return not name.startswith('_') or name in ('__init__', '_get_indices', '_getitem', '_setitem', '_binary_op', '_rbinary_op', '_apply_dimarray_axis', '_init_axes',
                                                '_get_aligned_axes', '_check_stack_axis', '_check_stack_args', '_get_func', '_deal_with_axis')


def defaults_of(fi):
    a = fi.node.args
    out = {}
    pos = a.posonlyargs + a.args
    for p_, d in zip(pos[len(pos) - len(a.defaults):], a.defaults):
        out[p_.arg] = ast.unparse(d)
    for p_, d in zip(a.kwonlyargs, a.kw_defaults):
        if d is not None:
            out[p_.arg] = ast.unparse(d)
    return out


def current(P):
    table = {}
    for q, fi in sorted(P.functions.items()):
        if fi.file in FILES and is_public(fi):
            d = defaults_of(fi)
            if d:
                table[q] = d
    return table


def load_table():
    with open(TABLE) as f:
        return json.load(f)


def rule_defaults(ctx, rid='RD'):
    table = load_table()
    mine = dict((q, d) for q, d in table.items() if ctx.prop in owners(q))
    ctx.rule(rid, 'frozen defaults of the public entry points (%d functions, %d defaults)' % (len(mine), sum(len(d) for d in mine.values())), max(1, sum(len(d) for d in mine.values())))
    for q, frozen in sorted(mine.items()):
        fi = ctx.P.functions.get(q)
        if fi is None:
            name = q.rsplit('.', 1)[-1]
            if name.startswith('_') and not name.startswith('__') and not any(f.name == name for f in ctx.P.functions.values()):
                # a private helper that was merged into its caller: nobody can omit its arguments any more
                for p_ in sorted(frozen):
                    ctx.holds(rid, '%s(%s): private helper no longer exists anywhere (merged into its callers)' % (q.replace('dimarray.', ''), p_))
                continue
            ctx.undecide(rid, 'public function %s of the defaults table no longer exists' % q)
            continue
        ctx.functions.add(q)
        now = defaults_of(fi)
        if fi.name.startswith('_') and not fi.name.startswith('__'):
            # a private helper whose parameters were renamed (same positions): read its defaults under the names the table was frozen with
            from .rules import renamed_params
            for c, w in renamed_params(fi).items():
                if c in now and w not in now:
                    now[w] = now[c]
        for p_, want in sorted(frozen.items()):
            got = now.get(p_)
            if got is None:
                if p_ in fi.params or p_ in (fi.kwonly or ()):
                    ctx.violated(rid, fi, 'def %s(..., %s)' % (fi.name, p_), 'parameter `%s` of %s had the default %s and has none now: calls that omit it fail' % (p_, q, want), node=fi.node)
                else:
                    ctx.undecide(rid, 'parameter `%s` of the public function %s no longer exists (renamed or removed)' % (p_, q))
                continue
            if got != want:
                ctx.violated(rid, fi, 'def %s(..., %s=%s)' % (fi.name, p_, got), 'the default of `%s` in %s is %s, the library\'s documented behaviour (and the frozen table) has %s: every call '
                             'that omits `%s` now behaves differently' % (p_, q.replace('dimarray.', ''), got, want, p_), node=fi.node)
            else:
                ctx.holds(rid, '%s(%s=%s)' % (q.replace('dimarray.', ''), p_, want))
