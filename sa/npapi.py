"""Domain H: resolution of NumPy names against the *pinned* NumPy's shipped stub files.

Only files are read (numpy/__init__.pyi, numpy/ma/__init__.pyi, dist-info/METADATA); NumPy is
never imported.  Used to decide that every `np.<name>` the repository relies on exists in the
environment the property is stated for, and for version-keyed API rules (NumPy >= 2:
`np.array(x, copy=False)` raises whenever a copy is needed).
"""
import ast
import glob
import os
import re
import sys

from .loader import AnalysisError

_cache = {}


def _site_packages():
    cands = glob.glob('/venv/lib/python3*/site-packages')
    for p in sys.path:
        if p.endswith('site-packages'):
            cands.append(p)
    for c in cands:
        if os.path.exists(os.path.join(c, 'numpy', '__init__.pyi')):
            return c
    raise AnalysisError('NumPy stub files not found (numpy/__init__.pyi)')


def _stub_names(path):
    with open(path, encoding='utf-8') as f:
        tree = ast.parse(f.read())
    names = set()

    def visit(body):
        for st in body:
            if isinstance(st, (ast.FunctionDef, ast.AsyncFunctionDef, ast.ClassDef)):
                names.add(st.name)
            elif isinstance(st, ast.Assign):
                for t in st.targets:
                    if isinstance(t, ast.Name):
                        names.add(t.id)
            elif isinstance(st, ast.AnnAssign) and isinstance(st.target, ast.Name):
                names.add(st.target.id)
            elif isinstance(st, ast.ImportFrom):
                for a in st.names:
                    names.add(a.asname or a.name)
            elif isinstance(st, ast.Import):
                for a in st.names:
                    names.add((a.asname or a.name).split('.')[0])
            elif isinstance(st, (ast.If, ast.Try)):
                visit(st.body)
                visit(getattr(st, 'orelse', []))
    visit(tree.body)
    return names


def numpy_info():
    if 'info' in _cache:
        return _cache['info']
    sp = _site_packages()
    top = _stub_names(os.path.join(sp, 'numpy', '__init__.pyi'))
    # submodules are attributes too
    for d in os.listdir(os.path.join(sp, 'numpy')):
        full = os.path.join(sp, 'numpy', d)
        if os.path.isdir(full) and not d.startswith('_') and (os.path.exists(os.path.join(full, '__init__.py')) or os.path.exists(os.path.join(full, '__init__.pyi'))):
            top.add(d)
        elif d.endswith(('.py', '.pyi')) and not d.startswith('_'):
            top.add(d.rsplit('.', 1)[0])
    ma = set()
    ma_stub = os.path.join(sp, 'numpy', 'ma', '__init__.pyi')
    if os.path.exists(ma_stub):
        ma = _stub_names(ma_stub)
        core = os.path.join(sp, 'numpy', 'ma', 'core.pyi')
        if os.path.exists(core):
            ma |= _stub_names(core)
    version = None
    for md in glob.glob(os.path.join(sp, 'numpy-*.dist-info', 'METADATA')):
        with open(md, encoding='utf-8') as f:
            m = re.search(r'^Version:\s*(\S+)', f.read(), re.M)
            if m:
                version = m.group(1)
    if version is None:
        raise AnalysisError('cannot read the pinned NumPy version')
    info = {'top': top, 'ma': ma, 'version': version, 'major': int(version.split('.')[0]), 'site': sp}
    _cache['info'] = info
    return info


def numpy_aliases(mod):
    """local names bound to the numpy module in a repository module"""
    out = set()
    for name, imp in mod.imports.items():
        if imp[0] == 'module' and imp[1] == 'numpy':
            out.add(name)
    return out


def scan_function(fi):
    """yield (node, dotted) for every np.<...> attribute chain in function fi"""
    aliases = numpy_aliases(fi.module)
    for node in ast.walk(fi.node):
        if isinstance(node, ast.Attribute):
            chain = []
            n = node
            while isinstance(n, ast.Attribute):
                chain.append(n.attr)
                n = n.value
            if isinstance(n, ast.Name) and n.id in aliases:
                yield node, list(reversed(chain))


def unresolved_in(fi):
    """NumPy names used in fi that do not exist in the pinned NumPy. Returns list of (node, 'np.x')."""
    info = numpy_info()
    out = []
    seen = set()
    for node, chain in scan_function(fi):
        # only the outermost chain matters: report at the first missing component
        if chain[0] == 'ma' and len(chain) >= 2:
            if chain[1] not in info['ma'] and (id(node), 1) not in seen:
                out.append((node, 'np.ma.' + chain[1]))
        elif chain[0] not in info['top']:
            out.append((node, 'np.' + chain[0]))
    # de-duplicate nested attribute nodes (np.a.b yields np.a twice)
    uniq = {}
    for node, name in out:
        uniq.setdefault((name, node.lineno, node.col_offset), (node, name))
    return list(uniq.values())


def check_reachable(ctx, rid, entry_fis, depth=6):
    """All NumPy names used by the functions reachable from `entry_fis` must resolve."""
    from .callgraph import reachable
    info = numpy_info()
    fns = reachable(ctx.P, entry_fis, depth=depth)
    nsites = 0
    bad = 0
    for fi in fns:
        ctx.functions.add(fi.qualname)
        sites = list(scan_function(fi))
        nsites += len(sites)
        for node, name in unresolved_in(fi):
            bad += 1
            ctx.violated(rid, fi, name, '%s does not exist in the pinned NumPy %s (AttributeError when this path runs)'
                         % (name, info['version']), node=node)
    if not bad:
        ctx.holds(rid, 'NumPy names resolve in NumPy %s: %d sites in %d reachable functions' % (info['version'], nsites, len(fns)))
    return nsites
