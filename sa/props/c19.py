"""C19 - serialisation round-trips (JSON clauses and the "writing never changes the in-memory object" clause only).

  R1 JSON writer/reader tables  keys read by from_jsondict are written by to_jsondict with agreeing roles: 'values' <- self.values.tolist() ->
                                first constructor argument; 'labels' <- per-axis values.tolist() in axis order -> axes=; 'dims' <- self.dims ->
                                dims=; 'meta' <- attrs entries read from the attrs dictionary -> stored with _metadata(meta) *after*
                                construction (never through the constructor's keyword channel); to_json / from_json are dumps / loads
  R2 reader is constructible    the constructor accepts lists under the pinned NumPy (np.array(copy=False) rule, see C05-R8)
  R3 writing leaves memory      to_json, to_jsondict, DimArray.write_nc and Dataset.write_nc (with what they reach) mutate no operand
  R4 three-level metadata       dataset, variable and axis attrs each have a write-side attrs.update(<in-memory attrs>) and a read-side
                                attrs.update(<on-disk attrs>) in io/nc.py

Everything that depends on the netCDF4 library (dtype mapping, string encoding, mode='a', NETCDF3 down-casting, dimension order on disk)
is NOT decided: the library is absent from the sandbox.
"""
import ast

from .. import terms as T
from ..terms import const
from ..rules import P_, run, ret_paths, raise_paths
from ..loader import AnalysisError
from .. import effects, npapi

EXPLANATION = (
    "Only the clauses of C19 whose truth is in the shape of the code are decided: the writer and reader tables of the JSON form agree key by key and role by "
    "role, metadata values are read from the attrs dictionary and restored after construction, the constructor path is valid under the pinned NumPy, the "
    "effect analysis (sa/effects.py) shows that the writers mutate none of their operands, and the three metadata levels have symmetric write/read updates in "
    "io/nc.py. The netCDF half proper (what netCDF4 stores and returns) has no source, stub or type information in the sandbox and is not decided.")

SELF = P_('self')
D = 'dimarray.core.dimarraycls.DimArray.'


def rule_json(ctx):
    ctx.rule('R1', 'JSON writer / reader tables', 5)
    w = ctx.fn(D + 'to_jsondict')
    ev = run(ctx, w, mode='join')
    rets = ret_paths(ev)
    ctx.require('R1', rets, 'to_jsondict has no returning path')
    written = {}
    meta_term = None
    per_alt = []
    for p in rets:
      for v in T.value_alts(p.value):
        one = {}
        base = v
        while base[0] in ('setitem', 'mut'):
            if base[0] == 'setitem' and base[2][0] == 'const':
                one.setdefault(base[2][1], base[3])          # (the latest store of a key is the outermost one)
            base = base[1]
        if base[0] == 'call' and T.dotted(base[1]) == 'dict' and base[2] and base[2][0][0] == 'list':
            for it in base[2][0][1]:
                if it[0] == 'tuple' and len(it[1]) == 2 and it[1][0][0] == 'const':
                    one.setdefault(it[1][0][1], it[1][1])
        elif base[0] == 'dict':
            for k, x in base[1]:
                if k[0] == 'const':
                    one.setdefault(k[1], x)
        per_alt.append(one)
    for one in per_alt:
        for k, x in one.items():
            written[k] = T.mkphi([written[k], x]) if k in written else x
    want = {
        'values': ('call', ('attr', ('attr', SELF, 'values'), 'tolist'), (), ()),
        'dims': ('call', ('name', 'list'), (('attr', SELF, 'dims'),), ()),
    }
    def dims_by_axes(t):
        # [ax.name for ax in self.axes] (in a list or through list(...)): the dimension names, read from the axes
        if t is not None and t[0] == 'call' and T.dotted(t[1]) == 'list' and len(t[2]) == 1:
            t = t[2][0]
        return t is not None and t[0] == 'comp' and len(t[3]) == 1 and t[3][0][1] in (('attr', SELF, 'axes'), ('attr', SELF, '_axes')) and not t[3][0][2] \
            and t[2] == ('attr', ('elem', t[3][0][1], t[3][0][0]), 'name')
    VALS = (('attr', SELF, 'values'), ('attr', SELF, '_values'))
    same = {'values': [('call', ('attr', v_, 'tolist'), (), ()) for v_ in VALS],
            'dims': [('call', ('name', 'list'), (('attr', SELF, 'dims'),), ())]}
    for k, t in want.items():
        if written.get(k) in same[k] or (k == 'dims' and dims_by_axes(written.get(k))):
            ctx.holds('R1', "writer: '%s' <- %s" % (k, T.show(written.get(k))[:80]))
        elif written.get(k) != t:
            ctx.violated('R1', w, "'%s': %s" % (k, T.show(written.get(k))[:100] if k in written else 'missing'), "to_jsondict must write '%s' as %s" % (k, T.show(t)))
        else:
            ctx.holds('R1', "writer: '%s' <- %s" % (k, T.show(t)))
    lab = written.get('labels')
    okl = lab is not None and lab[0] == 'comp' and lab[3][0][1] == ('attr', SELF, 'axes') and not lab[3][0][2] \
        and lab[2] == ('call', ('attr', ('attr', ('elem', ('attr', SELF, 'axes'), lab[3][0][0]), 'values'), 'tolist'), (), ())
    if okl:
        ctx.holds('R1', "writer: 'labels' <- [ax.values.tolist() for ax in self.axes]")
    else:
        ctx.violated('R1', w, "'labels': " + (T.show(lab)[:100] if lab else 'missing'), "to_jsondict must write 'labels' as the per-axis label lists in axis order")
    # meta: values come from the attrs dictionary, into a fresh dict
    meta = written.get('meta')
    if meta is None:
        ctx.violated('R1', w, "'meta' missing", "to_jsondict must write the metadata under 'meta'")
    else:
        roots = [x for x in T.value_alts(meta)]
        base_ok = True
        copied_all = False
        vals = []
        for alt in roots:
            b = alt
            while b[0] in ('setitem', 'mut'):
                if b[0] == 'setitem':
                    vals.append((b[2], b[3]))
                b = b[1]
            if b[0] == 'carried':
                continue
            ATTRS = (('attr', SELF, 'attrs'), ('attr', SELF, '_attrs'), ('call', ('attr', SELF, '_metadata'), (), ()))
            if b[0] == 'call' and T.dotted(b[1]) == 'dict' and len(b[2]) == 1 and not b[3] and b[2][0] in ATTRS:
                copied_all = True          # dict(<the attrs>): a fresh dictionary holding every entry (entries json cannot write are taken out of the copy afterwards)
                continue
            if b[0] == 'call' and T.call_name(b) == 'copy' and not b[2] and T.call_receiver(b) in ATTRS:
                copied_all = True
                continue
            if not (b == ('dict', ()) or (b[0] == 'call' and T.dotted(b[1]) == 'dict' and not b[2])):
                base_ok = False
        if not base_ok:
            ctx.violated('R3', w, 'meta = ' + T.show(meta)[:120], "the 'meta' entry must be a fresh dictionary: using the array's own attrs dictionary (and pruning it) changes the "
                         'in-memory object while writing')
        good_vals = [1 for k, x in vals if x[0] == 'sub' and x[1] in (('attr', SELF, 'attrs'), ('attr', SELF, '_attrs'), ('call', ('attr', SELF, '_metadata'), (), ())) and x[2] == k]
        if vals and len(good_vals) == len(vals):
            ctx.holds('R1', "writer: 'meta'[k] <- self.attrs[k]")
        elif vals:
            bad = [x for k, x in vals if not (x[0] == 'sub' and x[2] == k)]
            ctx.violated('R1', w, "meta[m] = " + T.show((bad or [vals[0][1]])[0])[:100], 'metadata values must be read from the attrs dictionary (self.attrs[key]): getattr(self, key) returns the '
                         'class member / axis labels when the key collides with one')
        elif copied_all:
            ctx.holds('R1', "writer: 'meta' <- a copy of the attrs dictionary (pruned of what json cannot write)")
        else:
            ctx.violated('R1', w, "'meta' content", 'no metadata entry is ever written')
    # the probe `json.dumps(val)` that decides whether an entry can be written protects one entry: a try statement that encloses the whole loop over the
    # entries ends the loop at the first entry json cannot encode, and every later (representable) entry is left out as well
    import ast
    from ..rules import helper_nodes
    nprobe = 0
    for f_ in helper_nodes(ctx, w):
        for t in ast.walk(f_.node):
            if not isinstance(t, ast.Try) or not t.handlers:
                continue
            for loop in [n for b in t.body for n in ast.walk(b) if isinstance(n, (ast.For, ast.While))]:
                probes = [n for b in loop.body for n in ast.walk(b) if isinstance(n, ast.Call) and ast.unparse(n.func).endswith('dumps')]
                if probes:
                    ctx.violated('R1', f_, probes[0], 'the try statement that catches an entry json cannot encode encloses the whole loop over the metadata entries: the first such '
                                 'entry ends the loop and all the entries after it are silently left out of the JSON form (the probe must be guarded entry by entry)', node=t)
        for loop in [n for n in ast.walk(f_.node) if isinstance(n, (ast.For, ast.While))]:
            for t in [n for b in loop.body for n in ast.walk(b) if isinstance(n, ast.Try) and n.handlers]:
                if any(isinstance(n, ast.Call) and ast.unparse(n.func).endswith('dumps') for b in t.body for n in ast.walk(b)):
                    nprobe += 1
    if nprobe:
        ctx.holds('R1', 'writer: the json.dumps probe is guarded entry by entry (try inside the loop)')
    # reader
    r = ctx.fn(D + 'from_jsondict')
    JD = P_('jsondict')
    ev = run(ctx, r, mode='join')
    okr = False
    n_without_meta = 0
    for p in ret_paths(ev):
        ctor = [e.a for e in p.calls() if e.a[1] == P_('cls')]
        if len(ctor) != 1:
            ctx.violated('R1', r, 'constructor', 'from_jsondict builds one array', node=p.node)
            continue
        c = ctor[0]

        def popped(t, key):
            return t[0] == 'call' and T.call_name(t) in ('pop', 'get') and t[2] and t[2][0] == const(key) and T.contains(t, JD) or \
                (t[0] == 'sub' and t[2] == const(key) and T.contains(t, JD))
        a0 = c[2][0] if c[2] else T.kw(c, 'values')
        roles = {'values': a0, 'labels': T.kw(c, 'axes') or T.kw(c, 'labels'), 'dims': T.kw(c, 'dims')}
        def from_key(t, key):
            """every alternative of t is the entry `key` of the dict, possibly reshaped / converted (np.reshape, np.asarray, np.array)"""
            if t is None:
                return False
            conv = ('np.reshape', 'np.asarray', 'np.asanyarray', 'np.array', 'np.ma.asarray', 'np.ma.asanyarray')
            for alt in T.value_alts(t):
                x = alt
                changed = True
                while changed:
                    changed = False
                    if x[0] == 'call' and (T.dotted(x[1]) or '') in conv and x[2]:
                        x, changed = x[2][0], True
                    elif x[0] == 'call' and T.call_name(x) == 'reshape' and x[1][0] == 'attr' and (T.dotted(x[1]) or '') not in conv:
                        x, changed = x[1][1], True
                if not popped(x, key):
                    return False
            return True
        bad = [k for k, t in roles.items() if not from_key(t, k)]
        if bad:
            ctx.violated('R1', r, T.show(c)[:160], "from_jsondict must pass 'values' as the data, 'labels' as axes= and 'dims' as dims= (mismatch: %s)" % bad, node=p.node)
            continue
        if any(k == '**' for k, _ in c[3]) or any(k not in ('axes', 'labels', 'dims', 'values') for k, _ in c[3]):
            ctx.violated('R1', r, T.show(c)[:160], "metadata must not travel through the constructor's keyword arguments: an entry named dtype / copy / dims / values would be taken as that "
                         "argument (attrs['dtype']='int16' casts the data on read-back); restore it with _metadata(meta) after construction", node=p.node)
            continue
        md = [e.a for e in p.calls('_metadata')] + [e.a for e in p.calls('update') if 'attrs' in T.show(e.a[1])]
        no_meta = any(a[0] == 'tryfail' for a, pol in p.guards) or \
            any(a[0] == 'cmp' and a[1] == 'in' and a[2] == const('meta') and pol is False for a, pol in p.guards)
        if not any(T.contains(x, const('meta')) and T.contains(x, JD) and T.contains(x[1], c) for x in md) and no_meta and len(ret_paths(ev)) > 1:
            n_without_meta += 1          # the path of a dictionary without a 'meta' entry (early return): nothing to restore there
        elif not any(T.contains(x, const('meta')) and T.contains(x, JD) and T.contains(x[1], c) for x in md):
            ctx.violated('R1', r, 'meta', "from_jsondict must restore the metadata onto the array it built: dima._metadata(jsondict['meta'])", node=p.node)
            continue
        if p.value != c and not (p.value[0] in ('mut',) and p.value[1] == c):
            ctx.violated('R1', r, 'return ' + T.show(p.value)[:80], 'from_jsondict returns the array it built', node=p.node)
            continue
        # values.tolist() does not record the shape of an array with an empty dimension ((0, 3) and (0,) both give []): the reader has to use 'shape'
        uses_shape = any(popped(x, 'shape') for x in T.subterms(a0)) or any(popped(x, 'shape') for e in p.calls('reshape') for x in T.subterms(e.a))
        # ... for every shape: the reshape may be conditioned on values / shape being present, not on what the shape contains
        cond_bad = None

        def only_when_needed(a, pol):
            # `if <stored shape> != <shape the values have now>: reshape` - skipped exactly when it would change nothing
            if not (a[0] == 'cmp' and a[1] in ('==', '!=') and (pol is False if a[1] == '==' else pol is True)):
                return False
            sides = (a[2], a[3])
            has_stored = [any(popped(x, 'shape') for x in T.subterms(s_)) for s_ in sides]
            has_current = [any(x[0] == 'attr' and x[2] == 'shape' for x in T.subterms(s_)) for s_ in sides]
            return (has_stored[0] and has_current[1] and not has_stored[1]) or (has_stored[1] and has_current[0] and not has_stored[0])
        for e in p.calls('reshape'):
            for a, pol in e.guards:
                if any(popped(x, 'shape') or popped(x, 'values') for x in T.subterms(a)) and not (a[0] == 'cmp' and a[1] == 'is' and a[3] == T.CONST_NONE) and not only_when_needed(a, pol):
                    cond_bad = a
        if cond_bad is None:
            evf = run(ctx, r, mode='fork')
            for q in evf.paths:
                for e in q.calls('reshape'):
                    for a, pol in e.guards:
                        if only_when_needed(a, pol):
                            continue
                        if any(popped(x, 'values') for x in T.subterms(a)) and not (a[0] == 'cmp' and a[1] == 'is' and a[3] == T.CONST_NONE):
                            cond_bad = a       # (what the nested lists look like - their depth, their length - must not decide whether the stored shape is used)
                        if any(popped(x, 'shape') for x in T.subterms(a)) and not (a[0] == 'cmp' and a[1] == 'is' and a[3] == T.CONST_NONE) and a[0] not in ('call',) \
                                or (a[0] == 'cmp' and any(x[0] == 'sub' and any(popped(y, 'shape') for y in T.subterms(x[1])) for x in T.subterms(a))):
                            cond_bad = a
        if cond_bad is not None:
            ctx.violated('R1', r, "'shape' applied only for some shapes", "the stored shape is re-applied only under the condition %s: an array with an empty dimension elsewhere "
                         "(shape (2, 0, 3): tolist() gives [[], []]) is still rebuilt from the nested lists alone" % T.show(cond_bad)[:80], node=p.node)
            continue
        if 'shape' in written and not uses_shape:
            ctx.violated('R1', r, "'shape' ignored", "to_jsondict writes 'shape' but from_jsondict rebuilds the array from the nested 'values' lists alone: for an array with an empty "
                         "dimension that is not the last one (shape (0, 3)) tolist() is [] and the read-back fails / has another shape", node=p.node)
            continue
        okr = True
    if okr:
        ctx.holds('R1', "reader: cls(values, axes=labels, dims=dims) then _metadata(meta)")
    # json wrappers
    tj = ctx.fn(D + 'to_json')
    ev = run(ctx, tj)
    if not all(p.kind == 'return' and p.value[0] == 'call' and T.dotted(p.value[1]) == 'json.dumps' and p.value[2][:1] == (('call', ('attr', SELF, 'to_jsondict'), (), ()),) for p in ev.paths):
        ctx.violated('R1', tj, 'to_json', 'to_json is json.dumps(self.to_jsondict(), ...)')
    fj = ctx.fn(D + 'from_json')
    ev = run(ctx, fj)
    if not all(p.kind == 'return' and p.value == ('call', ('attr', P_('cls'), 'from_jsondict'), (('call', ('attr', ('name', 'json'), 'loads'), (P_('s'),), ()),), ()) for p in ev.paths):
        ctx.violated('R1', fj, 'from_json', 'from_json is cls.from_jsondict(json.loads(s))')
    else:
        ctx.holds('R1', 'to_json / from_json wrap dumps / loads')
    # _metadata(meta) updates attrs
    mf = ctx.fn('dimarray.core.bases.AbstractHasMetadata._metadata')
    ev = run(ctx, mf)
    AT = (('attr', SELF, 'attrs'), ('attr', SELF, '_attrs'))
    by_update = any(T.call_name(e.a) == 'update' and e.a[2] == (P_('meta'),) and T.call_receiver(e.a) in AT for p in ev.paths for e in p.calls('update'))
    # ... or entry by entry: attrs[name] = value in a loop over what `meta` holds
    by_loop = any(e.kind == 'store_sub' and e.a in AT and e.loops and T.contains(e.b, P_('meta')) and T.contains(e.c, P_('meta')) for p in run(ctx, mf, mode='join').paths for e in p.events)
    if not (by_update or by_loop):
        ctx.violated('R1', mf, '_metadata', '_metadata(meta) stores the entries into attrs')


def rule_constructible(ctx):
    ctx.rule('R2', 'reader path valid under the pinned NumPy', 1)
    from . import c05
    sub = type(ctx)(ctx.prop, ctx.P, ctx.tier, ctx.seed)
    c05.rule_env(sub)
    for f in sub.findings:
        ctx.violated('R2', f.qualname, f.construct, f.message + ' (from_json(to_json(a)) passes lists to the constructor)')
    if not sub.findings:
        ctx.holds('R2', 'DimArray(list, axes=lists, dims=list) does not use np.array(copy=False)')
    ctx.functions |= sub.functions


def rule_no_write(ctx):
    ctx.rule('R3', 'writers do not modify the in-memory object; readers do not modify their input', 6)
    E = effects.Effects(ctx.P)
    # ... and the readers do not consume what they are given (a json dict can be read twice)
    for q, cfg in ((D + 'to_jsondict', {}), (D + 'to_json', {}), (D + 'write_nc', {}), ('dimarray.dataset.Dataset.write_nc', {}),
                   (D + 'from_jsondict', {}), (D + 'from_json', {})):
        fi = ctx.fn(q)
        s = E.summary(fi, cfg)
        bad = {p: w for p, w in s.mutates.items() if not p.startswith('*') and p not in ('f', 'cls')}
        if bad:
            for p, wit in bad.items():
                chain = wit[0].split('  ->  ')
                ctx.violated('R3', fi, '%s mutates `%s`: %s' % (q.rsplit('.', 1)[-1], p, chain[-1].split(': ', 1)[-1][:80]),
                             'writing must not change the in-memory object: %s may write into `%s`' % (q.rsplit('.', 2)[-2] + '.' + q.rsplit('.', 1)[-1], p), witness=chain)
        else:
            ctx.holds('R3', q.replace('dimarray.', '') + ' writes no operand')
    ctx.info('netCDF4 calls are external: assumed not to write their Python arguments')


def rule_levels(ctx):
    ctx.rule('R4', 'three-level metadata symmetry in io/nc.py', 6)
    if 'dimarray.io.nc' not in ctx.P.modules:
        ctx.undecide('R4', 'dimarray/io/nc.py vanished')
        return

    def has_update(q, recv_pred, arg_pred, what):
        fi = ctx.fn(q)
        try:
            ev = run(ctx, fi, mode='join', max_paths=100000)
        except AnalysisError as e:
            ctx.undecide('R4', '%s: %s' % (q, e))
            return
        ok = False
        for p in ev.paths:
            for e in p.calls('update'):
                r = T.call_receiver(e.a)
                if r[0] == 'attr' and r[2] == 'attrs' and recv_pred(r[1]) and e.a[2] and arg_pred(e.a[2][0]):
                    ok = True
        if ok:
            ctx.holds('R4', what)
        else:
            ctx.violated('R4', fi, what, '%s: expected %s' % (q.replace('dimarray.', ''), what))
    NC = 'dimarray.io.nc.'
    has_update('dimarray.dataset.Dataset.write_nc', lambda r: 'DatasetOnDisk' in T.show(r), lambda a: a == ('attr', SELF, 'attrs'),
               'dataset level, write side: store.attrs.update(self.attrs)')
    has_update(NC + 'DatasetOnDisk.read', lambda r: 'Dataset()' in T.show(r), lambda a: a == ('attr', SELF, 'attrs'), 'dataset level, read side: data.attrs.update(self.attrs)')
    has_update(NC + 'DimArrayOnDisk.write', lambda r: r == SELF, lambda a: a[0] == 'attr' and a[2] == 'attrs' and a[1] == P_('values'),
               'variable level, write side: self.attrs.update(dima.attrs)')
    has_update('dimarray.core.bases.AbstractDimArray._getitem', lambda r: T.call_name(r) == '_constructor' if r[0] == 'call' else False, lambda a: a == ('attr', SELF, 'attrs'),
               'variable level, read side: dima.attrs.update(self.attrs) in the shared _getitem')
    has_update(NC + 'AxisOnDisk.__setitem__', lambda r: r == SELF, lambda a: 'attrs' in T.show(a) and T.contains(a, P_('ax')), 'axis level, write side: self.attrs.update(ax.attrs)')
    has_update(NC + 'AxisOnDisk.__getitem__', lambda r: r[0] == 'call' and T.call_name(r) == 'Axis' or True, lambda a: a == ('attr', SELF, 'attrs'),
               'axis level, read side: ax.attrs.update(self.attrs)')


def check(ctx):
    rule_json(ctx)
    rule_constructible(ctx)
    rule_no_write(ctx)
    rule_levels(ctx)
    # from_json hands the labels over as plain lists: the constructor's label-list form must take them whatever their length (shared with C05)
    from . import c05
    ctx.rule('R6', 'constructor accepts axes=[label lists] by element type (empty lists included)', 1)
    c05.rule_label_list_dispatch(ctx, 'R6')
    ctx.not_decided += ['everything that depends on the netCDF4 library: dtype mapping, vlen string encoding, mode="a", NETCDF3 down-casting, dimension order on disk',
                        'JSON representability of values (json.dumps is external)']
    ctx.trusted += ['json.dumps / json.loads round-trip lists, numbers and strings', 'ndarray.tolist()', 'netCDF4 calls do not write their Python arguments']
    return EXPLANATION
