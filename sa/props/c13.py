"""C13 - a Dataset's variables always share the Dataset's axes (structural clauses).

  R1 single writer          dict-level stores / deletes of a Dataset occur only in __setitem__, __delitem__ and rename_keys
  R2 identity establishment in __setitem__ every axis of the stored array is either replaced by the dataset's Axis object of that name
                            or appended to the dataset; the stored array is a private shell with a deep copy of the axes container
  R3 reject before mutate   no loop of __setitem__ both mutates the dataset and raises ValueError (a later iteration could raise after an
                            earlier one mutated); the store happens after all checks
  R4 clean-up pairing       __delitem__ and the replacing path of __setitem__ call _maybe_delete_axes after the store / delete;
                            _maybe_delete_axes decides per axis (no state carried from one axis to the next)
  R5 propagation            DatasetAxes.__setitem__ remembers the *old* name before replacing, tests it against every variable and assigns
                            the new Axis object under that name
  R6 renames on shared obj  dims setter, set_axis, rename_axes write the name / labels of the Axis held in self.axes; rename_keys moves the
                            stored value without copying
  R7 constructor aligns     Dataset.__init__ inserts the arrays returned by align_axes(values)
"""
import ast

from .. import terms as T
from ..terms import const
from ..rules import P_, run, ret_paths, raise_paths, exc_name, bind_call_args
from ..loader import AnalysisError

EXPLANATION = (
    "Structural clauses of C13: a who-may-write scan of the dict-level mutators of Dataset; path/loop analysis of Dataset.__setitem__ (identity of the "
    "stored axes with the dataset's axes, private deep-copied axes container, validate-before-mutate across loop iterations, clean-up after the store); "
    "per-axis independence of _maybe_delete_axes; read-before-replace ordering and propagation loop of DatasetAxes.__setitem__; the rename operations "
    "write through the shared Axis object; the constructor inserts aligned arrays. Whether `newaxis == existing_axis` is the right equality for every "
    "label kind is not decided.")

SELF = P_('self')
DSQ = 'dimarray.dataset.Dataset'
DS = DSQ + '.'


def _implies(b, a):
    """guard b (atom, polarity) implies guard a: identical, or a is `x in S` / `x == y` expressed with the same operands"""
    if b == a:
        return True
    (ab, pb), (aa, pa) = b, a
    # `name in [ax.name for ax in self.axes]` vs `name in self.dims`
    if pb == pa and ab[0] == 'cmp' and aa[0] == 'cmp' and ab[1] == aa[1] == 'in' and ab[2] == aa[2]:
        return True
    # `newaxis == self.axes[name]` with the right operand bound to a local in one of the two loops
    if pb == pa and ab[0] == 'cmp' and aa[0] == 'cmp' and ab[1] == aa[1] == '==' and ab[2] == aa[2] and T.show(ab[3]) == T.show(aa[3]):
        return True
    return False


def rule_single_writer(ctx):
    ctx.rule('R1', 'single writer of the dict level', 3)
    allowed = {DS + '__setitem__': 'the checked insertion', DS + '__delitem__': 'delete + clean-up', DS + 'rename_keys': 'moves an already stored value',
               DS + '__init__': 'dict initialisation (empty)'}
    found = set()
    for fi in ctx.P.functions.values():
        if fi.module.name != 'dimarray.dataset' and not fi.file.startswith('dimarray/core'):
            continue
        # local names bound to the dict-level view (`plain = super(Dataset, ds)`): the same receiver under another name
        alias = {}
        for node in ast.walk(fi.node):
            if isinstance(node, ast.Assign) and len(node.targets) == 1 and isinstance(node.targets[0], ast.Name) and isinstance(node.value, ast.Call) \
                    and ast.unparse(node.value).startswith('super(Dataset,'):
                alias[node.targets[0].id] = ast.unparse(node.value)
        for node in ast.walk(fi.node):
            if isinstance(node, ast.Call) and isinstance(node.func, ast.Attribute) and node.func.attr in ('__setitem__', '__delitem__', 'update', 'setdefault', 'pop', 'popitem', 'clear'):
                recv = node.func.value
                txt = ast.unparse(recv)
                txt = alias.get(txt, txt)
                is_super_ds = txt.startswith('super(Dataset,') or txt == 'dict'
                if not is_super_ds:
                    continue
                if txt == 'dict' and not (node.args and ast.unparse(node.args[0]) in ('self', 'ds', 'dataset')):
                    continue
                if fi.qualname in allowed:
                    found.add(fi.qualname)
                else:
                    ctx.violated('R1', fi, node, 'dict-level mutation of a Dataset outside __setitem__/__delitem__/rename_keys: the shared-axes bookkeeping is by-passed', node=node)
    for q in (DS + '__setitem__', DS + '__delitem__', DS + 'rename_keys'):
        if q in found:
            ctx.holds('R1', q.replace('dimarray.dataset.', '') + ': ' + allowed[q])
        else:
            ctx.violated('R1', q, 'dict-level store', '%s no longer performs the dict-level operation' % q)
    ds = ctx.P.cls(DSQ)
    for name in ('update', 'setdefault', 'pop', 'popitem', 'clear'):
        m = ctx.P.lookup(ds, name)
        if m is None:
            ctx.info('inherited dict.%s by-passes Dataset.__setitem__ (outside the statement\'s operation list)' % name)
    # __getitem__ returns the stored object itself for variables
    gi = ctx.fn(DS + '__getitem__')
    ev = run(ctx, gi)
    if not any(p.kind == 'return' and p.value[0] == 'call' and T.call_name(p.value) == '__getitem__' and 'super' in T.show(p.value) for p in ev.paths):
        ctx.violated('R1', gi, '__getitem__', 'variables must be returned as stored (the very object that shares the dataset axes)')


def rule_setitem(ctx):
    ctx.rule('R2', 'identity establishment', 2)
    ctx.rule('R3', 'reject before mutate', 1)
    ctx.rule('R4', 'clean-up pairing', 3)
    fi = ctx.fn(DS + '__setitem__')
    KEY, VAL = P_('key'), P_('val')
    ev = run(ctx, fi, mode='join', oracle=lambda a, st: (True if (a[0] == 'call' and T.dotted(a[1]) == 'isinstance' and a[2][0] == VAL) else None))
    rets = ret_paths(ev)
    ctx.require('R2', rets, 'Dataset.__setitem__ has no normal exit')
    p = rets[-1]
    evs = p.events
    # private shell
    shell = ('call', ('attr', ('name', 'copy'), 'copy'), (VAL,), ())
    st_axes = [e for e in evs if e.kind == 'store_attr' and e.b == '_axes']
    if len(st_axes) != 1 or st_axes[0].a != shell:
        ctx.violated('R2', fi, 'private shell', 'the stored array must be a shallow copy of the given one (copy.copy(val)) whose axes container is replaced', node=p.node)
    else:
        c = st_axes[0].c
        if c != ('call', ('attr', ('name', 'copy'), 'deepcopy'), (('attr', shell, 'axes'),), ()):
            ctx.violated('R2', fi, st_axes[0].node, 'the axes container of the stored array must be a *deep* copy (copy.deepcopy(val.axes)): with a shallow copy the '
                         'caller\'s own Axis objects are appended to the dataset and later renames/relabels through the dataset reach the caller\'s array',
                         node=st_axes[0].node)
        else:
            ctx.holds('R2', 'stored array: copy.copy(val) with _axes = copy.deepcopy(val.axes)')
    # identity: in the axes loop, store val.axes[i] = self.axes[newaxis.name]  |  self.axes.append(newaxis)
    # (the container may be addressed as val.axes or through a local name bound to the very object stored in val._axes)
    own_axes = st_axes[0].c if len(st_axes) == 1 else None

    def base_of(t):
        while t[0] in ('setitem', 'mut', 'phi', 'carried') and t[0] in ('setitem', 'mut'):
            t = t[1]
        return t
    subst = [e for e in evs if e.kind == 'store_sub' and e.loops and ((e.a[0] == 'attr' and e.a[2] in ('axes', '_axes')) or
                                                                        (own_axes is not None and any(base_of(x) == own_axes for x in T.value_alts(e.a))))]
    appends = [e for e in evs if e.kind == 'call' and T.call_name(e.a) == 'append' and T.call_receiver(e.a) == ('attr', SELF, 'axes') and e.loops]
    oki = True
    if len(subst) != 1 or len(appends) != 1:
        ctx.violated('R2', fi, 'axes loop', 'every axis of the stored array must either be replaced by the dataset axis of that name or be appended to the dataset '
                     '(found %d substitutions, %d appends)' % (len(subst), len(appends)), node=p.node)
        oki = False
    else:
        s, a = subst[0], appends[0]
        new = a.a[2][0]
        if not (new[0] == 'elem' and s.b == ('idx', new[1], new[2]) and s.c == ('sub', ('attr', SELF, 'axes'), ('attr', new, 'name'))):
            ctx.violated('R2', fi, s.node, 'val.axes[i] must become the dataset\'s own Axis object of the same name (self.axes[newaxis.name]) for the i of the same iteration', node=s.node)
            oki = False
        if oki and s.loops != a.loops:
            ctx.violated('R2', fi, a.node, 'substitution and append are the two branches of one loop over the array\'s axes', node=a.node)
            oki = False
        exists = [pol for x, pol in s.guards if x[0] == 'cmp' and x[1] == 'in' and x[2] == ('attr', new, 'name')]
        exists_a = [pol for x, pol in a.guards if x[0] == 'cmp' and x[1] == 'in' and x[2] == ('attr', new, 'name')]
        if oki and (True not in exists or False not in exists_a):
            ctx.violated('R2', fi, s.node, 'substitute when the name exists in the dataset, append otherwise', node=s.node)
            oki = False
    if oki:
        ctx.holds('R2', '__setitem__: each axis substituted by self.axes[name] or appended')
    # R3: no loop both mutates and raises ValueError
    ev_f = run(ctx, fi, mode='join', oracle=lambda a, st: (True if (a[0] == 'call' and T.dotted(a[1]) == 'isinstance' and a[2][0] == VAL) else None))
    loops_mut, loops_raise = {}, {}
    for q in ev_f.paths:
        for e in q.events:
            if not e.loops:
                continue
            if (e.kind == 'call' and T.call_name(e.a) in ('append', 'insert', 'remove', 'pop', '__setitem__', '__delitem__') and T.contains(e.a, SELF) and
                    (T.call_receiver(e.a) in (('attr', SELF, 'axes'), ('attr', SELF, '_axes'), SELF) or 'super' in T.show(e.a[1]))):
                loops_mut.setdefault(e.loops[0], e)
            if e.kind == 'raise' and exc_name(e.a) == 'ValueError':
                loops_raise.setdefault(e.loops[0], e)
    both = [l for l in loops_mut if l in loops_raise]
    # a raise that repeats, for the same iterable, a check already made by an earlier (purely validating) loop is unreachable
    def relabel(t, lid_from, lid_to):
        if not isinstance(t, tuple) or not t:
            return t
        if t == lid_from:
            return lid_to
        return tuple(relabel(x, lid_from, lid_to) if isinstance(x, tuple) else x for x in t)
    for l in list(both):
        e2 = loops_raise[l]
        for l1, e1 in loops_raise.items():
            if l1 == l or l1 in loops_mut:
                continue
            g1 = set((relabel(a, l1, l), pol) for a, pol in e1.guards if T.contains(a, l1) or True)
            g2 = set(e2.guards)
            core1 = set((a, pol) for a, pol in g1 if any(x == l for x in T.subterms(a) if isinstance(x, tuple)) or 'elem' in T.show(a) or 'each' in T.show(a))
            if core1 and all(any(_implies(b, a) for b in g2) for a in core1):
                both.remove(l)
                break
    # ... or by a search made before the loop: `bad = next((x for x in S if C(x)), None); if bad is not None: raise` - once that is passed, no element of S satisfies C
    from ..rules import cond_paths
    searched = []
    for q in ev_f.paths:
        for e1 in q.events:
            if e1.kind == 'raise' and not e1.loops:
                for a, pol in e1.guards:
                    if a[0] == 'cmp' and a[1] == 'is' and a[3] == T.CONST_NONE and pol is False and a[2][0] == 'call' and T.dotted(a[2][1]) == 'next' and len(a[2][2]) == 2 \
                            and a[2][2][1] == T.CONST_NONE and a[2][2][0][0] == 'comp' and len(a[2][2][0][3]) == 1:
                        comp = a[2][2][0]
                        clid, src, conds = comp[3][0]
                        if comp[2] == ('elem', src, clid) and conds:
                            searched.append((clid, src, conds))
    for l in list(both):
        e2 = loops_raise[l]
        for clid, src, conds in searched:
            need = []
            for c in conds:
                tp = [g for g, truth_ in cond_paths(relabel(c, clid, l)) if truth_]
                if len(tp) != 1:
                    need = None
                    break
                need.extend(tp[0])
            if need and all(any(_implies(b, a) for b in set(e2.guards)) for a in need):
                both.remove(l)
                break
    if both:
        e = loops_mut[both[0]]
        ctx.violated('R3', fi, e.node, 'the same loop appends new axes to the dataset and raises ValueError for a mismatching axis: an array whose later dimension '
                     'mismatches leaves its earlier, new dimensions registered in the dataset although the assignment is rejected; validate all axes first', node=e.node)
    elif not loops_raise and not any(exc_name(q.value) == 'ValueError' for q in raise_paths(ev_f)):
        ctx.violated('R3', fi, 'mismatch check', 'an array whose labels disagree with an existing dataset axis must raise ValueError')
    else:
        # the raise compares newaxis with the dataset axis of the same name
        e = list(loops_raise.values())[0] if loops_raise else None
        ok = e is not None and any((x[0] == 'cmp' and x[1] == '==' and 'axes[' in T.show(x)) or (x[0] == 'boolop') for x, pol in e.guards)
        ctx.holds('R3', '__setitem__: validation loop raises, mutation loop does not')
    # the dict store happens after the loops, clean-up after the store
    store = [i for i, e in enumerate(evs) if e.kind == 'call' and T.call_name(e.a) == '__setitem__' and 'super' in T.show(e.a[1])]
    if len(store) != 1:
        ctx.violated('R1', fi, 'dict store', 'expected exactly one dict-level store')
    else:
        si = store[0]
        if evs[si].a[2] != (KEY, shell) and evs[si].a[2][-2:] != (KEY, shell):
            ctx.violated('R2', fi, evs[si].node, 'the object stored must be the private shell whose axes were substituted', node=evs[si].node)
        late_raise = [e for e in evs[si:] if e.kind == 'raise']
        muts_before = [e for e in evs[:si] if e.kind == 'raise']
        clean = [i for i, e in enumerate(evs) if e.kind == 'call' and T.call_name(e.a) == '_maybe_delete_axes']
        if not clean or clean[0] < si:
            ctx.violated('R4', fi, '_maybe_delete_axes', 'when a variable is replaced, axes that no variable uses any more must be removed after the store')
        else:
            arg = evs[clean[0]].a[2][0]
            s = T.show(arg)
            if 'not in' in s and 'self[key].axes' in s.replace(' ', '') or ('axes' in s and 'dims' in s):
                ctx.holds('R4', '__setitem__: obsolete axes of the replaced variable cleaned up after the store')
            else:
                ctx.violated('R4', fi, evs[clean[0]].node, 'the candidates for removal are the axes of the replaced variable that the new value does not use')
    # __delitem__
    di = ctx.fn(DS + '__delitem__')
    ev = run(ctx, di)
    for q in ret_paths(ev):
        names = [(T.call_name(e.a), e) for e in q.calls()]
        idx_del = [i for i, (n, e) in enumerate(names) if n == '__delitem__']
        idx_clean = [i for i, (n, e) in enumerate(names) if n == '_maybe_delete_axes']
        if not idx_del or not idx_clean or idx_clean[0] < idx_del[0]:
            ctx.violated('R4', di, '__delitem__', 'deleting a variable must be followed by _maybe_delete_axes(axes of the deleted variable)', node=q.node)
            continue
        arg = names[idx_clean[0]][1].a[2][0]
        if arg != ('attr', ('sub', SELF, P_('item')), 'axes'):
            ctx.violated('R4', di, names[idx_clean[0]][1].node, 'the clean-up must look at the axes of the deleted variable', node=q.node)
            continue
        ctx.holds('R4', '__delitem__: delete then clean up the variable\'s axes')
    # _maybe_delete_axes: per axis.  The structural reading (a flag per candidate, or any(...) over the variables) on trial; the scenario table of the function decides
    # when the search is written otherwise (for / else, a helper ...)
    from ..report import on_trial
    on_trial(ctx, _maybe_delete_structural, [DS + '_maybe_delete_axes'], ('R4',), '_maybe_delete_axes')


def _maybe_delete_structural(ctx):
    mi = ctx.fn(DS + '_maybe_delete_axes')
    ev = run(ctx, mi, mode='join', track_assign=True)
    okm = None
    for q in ev.paths:
        for e in q.calls('remove'):
            if T.call_receiver(e.a) != ('attr', SELF, 'axes'):
                continue
            ax = e.a[2][0]
            if not (ax[0] == 'elem' and ax[1] == P_('axes')):
                ctx.violated('R4', mi, e.node, 'the axis removed must be the candidate under examination', node=e.node)
                okm = False
                continue
            outer = ax[2]
            carried = [x for g, pol in e.guards for x in T.subterms(g) if x[0] == 'carried' and x[1] == outer]
            if carried:
                ctx.violated('R4', mi, e.node, 'the "still in use" flag is carried over from one candidate axis to the next (it is not reset per axis): once one axis is '
                             'found in use, all later obsolete axes are kept', node=e.node)
                okm = False
                continue
            s = ' '.join(T.show(g) for g, pol in e.guards)
            if okm is None:
                okm = True
    found_test = False
    for q in ev.paths:
        for e in q.events:
            for g0, pol in e.guards:
                # the membership test, as a guard of its own or inside any(...) / all(...) over the variables
                for g in T.subterms(g0):
                    if g[0] == 'cmp' and g[1] == 'in' and g[2][0] == 'attr' and g[2][2] == 'name' and 'dims' in T.show(g[3]):
                        found_test = True
    if okm and found_test:
        ctx.holds('R4', '_maybe_delete_axes: per-axis decision, by name in the variables\' dims')
    elif okm is None or not found_test:
        ctx.violated('R4', mi, '_maybe_delete_axes', 'an axis must be removed from the dataset exactly when no remaining variable has a dimension of that name')


def rule_propagation(ctx):
    ctx.rule('R5', 'DatasetAxes.__setitem__ propagation', 1)
    fi = ctx.fn('dimarray.dataset.DatasetAxes.__setitem__')
    KEY, ITEM = P_('key'), P_('item')
    ev = run(ctx, fi, mode='join', track_assign=True)
    rets = ret_paths(ev)
    ctx.require('R5', rets, 'DatasetAxes.__setitem__ has no normal exit')
    p = rets[-1]
    evs = p.events
    sup = [i for i, e in enumerate(evs) if e.kind == 'call' and T.call_name(e.a) == '__setitem__' and 'super' in T.show(e.a[1])]
    def is_pos(t):
        """the position of the replaced axis, resolved from the key *before* the replacement"""
        return t[0] == 'call' and ((T.call_name(t) == '_get_idx' and t[2] == (KEY,)) or (T.call_name(t) == 'index' and T.contains(t, KEY)))
    if len(sup) != 1 or evs[sup[0]].a[2][-1:] != (ITEM,) or not (evs[sup[0]].a[2][-2] == KEY or is_pos(evs[sup[0]].a[2][-2])):
        ctx.violated('R5', fi, 'Axes.__setitem__', 'the replacement itself must go through Axes.__setitem__(key, item) (size check)')
        return
    si = sup[0]
    stores = [e for e in evs if e.kind == 'store_sub' and e.loops]
    if len(stores) != 1:
        ctx.violated('R5', fi, 'propagation loop', 'the new axis must be assigned to every variable that has the dimension')
        return
    s = stores[0]
    name = s.b
    # the name must be the *old* name: read (bound to a local) before the replacement
    old_name = ('attr', ('sub', SELF, KEY), 'name')
    if name[0] == 'attr' and name[2] == 'name' and name[1][0] == 'sub' and name[1][1] == SELF and is_pos(name[1][2]):
        old_name = name
    reads = [i for i, e in enumerate(evs) if e.kind == 'assign' and (e.b == name or (name[0] == 'attr' and e.b == name[1]))]
    if name not in (old_name,) and not (name[0] == 'attr' and name[2] == 'name'):
        ctx.violated('R5', fi, s.node, 'variables are addressed by the name of the replaced dimension; an integer key must be translated to that name first '
                     '(`key in dima.dims` is never true for a position)', node=s.node)
        return
    if not reads or min(reads) > si:
        ctx.violated('R5', fi, s.node, 'the dimension name used to address the variables is read *after* the replacement, i.e. it is the new axis\' name: when the new '
                     'Axis carries another name the variables keep their old Axis object; remember the old name before calling Axes.__setitem__', node=s.node)
        return
    DSF = ('attr', SELF, '_ds')

    def is_ds_var(x, depth=0):
        # self._ds[k], or an element of dictvalues(self._ds) / self._ds.values() - directly or through a (filtering) comprehension / generator over them
        from ..rules import elem_of_comp
        if x[0] == 'sub' and x[1] == DSF:
            return True
        if x[0] == 'elem' and depth < 3:
            src = x[1]
            if src[0] == 'call' and ((T.call_name(src) in ('dictvalues', 'itervalues', 'list') and src[2][:1] == (DSF,)) or (T.call_name(src) == 'values' and T.call_receiver(src) == DSF)):
                return True
            ec = elem_of_comp(x)
            if ec is not None:
                return is_ds_var(ec[0], depth + 1)
        return False
    if not (s.a[0] == 'attr' and s.a[2] == 'axes' and is_ds_var(s.a[1])):
        ctx.violated('R5', fi, s.node, 'the assignment must go to the axes of each variable of the attached dataset', node=s.node)
        return
    if s.c == ('sub', SELF, KEY):
        ctx.violated('R5', fi, 'new axis looked up by the caller\'s key', 'after the replacement the new Axis is fetched as self[key]: when `key` is the old dimension name and the new '
                     'Axis carries another name, that lookup fails (ValueError) after the dataset\'s own axis was already replaced - the variables keep the old Axis '
                     'and the dataset is left inconsistent; resolve the position first and use it for the replacement and the lookup', node=s.node)
        return
    if not (s.c[0] == 'sub' and s.c[1] == SELF and is_pos(s.c[2])):
        ctx.violated('R5', fi, s.node, 'every variable must receive the very Axis object now held by the dataset (self[<position>])', node=s.node)
        return
    g = [pol for a, pol in s.guards if a[0] == 'cmp' and a[1] == 'in' and a[2] == name]
    if g != [True]:
        ctx.violated('R5', fi, s.node, 'only variables that have the dimension are updated', node=s.node)
        return
    ctx.holds('R5', 'DatasetAxes.__setitem__: old name remembered, new Axis object assigned to every variable having it')


def rule_axis_eq(ctx, rid='R3'):
    """Axis.__eq__ is the test behind "labels disagree -> ValueError" in Dataset.__setitem__ and behind align()'s "nothing to do" skip: it must be exact -
    same type, size, name and element-wise equal labels - with no tolerance."""
    from ..rules import truth
    fi = ctx.fn('dimarray.core.axes.Axis.__eq__')
    OTHER = P_(fi.params[1])
    ev = run(ctx, fi, mode='join')
    bad = None
    exact = False
    for p in ev.paths:
        terms = [p.value] + [a for a, _ in p.guards]
        for t in terms:
            for x in T.subterms(t):
                if x[0] == 'call' and (T.dotted(x[1]) or '').split('.')[-1] in ('allclose', 'isclose', 'array_equiv', 'around', 'round'):
                    bad = x
                if x[0] == 'call' and T.dotted(x[1]) in ('np.all', 'np.array_equal') and x[2]:
                    a = x[2][0]
                    if T.dotted(x[1]) == 'np.array_equal' or (a[0] == 'cmp' and a[1] == '==' and T.contains(a, SELF) and T.contains(a, OTHER) and 'values' in T.show(a)):
                        exact = True
    if bad is not None:
        ctx.violated(rid, fi, 'Axis.__eq__ with a tolerance', 'Axis.__eq__ compares labels with %s: float labels that differ by less than the tolerance (1800 s on epoch seconds, 1e-10 on small '
                     'values) compare equal, so Dataset.__setitem__ accepts an array whose labels disagree and align() skips its reindexing' % T.show(bad)[:60], node=fi.node)
    elif not exact:
        ctx.undecide(rid, 'Axis.__eq__: no element-wise comparison of the labels recognised')
    else:
        names = any(x[0] == 'cmp' and x[1] == '==' and 'name' in T.show(x) for p in ev.paths for t in [p.value] + [a for a, _ in p.guards] for x in T.subterms(t))
        if names:
            ctx.holds(rid, 'Axis.__eq__: exact element-wise label equality, same name')
        else:
            ctx.violated(rid, fi, 'Axis.__eq__ ignores the name', 'two axes with equal labels but different names must not compare equal', node=fi.node)


def rule_rename_loop(ctx, rid, fi, label, bind=None):
    """A bulk rename must fetch every Axis object before it renames any: a store `X.axes[<old name>].name = new` inside the loop over the
    mapping looks the next axis up *by name* after earlier renames, so swaps and chains ({x: y, y: x}) hit the axis that was just renamed."""
    ev = run(ctx, fi, bind=bind or {}, mode='join')
    stores = []
    for p in ev.paths:
        for e in p.events:
            if e.kind == 'store_attr' and e.b == 'name' and e.loops and id(e) not in [id(x) for x in stores]:
                stores.append(e)
    if not stores:
        ctx.undecide(rid, '%s: no renaming store found' % label)
        return
    for e in stores:
        tgt = e.a
        by_name_in_loop = tgt[0] == 'sub' and tgt[1][0] == 'attr' and tgt[1][2] == 'axes' and any(x[0] in ('elem', 'item') for x in T.subterms(tgt[2])) \
            and not any(x[0] == 'idx' for x in T.subterms(tgt[2]))
        if by_name_in_loop:
            ctx.violated(rid, fi, 'lookup by name between renames', '%s looks each axis up by its old name inside the renaming loop (%s.name = ...): after the first rename of a swap '
                         'or chain the next lookup finds the axis that was just renamed, so the bulk rename is silently undone or misapplied; fetch all Axis objects '
                         'before renaming any' % (label, T.show(tgt)[:60]), node=e.node)
            return
    ctx.holds(rid, '%s: Axis objects fetched before any is renamed (or addressed by position)' % label)


def rule_renames(ctx):
    ctx.rule('R6', 'renames act on the shared Axis object', 4)
    m = ctx.P.lookup(ctx.P.cls(DSQ), 'dims')
    fi = m.value['fset']
    ctx.functions.add(fi.qualname)
    ev = run(ctx, fi, mode='join')
    ok = False
    for p in ev.paths:
        for e in p.events:
            if e.kind == 'store_attr' and e.b == 'name' and e.a[0] == 'sub' and e.a[1] == ('attr', SELF, 'axes') and e.a[2][0] == 'idx' and e.c == ('elem', e.a[2][1], e.a[2][2]):
                ok = True
            elif e.kind in ('store_attr', 'store_sub') and e.b in ('_name',):
                ok = None
    if ok:
        ctx.holds('R6', 'dims setter: self.axes[i].name = newdims[i]')
    else:
        # written another way (handed over to _set_dims, zip, ...): the names every variable sees afterwards are read off the interpreted scenarios of the setter
        from ..scenario_rule import rule_scenarios
        rule_scenarios(ctx, 'R6', only='dimarray.dataset.Dataset.dims.setter', title='renames act on the shared Axis object (dims setter: interpreted scenarios)')
    fi = ctx.fn(DS + 'set_axis')
    ev = run(ctx, fi, bind={'inplace': T.CONST_TRUE})
    ok = False
    aset = ctx.P.functions.get('dimarray.core.axes.Axis.set')
    for p in ev.paths:
        for e in p.calls('set'):
            # (arguments compared by parameter: positional and keyword spellings read the same)
            b = bind_call_args(e.a, aset, method=True) if aset is not None else {'values': T.kw(e.a, 'values'), 'name': T.kw(e.a, 'name'), 'inplace': T.kw(e.a, 'inplace')}
            if T.call_receiver(e.a) == ('sub', ('attr', SELF, 'axes'), P_('axis')) and b.get('inplace') == T.CONST_TRUE and b.get('values') == P_('values') \
                    and b.get('name') == P_('name'):
                ok = True
    if ok:
        ctx.holds('R6', 'set_axis: self.axes[axis].set(..., inplace=True)')
    else:
        # written another way (a local alias of the dataset, a helper ...): what the dataset and every variable see afterwards is read off the interpreted scenarios
        from ..scenario_rule import rule_scenarios
        rule_scenarios(ctx, 'R6', only=DS + 'set_axis', title='set_axis modifies the shared Axis object (interpreted scenarios)')
    # rename_axes / rename_keys: the structural readings (which know the fetch-all-first comprehension idiom) on trial; when they do not recognise how the pairs are
    # collected, the scenario tables of the two functions decide (swaps, chains, occupied names / keys, callables, inplace=False on the copy)
    from ..report import on_trial
    on_trial(ctx, _rename_axes_structural, [DS + 'rename_axes'], ('R6',), 'rename_axes')
    # ds[k].dims = (...) through a variable goes through AbstractHasAxes._set_dims
    rule_rename_loop(ctx, 'R6', ctx.fn('dimarray.core.bases.AbstractHasAxes._set_dims'), '_set_dims (dims setter of arrays)')
    on_trial(ctx, _rename_keys_structural, [DS + 'rename_keys'], ('R6',), 'rename_keys')


def _rename_axes_structural(ctx):
    fi = ctx.fn(DS + 'rename_axes')
    ev = run(ctx, fi, bind={'inplace': T.CONST_TRUE}, mode='join')
    ok = False
    interleaved = None
    for p in ev.paths:
        for e in p.events:
            if e.kind == 'store_attr' and e.b == 'name':
                tgt = e.a
                # ds.axes[old].name = new inside the loop over the mapping: the lookup by (old) name happens between renames
                if tgt[0] == 'sub' and tgt[1] == ('attr', SELF, 'axes') and tgt[2][0] == 'item' and tgt[2][2] == 0 and e.c == ('item', tgt[2][1], 1):
                    interleaved = e
                # [(ds.axes[old], new) for old, new in ...] first, then ax.name = new
                if tgt[0] == 'item' and tgt[2] == 0 and e.c == ('item', tgt[1], 1) and tgt[1][0] == 'elem':
                    src = tgt[1][1]
                    if src[0] == 'comp' and src[2][0] == 'tuple' and len(src[2][1]) == 2 and src[2][1][0][0] == 'sub' and src[2][1][0][1] == ('attr', SELF, 'axes'):
                        ok = True
    if interleaved is not None:
        ctx.violated('R6', fi, 'lookup by name between renames', 'rename_axes looks each axis up by its old name inside the renaming loop (ds.axes[old].name = new): after the first '
                     'rename of a swap or chain ({x: y, y: x}) the lookup of `y` finds the axis that was just renamed, so the bulk rename is silently undone; '
                     'fetch all Axis objects before renaming any', node=interleaved.node)
    elif ok:
        ctx.holds('R6', 'rename_axes: all Axis objects fetched from ds.axes first, then renamed')
    else:
        ctx.violated('R6', fi, 'rename_axes', 'rename_axes must write the new name into the shared Axis objects held in ds.axes')


def _rename_keys_structural(ctx):
    fi = ctx.fn(DS + 'rename_keys')
    ev = run(ctx, fi, bind={'inplace': T.CONST_TRUE}, mode='join')
    ok = False
    for p in ev.paths:
        sets = [e.a for e in p.calls('__setitem__') if 'super' in T.show(e.a[1])]
        gets = [e.a for e in p.calls('__getitem__') if 'super' in T.show(e.a[1])]
        if sets and gets and sets[0][2][-1] == gets[0]:
            ok = True
        for c in sets:
            v = c[2][-1]
            # [(old, new, super().__getitem__(old)) for ...] first, then super().__setitem__(new, val) with val the fetched object
            if v[0] == 'item' and isinstance(v[2], int) and v[1][0] == 'elem' and v[1][1][0] == 'comp' and v[1][1][2][0] == 'tuple' and v[2] < len(v[1][1][2][1]):
                src = v[1][1][2][1][v[2]]
                if src[0] == 'call' and T.call_name(src) == '__getitem__' and 'super' in T.show(src[1]):
                    ok = True
            # ... or the fetched objects kept in a list of their own, stored back one by one
            if v[0] == 'elem' and v[1][0] == 'comp' and v[1][2][0] == 'call' and T.call_name(v[1][2]) == '__getitem__' and 'super' in T.show(v[1][2][1]):
                ok = True
    # key collisions: moving a variable onto a key that another variable keeps overwrites that variable through the raw dict store - its dimensions stay
    # behind in ds.dims although no variable uses them; and `{a: b, b: a}` must not lose a variable (all values fetched / removed before any is stored)
    evf = run(ctx, fi, bind={'inplace': T.CONST_TRUE}, mode='fork', max_paths=20000)
    refuses = any(exc_name(q.value) in ('ValueError', 'KeyError') and any(
        (a[0] == 'cmp' and a[1] == 'in' and pol is True and 'keys' in T.show(a)) or (a[0] == 'cmp' and a[1] == '==' and 'len(' in T.show(a) and 'set(' in T.show(a) and pol is False) or
        (a[0] == 'call' and T.dotted(a[1]) == 'any' and pol is True) for a, pol in q.guards) for q in raise_paths(evf))
    interleaved = None
    for p in ev.paths:
        for e in p.calls('__setitem__'):
            if 'super' in T.show(e.a[1]) and e.loops:
                # the value stored comes from a lookup made in the *same* loop iteration -> lookups and stores alternate
                v = e.a[2][-1]
                if v[0] == 'call' and T.call_name(v) == '__getitem__':
                    interleaved = e
    # inplace=False: every dict-level access works on the copy that is returned - a variable fetched from `self` carries the original's Axis objects into the copy
    evc = run(ctx, fi, bind={'inplace': T.CONST_FALSE}, mode='join')
    foreign = None
    ncopy = 0
    for p in ret_paths(evc):
        work = p.value
        for e in p.calls():
            c = e.a
            if c[1][0] == 'attr' and c[1][2] in ('__getitem__', '__setitem__', '__delitem__') and c[1][1][0] == 'call' and T.dotted(c[1][1][1]) == 'super' and len(c[1][1][2]) == 2:
                ncopy += 1
                if strip_mut(c[1][1][2][1]) != strip_mut(work) and foreign is None:
                    foreign = (e, c[1][2], c[1][1][2][1])
    if not ncopy:
        ctx.undecide('R6', 'rename_keys(inplace=False): no dict-level access found on the returning paths')
    if not ok:
        ctx.violated('R6', fi, 'rename_keys', 'rename_keys must move the stored value (same object) under the new key')
    elif foreign is not None:
        ctx.violated('R6', fi, 'inplace=False: %s on %s' % (foreign[1], T.show(foreign[2])[:60]), 'with inplace=False every variable must be fetched from / stored into / removed from the copy '
                     'that is returned; %s acts on %s: the returned dataset then holds variables whose axes are the *original* dataset\'s Axis objects, not its own'
                     % (foreign[1], T.show(foreign[2])[:60]), node=foreign[0].node)
    elif not refuses:
        ctx.violated('R6', fi, 'rename onto an existing key', 'rename_keys stores a variable under its new key without testing that the key is free: rename_keys({\'a\': \'b\'}) overwrites '
                     'variable b through the raw dict store, and b\'s own dimensions stay in ds.dims although no variable uses them', node=fi.node)
    elif interleaved is not None:
        ctx.violated('R6', fi, 'lookups and stores alternate', 'each variable is fetched and stored inside the same loop: a swap {a: b, b: a} stores a under b and then fetches "b" - the '
                     'variable it has just stored; fetch (and remove) all values before storing any', node=interleaved.node)
    else:
        ctx.holds('R6', 'rename_keys moves the stored objects themselves, refuses occupied keys, fetches all values before storing any')


def rule_init(ctx):
    ctx.rule('R7', 'constructor aligns', 1)
    fi = ctx.fn(DS + '__init__')
    ev = run(ctx, fi, mode='join')
    ok = False
    for p in ev.paths:
        al = [e.a for e in p.calls('align_axes')]
        for e in p.events:
            if e.kind == 'store_sub' and e.a == SELF and e.loops and al:
                v = e.c
                if v[0] == 'elem' and v[1] == al[0]:
                    ok = True
    if ok:
        ctx.holds('R7', 'Dataset.__init__: self[key] = value for value in align_axes(values)')
    else:
        ctx.violated('R7', fi, 'Dataset.__init__', 'the constructor must insert the arrays returned by align_axes(values) (outer join), not the raw inputs')


def strip_mut(t):
    """the object a term denotes, whatever in-place updates it has received"""
    while t[0] in ('mut', 'setitem'):
        t = t[1]
    return t


def rule_rejection_total(ctx):
    """R8: "Assigning an array whose labels disagree with an existing dataset axis raises ValueError" - for every pair of label sets, the empty one included.
    The message of that ValueError is formatted from the two Axis objects (str(axis)); whatever that evaluates must be total: the first / last label of an axis
    is only read under a size guard (an IndexError raised while building the message would replace the promised ValueError)."""
    from .c06 import _nonempty_fact
    ctx.rule('R8', 'the rejection message (str of an Axis) reads end labels only under a size guard', 2)
    fi = ctx.fn(DS + '__setitem__')
    ev = run(ctx, fi, mode='join')
    formatted = 0
    for p in raise_paths(ev):
        if exc_name(p.value) != 'ValueError':
            continue
        for t in T.subterms(p.value):
            if t[0] == 'call' and T.call_name(t) == 'format':
                formatted += 1
    ctx.require('R8', formatted >= 1, 'Dataset.__setitem__: the ValueError("axes values do not match ... {}".format(axis, axis)) rejection was not found')
    P = ctx.P
    todo = [P.lookup(P.cls('dimarray.core.axes.Axis'), '__str__').value]
    seen = set()
    n = 0
    while todo:
        f = todo.pop()
        if f.qualname in seen:
            continue
        seen.add(f.qualname)
        ctx.functions.add(f.qualname)
        evf = run(ctx, f, mode='fork')
        for q in evf.paths:
            nonempty = [x for x in (_nonempty_fact(a, pol) for a, pol in q.guards) if x is not None]
            srcs = [q.value] if q.value is not None else []
            srcs += [a for a, pol in q.guards]
            for src in srcs:
                for t in T.subterms(src):
                    if t[0] == 'sub' and t[2] in (const(0), const(-1)) and t[1] in (('attr', SELF, 'values'), ('attr', SELF, '_values')):
                        n += 1
                        if SELF not in nonempty and t[1] not in nonempty:
                            ctx.violated('R8', f, 'label read ' + T.show(t), 'str(axis) reads an end label (%s) without having established that the axis is non-empty: rejecting an '
                                         'assignment where one of the two axes is empty raises IndexError from the message formatting instead of the promised ValueError'
                                         % T.show(t), node=q.node)
                    if t[0] == 'call' and t[1][0] == 'attr' and t[1][1] == SELF and not t[1][2].startswith('__'):
                        m = P.lookup(P.cls('dimarray.core.axes.Axis'), t[1][2])
                        if m is not None and m.kind == 'func':
                            todo.append(m.value)
    if not any(f.rule == 'C13-R8' for f in ctx.findings):
        ctx.holds('R8', 'Dataset.__setitem__ rejection formats the axes')
        ctx.holds('R8', 'str(Axis) -> %s: %d end-label reads, each under a size guard' % (', '.join(sorted(x.rsplit('.', 1)[-1] for x in seen)), n))


def check(ctx):
    rule_rejection_total(ctx)
    rule_single_writer(ctx)
    rule_setitem(ctx)
    rule_propagation(ctx)
    rule_renames(ctx)
    rule_init(ctx)
    rule_axis_eq(ctx, 'R3')
    # Dataset construction aligns differing inputs first: the reindex loop of align() (shared with C06)
    from . import c06
    from ..report import Renamed
    ctx.rule('R7', 'align() reindex loop used by Dataset construction (shared with C06)', 3)
    c06.rule_align(ctx, rid='R7')
    ctx.not_decided += ['inherited dict mutators (update/pop/...) are outside the operation list']
    ctx.trusted += ['copy.copy / copy.deepcopy semantics', 'list.append / list.remove']
    return EXPLANATION
