"""C07 - reindexing moves data together with its labels (structural clauses).

  R1 pipeline coherence   positions = locate_many(ax.values, values, side=...) on the axis resolved from `axis`; the same positions feed
                          take_axis(..., indexing='position') and the mismatch mask; the same mask and the same axis feed the fill
                          put(mask, fill_value, axis=axis, inplace=True, indexing='position', cast=True) and the relabelling through
                          Axis.__setitem__ (newobj.axes[axis][mask] = values[mask])
  R2 options              raise_error -> IndexError before any fill; fill only when method is None; side = method or 'left'; defaults;
                          an Axis argument overrides `axis` by its name
  R3 take_axis            values.take(indices, axis=pos) and the replaced axis ax.take(indices) share the resolution; other axes copied
  R4 reindex_like         loops over the array's own axes, reindexes those whose name is in the template, accumulating (each step
                          starts from the previous result), labels and axis= from the same name, keywords forwarded
  R5 result is fresh      the in-place fill and relabel act on the object returned by take_axis
"""
from .. import terms as T
from ..terms import const
from ..rules import P_, run, ret_paths, raise_paths, exc_name, bind_call_args, default_of, strip_trivial
from ..loader import AnalysisError

EXPLANATION = (
    "Structural clauses of C07: value numbering of reindex_axis / take_axis / reindex_like with coherence rules on the provenance terms "
    "(one position vector, one mask and one axis token feed the take, the fill and the relabelling; index kinds are POSITION where positions "
    "are passed; the relabelling goes through Axis.__setitem__ so that label dtypes widen), option plumbing (raise_error, method, fill_value "
    "defaults) and the loop-carried accumulation in reindex_like. Slice-by-slice equality and searchsorted neighbour semantics are not decided.")

SELF = P_('self')
AL = 'dimarray.core.align.'


def strip_mut(t):
    while t[0] == 'mut':
        t = t[1]
    return t


def rule_pipeline(ctx, rid='R1'):
    ctx.rule(rid, 'reindex_axis pipeline coherence', 2)
    ctx.rule('R2', 'reindex_axis options', 4)
    ctx.rule('R5', 'fill and relabel act on the fresh result of take_axis', 1)
    fi = ctx.fn(AL + 'reindex_axis')
    VALUES, AXIS, FILL, METHOD, RAISE = P_('values'), P_('axis'), P_('fill_value'), P_('method'), P_('raise_error')
    take_axis = ctx.method('dimarray.core.dimarraycls.DimArray', 'take_axis')
    for is_axis in (False, True):
        def oracle(atom, st, is_axis=is_axis):
            if atom[0] == 'call' and T.dotted(atom[1]) == 'isinstance' and atom[2] == (VALUES, ('name', 'Axis')):
                return is_axis
            if atom[0] == 'call' and T.call_name(atom) == 'isscalar':
                return False
            if atom[0] == 'cmp' and atom[1] == 'is' and atom[3] == ('name', 'slice'):
                return False
            return None
        ev = run(ctx, fi, oracle=oracle)
        if not any(True for p in ev.paths for e in p.calls('take_axis')):
            # the take_axis -> put -> relabel pipeline this rule reads is not there at all (the function works on the raw arrays, or through other helpers):
            # which cells a hand-written take / mask assignment touches is a value-level question this rule cannot answer
            ctx.undecide(rid, 'reindex_axis no longer goes through take_axis: the pipeline is written in a form the rule does not know')
            return
        newvals = ('attr', VALUES, 'values') if is_axis else ('call', ('attr', ('name', 'np'), 'asarray'), (VALUES,), ())
        axtok = ('attr', VALUES, 'name') if is_axis else AXIS
        inst = 'values given as %s' % ('Axis' if is_axis else 'array-like')
        ok = True
        nfill = 0
        for p in ev.paths:
            lm = [e.a for e in p.calls('locate_many')]
            ta = [e.a for e in p.calls('take_axis')]
            if p.kind == 'raise' and exc_name(p.value) == 'TypeError':
                continue
            # --- empty source axis: nothing to take from; the result is built directly, all requested labels missing
            src_ax = ('sub', ('attr', SELF, 'axes'), axtok)
            empty_src = [pol for a, pol in p.guards if a == T.mkcmp('==', ('attr', src_ax, 'size'), const(0))]
            if empty_src == [True] and not lm and not ta:
                if p.kind == 'raise':
                    if exc_name(p.value) != 'IndexError':
                        ctx.violated(rid, fi, 'empty source axis [%s]' % inst, 'with an empty source axis raise_error / method= can only raise IndexError', node=p.node)
                        ok = False
                    continue
                v = p.value
                g_raise = [pol for a, pol in p.guards if a == RAISE]
                g_meth = [pol for a, pol in p.guards if a == T.mkcmp('is', METHOD, T.CONST_NONE)]
                good = v[0] == 'call' and T.call_name(v) == '_constructor' and T.call_receiver(v) == SELF and len(v[2]) == 2 and dict(v[3]).get('**') == ('attr', SELF, 'attrs') \
                    and g_raise == [False] and g_meth == [True]
                unread = False
                if good:
                    vals, newaxes = v[2]
                    base = strip_mut(vals)
                    fills = [e.a for e in p.calls('fill') if e.a[2][:1] == (FILL,)]
                    if not (newaxes[0] == 'comp' and newaxes[3][0][1] == ('attr', SELF, 'axes') and newaxes[2][0] == 'ifexp'):
                        # the constructor call, its guards and the metadata are as they must be; the list of new axes is assembled in another form than the one
                        # comprehension this clause reads (a loop appending to a list, a helper per axis): not recognised, not wrong
                        unread = True
                    good = bool(fills) and base[0] == 'call' and T.call_name(base) == '_maybe_cast_type' and base[2][1:2] == (FILL,) and \
                        newaxes[0] == 'comp' and newaxes[3][0][1] == ('attr', SELF, 'axes') and newaxes[2][0] == 'ifexp'
                    if good:
                        el = ('elem', ('attr', SELF, 'axes'), newaxes[3][0][0])
                        c_, a_then, a_else = newaxes[2][1], newaxes[2][2], newaxes[2][3]
                        good = c_ in (T.mkcmp('is', el, src_ax), T.mkcmp('==', ('attr', el, 'name'), ('attr', src_ax, 'name'))) and \
                            a_then[0] == 'call' and T.call_name(a_then) == 'Axis' and a_then[2][:2] == (newvals, ('attr', el, 'name')) and \
                            dict(a_then[3]).get('**') == ('attr', el, 'attrs') and a_else == ('call', ('attr', el, 'copy'), (), ())
                if not good and unread:
                    ctx.undecide(rid, 'reindex_axis [%s], empty source axis: the axes of the all-missing result are assembled in a form the rule does not read (%s)' % (inst, T.show(newaxes)[:80]))
                    ok = False
                elif not good:
                    ctx.violated(rid, fi, 'empty source axis [%s]' % inst, 'with an empty source axis the result must be self._constructor(<array of the new shape filled with fill_value, '
                                 'widened by _maybe_cast_type>, [Axis(values, name, **attrs) for the reindexed axis, copies of the others], **self.attrs), only when raise_error is '
                                 'false and method is None', node=p.node)
                    ok = False
                else:
                    ctx.holds(rid, 'reindex_axis [%s]: empty source axis -> all-missing result on the requested labels' % inst)
                continue
            if len(lm) != 1 or len(ta) != 1:
                ctx.violated(rid, fi, 'pipeline [%s]' % inst, 'expected one locate_many and one take_axis call per path', node=p.node)
                ok = False
                continue
            lm, ta = lm[0], ta[0]
            # positions searched in the labels of the resolved axis
            labels = lm[2][0] if lm[2] else None
            if labels != ('attr', ('sub', ('attr', SELF, 'axes'), axtok), 'values') or (lm[2][1] if len(lm[2]) > 1 else None) != newvals:
                ctx.violated(rid, fi, T.show(lm)[:150], 'positions must be located for the *new labels* in the labels of the reindexed axis '
                             '(self.axes[axis].values)', node=p.node)
                ok = False
                continue
            side = T.kw(lm, 'side')
            if side == ('ifexp', METHOD, METHOD, const('left')):
                side = ('boolop', 'or', (METHOD, const('left')))               # `method if method else 'left'` is `method or 'left'`
            if side != ('boolop', 'or', (METHOD, const('left'))):
                ctx.violated('R2', fi, T.show(lm)[:150], "the search side must be `method or 'left'`", node=p.node)
                ok = False
            b = bind_call_args(ta, take_axis, method=True)
            if b.get('self') != SELF or b.get('indices') != lm or b.get('axis') != axtok:
                ctx.violated(rid, fi, T.show(ta)[:150], 'take_axis must take the located positions along the same axis', node=p.node)
                ok = False
                continue
            if b.get('indexing') != const('position'):
                ctx.violated(rid, fi, T.show(ta)[:150], "located positions must be passed with indexing='position' (they would be looked up as labels)",
                             node=p.node)
                ok = False
                continue
            mask = T.mkcmp('!=', ('call', ('attr', labels, 'take'), (lm,), ()), newvals)
            anyguard = [pol for a, pol in p.guards if a == ('call', ('attr', ('name', 'np'), 'any'), (mask,), ())]
            if not anyguard:
                ctx.violated(rid, fi, 'mismatch mask [%s]' % inst, 'the mask of missing labels must be `ax.values.take(indices) != values` with the same '
                             'positions and the same new labels', node=p.node,
                             witness=['guards: ' + ', '.join(T.show(a)[:100] for a, _ in p.guards)])
                ok = False
                continue
            missing = anyguard[0]
            rerr = [pol for a, pol in p.guards if a == RAISE]
            mnone = [pol for a, pol in p.guards if a == T.mkcmp('is', METHOD, T.CONST_NONE)]
            puts = [e for e in p.calls('put')]
            relabels = [e for e in p.events if e.kind == 'store_sub']
            writes_axes_values = [e for e in p.events if e.kind == 'store_sub' and e.a[0] == 'attr' and e.a[2] in ('values', '_values')]
            if p.kind == 'raise':
                if not (missing and rerr == [True] and exc_name(p.value) == 'IndexError'):
                    ctx.violated('R2', fi, 'raise ' + exc_name(p.value), 'only raise_error=True with missing labels may raise, and it must be IndexError', node=p.node)
                    ok = False
                if puts or relabels:
                    ctx.violated('R2', fi, 'raise after fill', 'raise_error must raise before anything is filled', node=p.node)
                    ok = False
                continue
            # returning paths
            ret = strip_mut(p.value)
            if ret != ta:
                ctx.violated('R5', fi, 'return ' + T.show(ret)[:120], 'the result must be the array returned by take_axis', node=p.node)
                ok = False
                continue
            if not missing:
                if puts or relabels:
                    ctx.violated(rid, fi, 'no missing label', 'nothing may be filled / relabelled when every label was found', node=p.node)
                    ok = False
                continue
            if rerr == [True]:
                ctx.violated('R2', fi, 'raise_error=True returns', 'raise_error=True with missing labels must raise IndexError', node=p.node)
                ok = False
                continue
            # fill
            if mnone == [True]:
                if len(puts) != 1:
                    ctx.violated(rid, fi, 'fill step', 'missing labels must be filled once (method is None)', node=p.node)
                    ok = False
                    continue
                pc = puts[0].a
                if strip_mut(T.call_receiver(pc)) != ta:
                    ctx.violated('R5', fi, puts[0].node, 'the in-place fill must act on the fresh result of take_axis, not on an operand', node=puts[0].node)
                    ok = False
                    continue
                want = {'axis': axtok, 'inplace': T.CONST_TRUE, 'indexing': const('position'), 'cast': T.CONST_TRUE}
                got = dict(pc[3])
                bad = [k for k, v in want.items() if got.get(k) != v]
                if pc[2][:2] != (mask, FILL) or bad:
                    ctx.violated(rid if not bad or bad != ['cast'] else 'R2', fi, puts[0].node,
                                 'the fill must be put(mask, fill_value, axis=<same axis>, inplace=True, indexing=\'position\', cast=True)%s'
                                 % (' - wrong/missing: %s' % bad if bad else ' with the mismatch mask and the fill value'), node=puts[0].node)
                    ok = False
                    continue
                nfill += 1
            elif puts:
                ctx.violated('R2', fi, puts[0].node, "with method='left'/'right' the neighbouring slice is kept: nothing may be filled", node=puts[0].node)
                ok = False
                continue
            # relabel through Axis.__setitem__
            if writes_axes_values:
                e = writes_axes_values[0]
                ctx.violated(rid, fi, e.node, 'the new labels are written into the raw label array (.values[mask] = ...) instead of through '
                             'Axis.__setitem__: the label dtype is not widened (int axis reindexed on 1.5 gives 1) and the ordering cache is stale',
                             node=e.node)
                ok = False
                continue
            good_rel = [e for e in relabels if e.a[0] == 'sub' and e.a[2] == axtok and e.a[1][0] == 'attr' and e.a[1][2] == 'axes'
                        and strip_mut(e.a[1][1]) == ta and e.b == mask and e.c == ('sub', newvals, mask)]
            if len(good_rel) != 1 or len(relabels) != 1:
                ctx.violated(rid, fi, relabels[0].node if relabels else 'relabel step', 'the axis of the result must be relabelled with '
                             'newobj.axes[axis][mask] = values[mask] (same axis, same mask on both sides)', node=relabels[0].node if relabels else p.node)
                ok = False
                continue
        if ok:
            ctx.holds(rid, 'reindex_axis [%s]: one position vector / mask / axis token' % inst)
            ctx.holds('R2', 'reindex_axis [%s]: raise_error / method / fill plumbing' % inst)
            if nfill:
                ctx.holds('R5', 'reindex_axis [%s]: fill and relabel on the result of take_axis' % inst)
    for k, want in (('fill_value', ('expr', 'np.nan')), ('raise_error', T.CONST_FALSE), ('method', T.CONST_NONE), ('axis', const(0))):
        d = default_of(fi, k)
        if d != want:
            ctx.violated('R2', fi, 'default %s=%s' % (k, d), 'reindex_axis default %s must be %s' % (k, want[1]))
        else:
            ctx.holds('R2', 'default %s' % k)


def rule_take_axis(ctx):
    ctx.rule('R3', 'take_axis coherence', 1)
    fi = ctx.method('dimarray.core.dimarraycls.DimArray', 'take_axis')
    INDICES, AXIS = P_('indices'), P_('axis')
    ev = run(ctx, fi, bind={'indexing': const('position')})
    gai = ('call', ('attr', SELF, '_get_axis_info'), (AXIS,), ())
    pos, dim = ('item', gai, 0), ('item', gai, 1)
    for p in ret_paths(ev):
        v = p.value
        takes = [e.a for e in p.calls('take')]
        vt = [c for c in takes if T.call_receiver(c) in (('attr', SELF, 'values'), ('attr', SELF, '_values'))]
        at = [c for c in takes if c not in vt]
        if len(vt) != 1 or len(at) != 1:
            ctx.violated('R3', fi, 'take calls', 'expected values.take(...) and ax.take(...)', node=p.node)
            continue
        if vt[0][2][:1] != (INDICES,) or T.kw(vt[0], 'axis') != pos:
            ctx.violated('R3', fi, T.show(vt[0])[:140], 'values must be taken along the position resolved from `axis`', node=p.node)
            continue
        if T.call_receiver(at[0]) != ('sub', ('attr', SELF, 'axes'), pos) or at[0][2][:1] != (INDICES,):
            ctx.violated('R3', fi, T.show(at[0])[:140], 'the replaced axis must be self.axes[pos].take(indices) with the same pos and indices', node=p.node)
            continue
        # result construction
        cons = [e.a for e in p.calls('_constructor')]
        if len(cons) != 1 or cons[0][2][0] != vt[0]:
            ctx.violated('R3', fi, 'constructor', 'the result must be built from the taken values', node=p.node)
            continue
        newaxes = cons[0][2][1]
        s = T.show(newaxes)
        # (the other axes may be copies or the operand's own objects: same labels either way)
        # (conditional expressions are canonical: ifexp(a == b, value when equal, value otherwise))
        if not (newaxes[0] == 'comp' and newaxes[2][0] == 'ifexp' and newaxes[2][2] == at[0]
                and ((newaxes[2][3][0] == 'call' and T.call_name(newaxes[2][3]) == 'copy' and T.call_receiver(newaxes[2][3])[0] == 'elem') or newaxes[2][3][0] == 'elem')):
            ctx.violated('R3', fi, 'newaxes = ' + s[:140], 'result axes: every other axis (or a copy of it) and the taken axis in place of the indexed one', node=p.node)
            continue
        cond = newaxes[2][1]
        if not (cond[0] == 'cmp' and cond[1] == '==' and 'name' in T.show(cond)):
            ctx.violated('R3', fi, 'newaxes = ' + s[:140], 'the replaced axis must be selected by name', node=p.node)
            continue
        ctx.holds('R3', 'take_axis: values.take(indices, axis=pos) / axes[pos].take(indices)')
    # label mode translates through loc with the caller's mode
    ev = run(ctx, fi, bind={'indexing': const('label')})
    for p in ret_paths(ev):
        locs = [e.a for e in p.calls('loc')]
        if len(locs) != 1 or locs[0][2][:1] != (INDICES,):
            ctx.violated('R3', fi, 'label mode', "indexing='label' must translate the labels with ax.loc(indices)", node=p.node)


def skip_guard_check(ctx, rid, fi, callee, label):
    """A per-dimension step (`callee`) inside a loop over the shared dimensions may be skipped only when the labels are identical in order;
    a set comparison (np.isin(...).all(), set(...) ==, sorted(...) ==) also holds for permuted labels.  Path-sensitive (fork mode)."""
    evf = run(ctx, fi, mode='fork', oracle=lambda a, st: True if (a[0] == 'call' and T.dotted(a[1]) == 'hasattr') else None)
    weak = None
    for q in evf.paths:
        for e2 in q.calls(callee):
            for a, pol in e2.guards:
                if any(x[0] == 'call' and (T.call_name(x) in ('isin', 'in1d', 'issubset', 'issuperset') or T.dotted(x[1]) in ('set', 'frozenset', 'sorted')) for x in T.subterms(a)):
                    weak = (a, e2)
    if weak is not None:
        a, e2 = weak
        ctx.violated(rid, fi, 'dimension skipped on a set comparison', '%s skips a shared dimension under the test %s: that also holds when the template carries the same labels in '
                     'another order, so the axis and the data stay in the old order' % (label, T.show(a)[:80]), node=e2.node)
        return False
    return True


def own_shared_dim(nm, e):
    """Is `nm` (the axis= of a per-dimension call inside the loop of reindex_like / interp_like) the name of one of the array's own axes that the
    template has too? Either tested inside the loop (for ax in self.axes: if ax.name in newdims) or collected beforehand
    (for dim in [ax.name for ax in self.axes if ax.name in newdims], list or generator). Returns 'ok', 'not-own' or 'unfiltered'."""
    own_inside = nm[0] == 'attr' and nm[2] == 'name' and nm[1][0] == 'elem' and nm[1][1] == ('attr', SELF, 'axes')
    own_before = nm[0] == 'elem' and nm[1][0] == 'comp' and len(nm[1][3]) == 1 and nm[1][3][0][1] == ('attr', SELF, 'axes') \
        and nm[1][2] == ('attr', ('elem', ('attr', SELF, 'axes'), nm[1][3][0][0]), 'name')
    if not (own_inside or own_before):
        return 'not-own'
    if own_inside:
        g = [pol for a, pol in e.guards if a[0] == 'cmp' and a[1] == 'in' and a[2] == nm]
    else:
        g = [True for cnd in nm[1][3][0][2] if cnd[0] == 'cmp' and cnd[1] == 'in' and cnd[2] == nm[1][2]]
    return 'ok' if g == [True] else 'unfiltered'


def rule_reindex_like(ctx):
    """R4: reindex_like re-indexes every dimension shared with the template onto the template's labels of the dimension *of that name*, each step starting from the
    result of the previous one, handing the options on.  Decided by interpreting reindex_like on an abstract array (its reindex_axis gives a new array that records the
    dimension, the labels and the options) against templates with the dimensions in the same, reversed and rotated order, a subset, extra and no shared dimensions,
    an Axes object: the recorded re-indexings are compared with the frozen table - whatever loop, fold or comprehension the function is written with."""
    from ..scenario_rule import rule_scenarios
    rule_scenarios(ctx, 'R4', only=AL + 'reindex_like', title='reindex_like accumulates over the shared dimensions, labels paired with dimensions by name (interpreted scenarios)')


def check(ctx):
    rule_pipeline(ctx)
    rule_take_axis(ctx)
    rule_reindex_like(ctx)
    # the lookup reindex_axis relies on: locate_many's contract (searchsorted through argsort, mapped back, out-of-range clipped) - shared with C01
    from . import c01
    from ..report import Renamed
    ctx.rule('R6', 'locate_many contract: searchsorted over argsort(values), mapped back through the sorter, past-the-end clipped', 2)
    c01.rule_locate_many(Renamed(ctx, {'*': 'R6'}))
    # reindex_axis(values, axis=k) fills through put(..., axis=k): the (index, axis) form of _get_indices (shared with C01)
    c01.rule_axis_argument(ctx, rid='R7')
    # the Dataset variant of reindex_axis (sibling cross-check shared with C14)
    from . import c14 as _c14
    _c14.rule_reindex(Renamed(ctx, {'*': 'R9'}))
    # the labels of newly inserted positions are written through Axis.__setitem__ (shared with C05)
    from . import c05 as _c05
    ctx.rule('R8', 'Axis.__setitem__ keeps the widened label buffer it writes into', 1)
    _c05.rule_axis_setitem(ctx, 'R8')
    # the NaN fill promotes integer data (signed or unsigned) to float: widening table of _maybe_cast_type (shared with C03)
    from . import c03 as _c03
    from ..report import Renamed as _RenW
    _c03.rule_widening(_RenW(ctx, {'*': 'R10'}))
    # Dataset.reindex_axis / reindex_like run through Dataset.take_axis -> reduce_axis: per-variable position and per-variable axis order (shared with C14)
    ctx.rule('R11', 'Dataset.reduce_axis: per-variable position, axes in the variable\'s own order (shared with C14)', 4)
    _c14.rule_reduce_axis(Renamed(ctx, {'*': 'R11'}))
    ctx.not_decided += ['slice-by-slice equality with the original data', 'identity on own labels', 'searchsorted neighbour semantics for method=']
    ctx.trusted += ['ndarray.take(indices, axis=) semantics', 'np.searchsorted / ndarray.take(mode=clip) semantics']
    return EXPLANATION
