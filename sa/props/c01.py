"""C01 - label indexing returns exactly the stored data (structural clauses).

  R1 accessor registry       __getitem__/take/put/ix/loc/iloc/nloc/sel/isel all reach _getitem/_setitem
                             with the indexing mode their name promises; Indexable forwards idx/item/kwargs
  R2 absent label            locate_one / AbstractAxis.loc raise IndexError for a label that is not on the
                             axis; the tolerance test is `distance > tol`; default mode is 'raise'
  R3 loc dispatch table      slice / scalar / None / boolean mask / list(+tol) reach the right routine
  R4 searchsorted precond.   searchsorted only on sorted input or through sorter=argsort mapped back
  R5 orthogonality           _getitem defaults to the orthogonal pair; values indexed by orthogonal_indexer
  R6 dimension bookkeeping   i-th index resolved on the i-th axis; position mode never calls loc;
                             scalar results drop exactly their axis
  R7 sub-axis                Axis.__getitem__/take build the sub-axis from the selected labels, same name
"""
import ast

from .. import terms as T
from ..terms import const
from ..rules import (val_eval, UNKNOWN, P_, run, ret_paths, raise_paths, exc_name, bind_call_args, default_of, strip_trivial)
from ..loader import AnalysisError

EXPLANATION = (
    "Structural clauses of C01 decided on the source: accessor registry resolved through the program model "
    "(class-body aliases, properties returning bound methods, Indexable forwarding), path-sensitive value numbering of "
    "locate_one / locate_many / AbstractAxis.loc / _get_indices / _getitem / _getaxes_ortho with guard and provenance "
    "checks on every path (absent-label IndexError guards, tolerance comparator, dispatch table over the index kinds, "
    "searchsorted preconditions, orthogonal default, per-dimension bookkeeping). Does not decide the numerical result "
    "of argsort/searchsorted/np.ix_.")

SELF = P_('self')
BASES = 'dimarray.core.bases.'
IDX = 'dimarray.core.indexing.'


# ----------------------------------------------------------------------------- R1
def rule_registry(ctx):
    ctx.rule('R1', 'accessor registry', 12)
    P = ctx.P
    getitem = ctx.fn(BASES + 'AbstractDimArray._getitem')
    setitem = ctx.fn(BASES + 'AbstractDimArray._setitem')
    classes = ['dimarray.core.dimarraycls.DimArray']
    # (DimArrayOnDisk wraps _getitem/_setitem in read/write: that is C20 territory, not judged here)
    for cq in classes:
        for name, want in (('__getitem__', getitem), ('__setitem__', setitem), ('_getitem', getitem), ('_setitem', setitem)):
            got = P.method(cq, name)
            if got is not want:
                ctx.violated('R1', got, '%s.%s' % (cq.rsplit('.', 1)[-1], name),
                             '%s.%s must resolve to %s, resolves to %s' % (cq, name, want.qualname, got.qualname))
            else:
                ctx.holds('R1', '%s.%s -> %s' % (cq.rsplit('.', 1)[-1], name, want.name))
    for name, want in (('take', getitem), ('put', setitem)):
        got = P.method('dimarray.core.dimarraycls.DimArray', name)
        if got is not want:
            ctx.violated('R1', got, 'DimArray.' + name, 'DimArray.%s must be the bound %s' % (name, want.name))
        else:
            ctx.holds('R1', 'DimArray.%s -> %s' % (name, want.name))

    # accessor properties
    def indexable_args(v):
        if not (v[0] == 'call' and T.call_name(v) == 'Indexable'):
            return None
        a = v[2]
        if len(a) < 3 or a[0] != ('attr', SELF, '_getitem') or a[1] != ('attr', SELF, '_setitem'):
            return None
        return dict((k, x) for k, x in v[3])

    expect = {'loc': {'indexing': const('label')}, 'iloc': {'indexing': const('position')},
              'nloc': {'indexing': const('label'), 'tol': ('attr', ('name', 'np'), 'inf')}}
    for acc, want in expect.items():
        m = P.lookup(P.cls(BASES + 'AbstractHasAxes'), acc)
        ctx.require('R1', m is not None and m.kind == 'prop', 'accessor %s vanished' % acc)
        fi = m.value['fget']
        ev = run(ctx, fi)
        for p in ev.paths:
            kws = indexable_args(p.value) if p.kind == 'return' else None
            if kws is None:
                ctx.violated('R1', fi, 'return ' + T.show(p.value), '.%s must return Indexable(self._getitem, self._setitem, ...)' % acc, node=p.node)
            elif kws != want:
                ctx.violated('R1', fi, 'return ' + T.show(p.value), '.%s must bind %s, binds %s' % (
                    acc, {k: T.show(v) for k, v in want.items()}, {k: T.show(v) for k, v in kws.items()}), node=p.node)
            else:
                ctx.holds('R1', '.%s binds %s' % (acc, {k: T.show(v) for k, v in want.items()}))
    # ix toggles - relative to the mode in force: the array's own _indexing when it has one, the 'indexing.by' option otherwise
    # ("for both values of the 'indexing.by' option (under which .loc / .iloc keep their meaning and .ix toggles)")
    fi = P.lookup(P.cls(BASES + 'AbstractHasAxes'), 'ix').value['fget']
    ev = run(ctx, fi)
    opt = [t for p in ev.paths for src in [p.value] + [g for g, _ in p.guards] for t in T.subterms(src) if t[0] == 'call' and T.call_name(t) == 'get_option' and t[2] == (const('indexing.by'),)]
    for own in (None, 'label', 'position'):
        for by in ('label', 'position'):
            cur = own or by
            want = 'label' if cur == 'position' else 'position'
            env = {('attr', SELF, '_indexing'): own}
            for o in opt:
                env[o] = by
            for p in ev.paths:
                kws = indexable_args(p.value) if p.kind == 'return' else None
                got = val_eval(kws['indexing'], env) if kws and set(kws) == {'indexing'} else None
                # guards of the path must be decided too
                live = all(val_eval(g, env) is pol for g, pol in p.guards)
                if not live and all(val_eval(g, env) is not UNKNOWN for g, pol in p.guards):
                    continue
                if got != want:
                    ctx.violated('R1', fi, 'return ' + T.show(p.value)[:200], ".ix must toggle: with _indexing=%r and indexing.by=%r the mode in force is %r, so .ix must "
                                 "index by %s (got %s)" % (own, by, cur, want, 'undecided' if got is UNKNOWN or got is None else got), node=p.node)
                else:
                    ctx.holds('R1', '.ix with _indexing=%r, indexing.by=%r -> %s' % (own, by, want))
    # sel / isel
    for name, acc in (('sel', 'loc'), ('isel', 'iloc')):
        fi = ctx.fn(BASES + 'AbstractHasAxes.' + name)
        ev = run(ctx, fi)
        for p in ev.paths:
            want = ('sub', ('attr', SELF, acc), P_('**indices'))
            if p.kind != 'return' or p.value != want:
                ctx.violated('R1', fi, 'return ' + T.show(p.value), '%s(**indices) must be self.%s[indices]' % (name, acc), node=p.node)
            else:
                ctx.holds('R1', '%s -> .%s[indices]' % (name, acc))
    # Indexable forwarding
    init = ctx.fn(BASES + 'Indexable.__init__')
    ev = run(ctx, init)
    stored = {}
    for p in ev.paths:
        for e in p.events:
            if e.kind == 'store_attr' and e.a == SELF:
                stored[e.b] = e.c
    for fld in ('getitem', 'setitem', 'args', 'kwargs'):
        src = P_('**kwargs') if fld == 'kwargs' else P_(fld)
        if stored.get(fld) != src:
            ctx.violated('R1', init, 'self.%s = ...' % fld, 'Indexable must store its %s argument in self.%s' % (fld, fld))
    for name, fld, extra in (('__getitem__', 'getitem', {'indices': P_('idx')}),
                             ('__setitem__', 'setitem', {'indices': P_('idx'), 'values': P_('item')})):
        fi = ctx.fn(BASES + 'Indexable.' + name)
        ev = run(ctx, fi)
        for p in ev.paths:
            v = p.value
            ok = (p.kind == 'return' and v[0] == 'call' and v[1] == ('attr', SELF, fld)
                  and v[2] == (('star', ('attr', SELF, 'args')),)
                  and dict(v[3]) == dict(extra, **{'**': ('attr', SELF, 'kwargs')}))
            if not ok:
                ctx.violated('R1', fi, 'return ' + T.show(v), 'Indexable.%s must forward the index as indices=, the item as '
                             'values= and all stored keywords to self.%s' % (name, fld), node=p.node)
            else:
                ctx.holds('R1', 'Indexable.%s forwards' % name)
    # on-disk classes do not override the label lookup
    for cq in ('dimarray.io.nc.AxisOnDisk', 'dimarray.io.nc.DimArrayOnDisk'):
        if cq in P.classes:
            for name in ('loc', '_get_indices'):
                m = P.lookup(P.cls(cq), name)
                if m is not None and m.cls.qualname.startswith('dimarray.io.nc'):
                    ctx.info('%s overrides %s (on-disk lookup differs from in-memory one)' % (cq, name))


# ----------------------------------------------------------------------------- R2 / R4 in locate_one / locate_many
def rule_locate_one(ctx):
    ctx.rule('R2', 'absent label raises IndexError; tolerance comparator', 5)
    ctx.rule('R4', 'searchsorted preconditions', 3)
    fi = ctx.fn(IDX + 'locate_one')
    VALUES, VAL, TOL = P_('values'), P_('val'), P_('tol')
    tol_none = T.mkcmp('is', TOL, T.CONST_NONE)

    def eq_match_set(t):
        """term contains values == val' with val' derived from val"""
        for x in T.subterms(t):
            if x[0] == 'cmp' and x[1] == '==' and ((x[2] == VALUES and T.derives_from(x[3], VAL))
                                                   or (x[3] == VALUES and T.derives_from(x[2], VAL))):
                return True
        return False

    # exact search
    ev = run(ctx, fi, bind={'issorted': const(False)}, facts={tol_none: True})
    rets, raises = ret_paths(ev), raise_paths(ev)
    ctx.require('R2', rets, 'locate_one: expected returning paths for the exact search')
    if not raises:
        ctx.violated('R2', fi, 'locate_one exact search', 'no path raises for a label that is not on the axis: an absent label '
                     'silently returns some position')
    for p in rets:
        guard = [(a, pol) for a, pol in p.guards if eq_match_set(a)]
        nonempty = False
        for a, pol in guard:
            # 0 < W.size  True   |  W.size == 0 False | len(W) ...
            if a[0] == 'cmp' and a[1] == '<' and a[2] == const(0) and pol:
                nonempty = True
            if a[0] == 'cmp' and a[1] == '==' and a[3] == const(0) and not pol:
                nonempty = True
            if a[0] == 'cmp' and a[1] == '<' and a[3] == const(1) and not pol:
                nonempty = True
        if not eq_match_set(p.value):
            ctx.violated('R2', fi, 'return ' + T.show(p.value), 'exact search must return a position where values == val',
                         node=p.node)
        elif not nonempty:
            ctx.violated('R2', fi, 'return ' + T.show(p.value), 'the match is returned without testing that the set of '
                         'positions where values == val is non-empty: an absent label would not raise IndexError',
                         node=p.node, witness=['guards: ' + ', '.join('%s=%s' % (T.show(a), b) for a, b in p.guards)])
        else:
            ctx.holds('R2', 'locate_one exact: return guarded by non-empty match set')
    for p in raises:
        if exc_name(p.value) != 'IndexError':
            ctx.violated('R2', fi, 'raise ' + exc_name(p.value), 'an absent label must raise IndexError, raises %s'
                         % exc_name(p.value), node=p.node)
        else:
            ctx.holds('R2', 'locate_one exact: absent label raises IndexError')

    # tolerance search
    ev = run(ctx, fi, bind={'issorted': const(False)}, facts={tol_none: False})
    rets = ret_paths(ev)
    raises = [p for p in raise_paths(ev) if exc_name(p.value) == 'IndexError']
    ctx.require('R2', rets, 'locate_one: expected returning paths for the tolerance search')
    if not raises:
        ctx.violated('R2', fi, 'locate_one tolerance search', 'no IndexError path: the nearest label is used even when it lies '
                     'outside the tolerance')

    def dist_term(t):
        # np.abs(values - val) or abs(...)
        for x in T.subterms(t):
            if x[0] == 'call' and T.call_name(x) in ('abs', 'absolute', 'fabs') and x[2] and x[2][0][0] == 'binop' \
                    and x[2][0][1] == '-' and {x[2][0][2], x[2][0][3]} >= {VALUES} and T.derives_from(x[2][0], VAL):
                return x
        return None

    from .c06 import _nonempty_fact
    unguarded = None
    for p, is_ret in [(p, True) for p in rets] + [(p, False) for p in raises]:
        tests = [(a, pol) for a, pol in p.guards if T.contains(a, TOL) and a != tol_none]
        known_nonempty = any(_nonempty_fact(a, pol) == VALUES for a, pol in p.guards)
        known_empty = any(_nonempty_fact(a, not pol) == VALUES for a, pol in p.guards)
        if not is_ret and not tests and known_empty:
            ctx.holds('R2', 'locate_one tolerance: an empty axis raises IndexError (no label can be within the tolerance)')
            continue
        if tests and not known_nonempty and unguarded is None:
            unguarded = p
        if is_ret and not tests:
            ctx.violated('R2', fi, 'return ' + T.show(p.value)[:100], 'with a tolerance the nearest label is returned without testing that it lies within the tolerance', node=p.node)
            continue
        if len(tests) != 1:
            ctx.undecide('R2', 'locate_one tolerance branch: expected one tolerance test per path, found %d' % len(tests))
            continue
        a, pol = tests[0]
        d = dist_term(a)
        good_shape = (a[0] == 'cmp' and a[1] == '<' and a[2] == TOL and d is not None and a[3][0] == 'sub' and a[3][1] == d)
        if not good_shape:
            ctx.violated('R2', fi, T.show(a), 'the nearest label may be used iff its distance |values - val| is within the '
                         'tolerance: the test must be `dist[match] > tol` (raise) - found %s' % T.show(a), node=p.node)
            continue
        match = a[3][2]
        if not (match[0] == 'call' and T.call_name(match) in ('argmin', 'nanargmin') and d in match[2] + (T.call_receiver(match) or (),)):
            if not (match[0] == 'call' and T.call_name(match) == 'argmin' and T.contains(match, d)):
                ctx.violated('R2', fi, T.show(match), 'the candidate must be the position of the smallest distance (argmin)',
                             node=p.node)
                continue
        if is_ret and (pol or p.value != match):
            ctx.violated('R2', fi, 'return ' + T.show(p.value), 'a label farther than tol must not be returned / the returned '
                         'position must be the argmin that was tested', node=p.node)
        elif not is_ret and not pol:
            ctx.violated('R2', fi, 'raise IndexError', 'IndexError raised although the nearest label lies within the tolerance',
                         node=p.node)
        else:
            ctx.holds('R2', 'locate_one tolerance: %s iff dist[argmin] > tol' % ('return' if is_ret else 'raise'))

    if unguarded is not None:
        ctx.violated('R2', fi, 'argmin over an axis that may be empty', 'with a tolerance the nearest label is taken with argmin(|values - val|) without testing that the axis has a '
                     'label at all: on an empty axis NumPy raises ValueError ("attempt to get argmin of an empty sequence") where an absent label must raise IndexError '
                     '(e.take(3., axis=0, tol=1), e.nloc[3.])', node=unguarded.node)
    # R4: searchsorted in locate_one only when issorted
    ev = run(ctx, fi, facts={tol_none: True})
    for p in ev.paths:
        for c in T.calls_in(p.value, 'searchsorted'):
            srt = [pol for a, pol in p.guards if a == P_('issorted')]
            if srt != [True] and T.kw(c, 'sorter') is None:
                ctx.violated('R4', fi, T.show(c), 'searchsorted on the raw labels needs the issorted branch', node=p.node)
            else:
                ctx.holds('R4', 'locate_one: searchsorted under issorted')


def rule_locate_many(ctx):
    fi = ctx.fn(IDX + 'locate_many')
    VALUES, VAL = P_('values'), P_('val')
    n = 0
    # (two scenarios: the option bound to True and to False, so that `sorter=None if issorted else ...` reads like the two branches of an if)
    paths = [(p, [flag]) for flag in (True, False) for p in ret_paths(run(ctx, fi, bind={'issorted': const(flag)}))]
    for p, srt in paths:
        v = p.value
        sscalls = list(T.calls_in(v, 'searchsorted'))
        if len(sscalls) != 1:
            ctx.undecide('R4', 'locate_many: expected one searchsorted per path')
            continue
        c = sscalls[0]
        arr = T.arg(c, 0, 'a') if T.dotted(c[1]) == 'np.searchsorted' else T.call_receiver(c)
        needle = T.arg(c, 1, 'v') if T.dotted(c[1]) == 'np.searchsorted' else T.arg(c, 0, 'v')
        if arr != VALUES or needle != VAL:
            ctx.violated('R4', fi, T.show(c), 'locate_many must search `val` in `values`', node=p.node)
            continue
        sorter = T.kw(c, 'sorter')
        if sorter == T.CONST_NONE:
            sorter = None
        if srt == [True]:
            if v != c:
                ctx.violated('R4', fi, 'return ' + T.show(v), 'sorted branch must return the searchsorted positions', node=p.node)
            else:
                ctx.holds('R4', 'locate_many sorted branch')
                n += 1
            continue
        # unsorted: sorter must be argsort(values) and the result mapped back through it
        is_argsort = sorter is not None and sorter[0] == 'call' and T.call_name(sorter) == 'argsort' and \
            (sorter[2][:1] == (VALUES,) or T.call_receiver(sorter) == VALUES)
        if not is_argsort:
            ctx.violated('R4', fi, T.show(c), 'labels are stored in any order: searchsorted needs sorter=argsort(values)',
                         node=p.node)
            continue
        # the permutation with one more slot for the one-past-the-end position, holding the last sorted (largest) label again
        last = ('sub', sorter, ('slice', const(-1), T.CONST_NONE, T.CONST_NONE))
        last1 = ('list', (('sub', sorter, const(-1)),))
        padded = [('call', ('attr', ('name', 'np'), 'append'), (sorter, x), ()) for x in (last, last1, ('sub', sorter, const(-1)))] + \
                 [('call', ('attr', ('name', 'np'), 'concatenate'), ((tag, (sorter, x)),), ()) for tag in ('list', 'tuple') for x in (last, last1)]
        via_padded = (v[0] == 'call' and T.call_name(v) == 'take' and T.call_receiver(v) in padded and v[2][:1] == (c,)) or \
                     (v[0] == 'sub' and v[1] in padded and v[2] == c)
        if via_padded:
            ctx.holds('R4', 'locate_many unsorted branch: sorter=argsort(values), mapped back through the permutation padded with its last entry')
            n += 1
            continue
        mapped = (v[0] == 'call' and T.call_name(v) == 'take' and T.call_receiver(v) == sorter and v[2][:1] == (c,)) or \
                 (v[0] == 'sub' and v[1] == sorter and T.contains(v[2], c))
        if not mapped:
            ctx.violated('R4', fi, 'return ' + T.show(v), 'positions found in the sorted order must be mapped back through the '
                         'same argsort (isort.take(indices) / isort[indices])', node=p.node)
            continue
        if v[0] == 'sub':
            idx = v[2]
            clipped = idx[0] == 'call' and T.dotted(idx[1]) in ('np.clip', 'np.minimum', 'numpy.clip', 'numpy.minimum') and T.contains(idx, c)
            if not clipped:
                ctx.violated('R4', fi, 'return ' + T.show(v)[:120], 'searchsorted returns len(values) for a label above all labels: the position must be clipped to the last sorted '
                             'element before the sorter is indexed (a modulo wraps it to the smallest label, a plain index raises)', node=p.node)
                continue
        if v[0] == 'call' and T.kw(v, 'mode') != const('clip'):
            ctx.violated('R4', fi, 'return ' + T.show(v), "searchsorted may return len(values) for a label above all labels: "
                         "the take needs mode='clip' (the caller then detects the mismatch)", node=p.node)
            continue
        ctx.holds('R4', 'locate_many unsorted branch: sorter=argsort(values), mapped back, clipped')
        n += 1


# ----------------------------------------------------------------------------- R2 / R3 in AbstractAxis.loc
def loc_oracle(kind, VAL):
    """scenario oracle for AbstractAxis.loc; kind in slice|scalar|none|bool|list"""
    def oracle(atom, st):
        if atom[0] == 'cmp' and atom[1] == 'is' and atom[2] == ('call', ('name', 'type'), (VAL,), ()) and atom[3] == ('name', 'slice'):
            return kind == 'slice'
        if atom[0] == 'call' and T.dotted(atom[1]) == 'isinstance' and atom[2][0] == VAL and atom[2][1] == ('name', 'slice'):
            return kind == 'slice'
        if atom[0] == 'call' and T.call_name(atom) == 'isscalar' and atom[2] == (VAL,):
            return kind == 'scalar'
        if atom == T.mkcmp('is', VAL, T.CONST_NONE):
            return kind == 'none'
        if atom[0] == 'cmp' and atom[1] == '==' and atom[2] == ('attr', ('attr', VAL, 'dtype'), 'kind') and atom[3] == const('b'):
            return kind == 'bool'
        if atom[0] == 'call' and T.dotted(atom[1]) == 'hasattr' and atom[2] == (VAL, const('dtype')):
            return True if kind == 'bool' else None
        return None
    return oracle


def rule_loc(ctx):
    ctx.rule('R3', 'AbstractAxis.loc dispatch table', 6)
    fi = ctx.fn(BASES + 'AbstractAxis.loc')
    VAL, TOL, MODE = P_('val'), P_('tol'), P_('mode')

    def is_values(t):
        return T.derives_from(t, SELF) and 'values' in T.show(t) and not T.derives_from(t, VAL)

    d = default_of(fi, 'mode')
    if d != const('raise'):
        ctx.violated('R2', fi, 'def loc(..., mode=%s)' % (T.show(d) if d else None), "the default of `mode` must be 'raise' "
                     "(absent labels raise IndexError)")
    else:
        ctx.holds('R2', "loc default mode='raise'")

    # The effective tolerance is the caller's when one is given - 0 included - and the axis' own (`Axis(..., tol=)`) otherwise.  Scenario table over
    # (index kind) x (caller's tol: none / 0.5 / 0) x (axis tol: none / 0.6): every test on either of them is evaluated for the scenario, and the
    # tolerance handed to locate_one must evaluate to the effective one (`tol or self._tol` loses an explicit 0).
    from ..rules import val_eval, UNKNOWN
    AXTOL = [('attr', SELF, '_tol'), ('attr', SELF, 'tol')]
    scenarios = []
    for kind0 in ('slice', 'scalar', 'bool', 'list'):
        for ct in (None, 0.5, 0):
            for at in (None, 0.6):
                scenarios.append((kind0, ct, at))
    for k, ct, at in scenarios:
        effective = ct if ct is not None else at
        kind = 'list+tol' if (k == 'list' and effective is not None) else k
        env = {TOL: ct}
        for t_ in AXTOL:
            env[t_] = at
        inst = '%s, tol=%r, axis tol=%r' % (k, ct, at)

        def oracle(atom, st, _o=loc_oracle(k, VAL), _env=env):
            r = _o(atom, st)
            if r is not None:
                return r
            if T.contains(atom, TOL) or any(T.contains(atom, t_) for t_ in AXTOL):
                v_ = val_eval(atom, _env)
                if v_ is not UNKNOWN:
                    return bool(v_)
            if atom[0] == 'call' and T.call_name(atom) == 'is_numeric':
                return True
            return None

        def tol_ok(c, _env=env, _eff=effective):
            # the tol= argument of a locate_one call evaluates to the effective tolerance of the scenario
            # (by keyword or by position: bound against locate_one's own signature)
            t_ = bind_call_args(c, ctx.fn('dimarray.core.indexing.locate_one')).get('tol') or T.CONST_NONE
            v_ = val_eval(t_, _env)
            return v_ is not UNKNOWN and v_ == _eff and type(v_) is type(_eff)
        ev = run(ctx, fi, bind={'mode': const('raise'), 'issorted': const(False)}, oracle=oracle)
        rets = ret_paths(ev)
        if not rets:
            ctx.violated('R3', fi, 'dispatch ' + kind, 'no returning path for index kind %s' % kind)
            continue
        for p in rets:
            v = p.value
            ok, why = True, ''
            if k == 'slice':
                ok = v[0] == 'call' and T.dotted(v[1]) == 'slice'
                why = 'a slice must be answered by a slice of positions'
            elif k == 'scalar':
                ok = v[0] == 'call' and T.call_name(v) == 'locate_one' and is_values(v[2][0]) and v[2][1] == VAL
                why = 'a scalar label must be located by locate_one(values, val, tol=tol)'
                if ok and not tol_ok(v):
                    ok = False
                    why = ('with the caller\'s tol=%r and an axis-level tolerance of %r the label is searched with tol=%s, expected %r: the caller\'s tolerance - 0 included - '
                           'takes precedence, the axis\' own one applies only when none is given (`tol or self._tol` drops an explicit 0, and a label that is not within the '
                           'given tolerance is returned)' % (ct, at, T.show(T.kw(v, 'tol', T.CONST_NONE))[:60], effective))
            elif k == 'bool':
                ok = v == VAL
                why = 'a boolean mask must be passed through unchanged'
            elif kind == 'list+tol':
                if v[0] == 'call' and T.dotted(v[1]) in ('np.array', 'np.asarray') and v[2] and v[2][0][0] == 'comp':
                    v = v[2][0]            # positions collected into an (integer) array: the dtype is decided by R12
                ok = v[0] == 'comp' and v[2][0] == 'call' and T.call_name(v[2]) == 'locate_one' and is_values(v[2][2][0]) \
                    and v[2][2][1][0] == 'elem' and v[2][2][1][1] == VAL and v[3][0][1] == VAL
                why = 'a list of labels with a tolerance must be located label by label with locate_one(values, v, tol=tol)'
                if ok and not tol_ok(v[2]):
                    ok = False
                    why = ('with the caller\'s tol=%r and an axis-level tolerance of %r the labels are searched with tol=%s, expected %r (the caller\'s tolerance, 0 included, '
                           'takes precedence over the axis\' own)' % (ct, at, T.show(T.kw(v[2], 'tol', T.CONST_NONE))[:60], effective))
            elif kind == 'list':
                ok = v[0] == 'call' and T.call_name(v) == 'locate_many' and is_values(v[2][0]) and v[2][1] == VAL
                why = 'a list of labels must be located by locate_many(values, val)'
                if ok:
                    # R2: guard np.any(values[matches] != val) False on the returning path
                    good = _found_guard(p, v, is_values, VAL)
                    if not good:
                        ctx.violated('R2', fi, 'return ' + T.show(v), "positions from the clip-mode search are returned without the "
                                     "`values[matches] != val` check: an absent label would silently select a neighbour",
                                     node=p.node, witness=['guards: ' + ', '.join('%s=%s' % (T.show(a), b) for a, b in p.guards)])
                    else:
                        ctx.holds('R2', 'loc list branch: return guarded by values[matches] == val')
            if not ok:
                ctx.violated('R3', fi, 'return %s [%s]' % (T.show(v), inst), why, node=p.node)
            else:
                ctx.holds('R3', 'loc dispatch: ' + inst, sample=T.show(v)[:200])
        if kind == 'list' and ct is None and at is None:
            bad = [p for p in raise_paths(ev) if exc_name(p.value) != 'IndexError']
            good = [p for p in raise_paths(ev) if exc_name(p.value) == 'IndexError']
            if bad or not good:
                ctx.violated('R2', fi, 'loc list branch raise', 'labels that are not on the axis must raise IndexError')
            else:
                ctx.holds('R2', 'loc list branch raises IndexError on mismatch')
            # labels of a type that cannot be ordered against the axis' labels (1 on a str axis) make the sorted search itself raise TypeError:
            # that is an absent label too, and the scalar spelling answers it with IndexError
            conv = [p for p in good if any(a[0] == 'tryfail' and ('TypeError' in a[2] or a[2] in ('*', 'Exception')) for a, pol in p.guards) and list(p.calls('locate_many'))]
            inner = ctx.fn(IDX + 'locate_many')
            evm = run(ctx, inner, mode='join')
            conv_inner = [p for p in raise_paths(evm) if exc_name(p.value) == 'IndexError' and any(a[0] == 'tryfail' for a, pol in p.guards)]
            if conv or conv_inner:
                ctx.holds('R2', 'loc list branch: a TypeError of the sorted search (labels not comparable with the axis) is answered by IndexError')
            else:
                lm = [e for p in ev.paths for e in p.calls('locate_many')]
                ctx.violated('R2', fi, 'locate_many outside try / except TypeError', 'a list holding a label of a type that cannot be ordered against the axis\' labels (d[[1]] on a str axis) '
                             'makes np.searchsorted raise TypeError, which escapes: an absent label must raise IndexError, as the scalar spelling d[1] does',
                             node=lm[0].node if lm else fi.node)
    # the only way round the guard is mode == 'clip'
    env_none = {TOL: None}
    for t_ in AXTOL:
        env_none[t_] = None

    def oracle_clip(a, st):
        r = loc_oracle('list', VAL)(a, st)
        if r is not None:
            return r
        if T.contains(a, TOL) or any(T.contains(a, t_) for t_ in AXTOL):
            v_ = val_eval(a, env_none)
            if v_ is not UNKNOWN:
                return bool(v_)
        return None
    ev = run(ctx, fi, bind={'issorted': const(False)}, oracle=oracle_clip)
    for p in ret_paths(ev):
        unguarded = not _found_guard(p, p.value, is_values, VAL)
        if unguarded:
            m = [(a, pol) for a, pol in p.guards if T.contains(a, MODE)]
            if not (len(m) == 1 and m[0][0] == T.mkcmp('==', MODE, const('clip')) and m[0][1] is True):
                ctx.violated('R2', fi, 'return ' + T.show(p.value), "the mismatch check may only be skipped when mode == 'clip'",
                             node=p.node)
            else:
                ctx.holds('R2', "loc: check skipped only for mode == 'clip'")


def _found_guard(p, v, is_values, VAL):
    """The guards of returning path p establish that every returned position v holds its label: `np.any(values[v] != val)` is False,
    or - the same test spelled positively - `np.all(values[v] == val)` is True."""
    def cmp_found(x, op):
        return x[0] == 'cmp' and x[1] == op and ((x[2][0] == 'sub' and is_values(x[2][1]) and x[2][2] == v and x[3] == VAL)
                                                 or (x[3][0] == 'sub' and is_values(x[3][1]) and x[3][2] == v and x[2] == VAL))
    good = False
    for a, pol in p.guards:
        if not T.contains(a, v):
            continue
        red = T.call_name(a) if a[0] == 'call' else None
        arg = (a[2][0] if a[2] else (a[1][1] if a[1][0] == 'attr' else None)) if a[0] == 'call' else None
        if red == 'any' and arg is not None and cmp_found(arg, '!='):
            good = not pol
        elif red == 'all' and arg is not None and cmp_found(arg, '=='):
            good = pol
        elif red not in ('any', 'all'):
            for x in T.subterms(a):
                if cmp_found(x, '!='):
                    good = not pol
    return good


# ----------------------------------------------------------------------------- R5
def class_const(P, cq, name):
    m = P.lookup(P.cls(cq), name)
    if m is None or m.kind != 'const':
        return None
    try:
        return const(ast.literal_eval(m.value))
    except Exception:
        return None


def getitem_oracle(bc):
    def oracle(atom, st):
        B = ('attr', SELF, '_broadcast')
        if atom == T.mkcmp('is', B, T.CONST_NONE):
            return bc == T.CONST_NONE
        if atom == B:
            return bool(bc[1])
        if atom[0] == 'call' and T.call_name(atom) == '_is_boolean_index_nd':
            return False
        return None
    return oracle


def rule_ortho(ctx):
    ctx.rule('R5', 'orthogonal indexing is the default and uses the ortho pair', 3)
    # the structural reading of _getitem on trial: when it does not recognise how the worker pair is chosen and called, the dispatch scenarios of _getitem decide
    # (the class-level _broadcast flags are another construct: what is said about them stays)
    from ..report import on_trial
    on_trial(ctx, _getitem_structural, [BASES + 'AbstractDimArray._getitem'], ('R5',), '_getitem')
    fi = ctx.fn('dimarray.core.dimarraycls.DimArray._getvalues_ortho')
    ev = run(ctx, fi)
    for p in ev.paths:
        v = p.value
        ok = p.kind == 'return' and v[0] == 'sub' and v[1] in (('attr', SELF, 'values'), ('attr', SELF, '_values')) \
            and v[2][0] == 'call' and T.call_name(v[2]) == 'orthogonal_indexer' \
            and v[2][2] == (P_('indices'), ('attr', SELF, 'shape'))
        if not ok:
            ctx.violated('R5', fi, 'return ' + T.show(v), 'values must be indexed with orthogonal_indexer(indices, self.shape)', node=p.node)
        else:
            ctx.holds('R5', '_getvalues_ortho: values[orthogonal_indexer(indices, shape)]')


def _getitem_structural(ctx):
    P = ctx.P
    fi = ctx.fn(BASES + 'AbstractDimArray._getitem')
    gi = ctx.fn(BASES + 'AbstractHasAxes._get_indices')
    for cq in ['dimarray.core.dimarraycls.DimArray'] + (['dimarray.io.nc.DimArrayOnDisk'] if 'dimarray.io.nc.DimArrayOnDisk' in P.classes else []):
        bc = class_const(P, cq, '_broadcast')
        if bc != const(False):
            m = P.lookup(P.cls(cq), '_broadcast')
            ctx.violated('R5', m.cls.qualname if m else cq, '_broadcast = %s' % (T.show(bc) if bc else '?'),
                         '%s._broadcast must be False so that every indexed dimension is sampled independently' % cq)
            continue
        ev = run(ctx, fi, bind={'broadcast': T.CONST_NONE, 'broadcast_arrays': T.CONST_NONE}, oracle=getitem_oracle(bc))
        ok = True
        for p in ev.paths:
            names = [T.call_name(e.a) for e in p.calls()]
            if any(n in ('_getaxes_broadcast', '_getvalues_broadcast') for n in names):
                ctx.violated('R5', fi, 'broadcast branch', 'with default options %s must use orthogonal indexing' % cq, node=p.node)
                ok = False
                continue
            if p.kind != 'return':
                continue
            gic = [e.a for e in p.calls('_get_indices')]
            ax = [e.a for e in p.calls('_getaxes_ortho')]
            va = [e.a for e in p.calls('_getvalues_ortho')]
            if not (len(gic) == 1 and len(ax) == 1 and len(va) == 1):
                ctx.violated('R5', fi, 'return ' + T.show(p.value), 'expected one _get_indices, _getaxes_ortho and _getvalues_ortho call',
                             node=p.node)
                ok = False
                continue
            b = bind_call_args(gic[0], gi, method=True)
            wrong = [k for k in ('indices', 'axis', 'indexing', 'tol', 'keepdims') if b.get(k) != P_(k)]
            # indices may have been normalised from None to ()
            if 'indices' in wrong and b.get('indices') == ('tuple', ()):
                wrong.remove('indices')
            if wrong:
                ctx.violated('R5', fi, T.show(gic[0]), '_get_indices must receive the caller\'s %s unchanged' % ', '.join(wrong), node=p.node)
                ok = False
                continue
            if ax[0][2] != (gic[0],) or va[0][2] != (gic[0],):
                ctx.violated('R5', fi, T.show(ax[0]) + ' / ' + T.show(va[0]), 'axes and values must be taken with the same resolved indexer',
                             node=p.node)
                ok = False
                continue
            v = p.value
            scalar_ret = (v == va[0])
            built = (v[0] == 'call' and T.call_name(v) == '_constructor' and v[2][:2] == (va[0], ax[0]))
            if not (scalar_ret or built):
                ctx.violated('R5', fi, 'return ' + T.show(v), 'the result must be built from the ortho values and the ortho axes', node=p.node)
                ok = False
        if ok:
            ctx.holds('R5', '%s: default ortho pair on %d paths' % (cq.rsplit('.', 1)[-1], len(ev.paths)))


# ----------------------------------------------------------------------------- R6
def rule_bookkeeping(ctx):
    ctx.rule('R6', 'per-dimension bookkeeping', 4)
    fi = ctx.fn(BASES + 'AbstractHasAxes._get_indices')
    DIMS = ('attr', SELF, 'dims')
    for indexing in ('label', 'position'):
        def nd_oracle(atom, st):
            # the result of np.asarray(...) / .astype(...) is an ndarray
            if atom[0] == 'call' and T.dotted(atom[1]) == 'isinstance' and len(atom[2]) == 2 and T.dotted(atom[2][1]) in ('np.ndarray', 'numpy.ndarray'):
                x = atom[2][0]
                while x[0] == 'phi' and len([y for y in x[1] if y[0] != 'carried']) == 1:
                    x = [y for y in x[1] if y[0] != 'carried'][0]
                if x[0] == 'call' and (T.dotted(x[1]) in ('np.asarray', 'np.array') or T.call_name(x) == 'astype'):
                    return True
            return None
        ev = run(ctx, fi, bind={'indexing': const(indexing)}, oracle=nd_oracle)
        nloc = 0
        mask_tested = [False]
        for p in ret_paths(ev):
            for e in p.calls('loc'):
                c = e.a
                recv = T.call_receiver(c)
                nloc += 1
                if indexing == 'position':
                    ctx.violated('R6', fi, e.node, 'position indexing must not translate indices through Axis.loc', node=e.node)
                    continue
                # receiver: self.axes[dims[i]] (or self.axes[i]); argument: the i-th index
                arg0 = strip_trivial(c[2][0]) if c[2] else None
                while arg0 is not None and arg0[0] == 'call' and (T.call_name(arg0) == 'astype' or T.dotted(arg0[1]) in ('np.asarray', 'np.array')):
                    arg0 = strip_trivial(T.call_receiver(arg0) if T.call_name(arg0) == 'astype' else arg0[2][0])
                if not (arg0 is not None and arg0[0] == 'elem'):
                    ctx.undecide('R6', '_get_indices: loc argument is not the loop element: %s' % T.show(arg0))
                    continue
                seq, lid = arg0[1], arg0[2]
                i = ('idx', seq, lid)
                good_recv = recv in (('sub', ('attr', SELF, 'axes'), ('sub', DIMS, i)), ('sub', ('attr', SELF, 'axes'), i))
                if not good_recv:
                    ctx.violated('R6', fi, e.node, 'the i-th index must be resolved on the i-th axis (self.axes[dims[i]]), '
                                 'found receiver %s' % T.show(recv)[:120], node=e.node)
                    continue
                # guarded by "not a full slice"
                if not any('slice' in T.show(a) for a, pol in e.guards):
                    ctx.violated('R6', fi, e.node, 'full slices must by-pass the label lookup', node=e.node)
                    continue
                # not for boolean masks: no lookup on a path where the mask test succeeded
                isb = [pol for a, pol in e.guards if a[0] == 'cmp' and a[1] == '==' and a[3] == const('b')]
                if any(isb):
                    ctx.violated('R6', fi, e.node, 'boolean masks must by-pass the label lookup', node=e.node)
                    continue
                if isb:
                    mask_tested[0] = True
                if T.kw(c, 'mode') is not None and T.kw(c, 'mode') != const('raise'):
                    ctx.violated('R6', fi, e.node, "label lookup for indexing must keep mode='raise'", node=e.node)
                    continue
                tolarg = T.kw(c, 'tol')
                if tolarg is None or not (T.contains(tolarg, P_('tol')) or '_tol' in T.show(tolarg)):
                    ctx.violated('R6', fi, e.node, 'the tolerance must be forwarded to the label lookup', node=e.node)
                    continue
                ctx.holds('R6', '_get_indices[%s]: i-th index on i-th axis' % indexing)
        if indexing == 'label' and nloc == 0:
            ctx.violated('R6', fi, '_get_indices label mode', 'label indexing never calls Axis.loc')
        if indexing == 'label' and nloc and not mask_tested[0]:
            ctx.violated('R6', fi, '_get_indices mask test', 'boolean masks must by-pass the label lookup (no dtype.kind == \'b\' '
                         'test guards the lookup)')
        if indexing == 'position' and nloc == 0:
            ctx.holds('R6', '_get_indices[position]: no label lookup')
    # dict form is re-ordered by dims; int keys mapped through dims[k]
    ev = run(ctx, fi, bind={'indexing': const('label'), 'axis': const(0)},
             oracle=lambda a, st: (True if (a[0] == 'call' and T.dotted(a[1]) == 'isinstance' and a[2] == (P_('indices'), ('name', 'dict')))
                                   else False if (a[0] == 'call' and T.dotted(a[1]) == 'isinstance' and a[2][0] == P_('indices')) else None))
    seen_reorder = False
    seen_int = False
    for p in ev.paths:
        for e in p.events:
            if e.kind == 'call' and T.call_name(e.a) == 'expanded_indexer':
                a0 = e.a[2][0]
                for x in T.subterms(a0):
                    if x[0] == 'comp' and x[3] and x[3][0][1] == DIMS:
                        elt = x[2]
                        d = ('elem', DIMS, x[3][0][0])
                        FULL = ('call', ('name', 'slice'), (T.CONST_NONE,), ())
                        if elt[0] == 'ifexp' and elt[2][0] == 'sub' and elt[2][2] == d and elt[3] == FULL:
                            seen_reorder = True
                        # negated test with swapped branches / mapping.get(d, slice(None))
                        if elt[0] == 'ifexp' and elt[3][0] == 'sub' and elt[3][2] == d and elt[2] == FULL and 'not in' in T.show(elt[1]):
                            seen_reorder = True
                        if elt[0] == 'call' and T.call_name(elt) in ('get', 'pop') and elt[2] == (d, FULL) and T.call_name(elt) == 'get':
                            seen_reorder = True
            if e.kind == 'store_sub' and e.b[0] == 'sub' and e.b[1] == DIMS and e.c[0] == 'sub' and e.b[2] == e.c[2]:
                seen_int = True
            # ... or the entry is moved in one go: indices[dims[k]] = indices.pop(k)
            if e.kind == 'store_sub' and e.b[0] == 'sub' and e.b[1] == DIMS and e.c[0] == 'call' and T.call_name(e.c) == 'pop' and e.c[2][:1] == (e.b[2],):
                seen_int = True
    if not seen_reorder:
        ctx.violated('R6', fi, 'dict -> tuple', 'a {dimension: index} mapping must be laid out in the order of self.dims, '
                     'with slice(None) for absent dimensions')
    else:
        ctx.holds('R6', '_get_indices: dict re-ordered by dims')
    if not seen_int:
        ctx.violated('R6', fi, 'int key -> name', 'integer keys of an index mapping must be translated with dims[k]')
    else:
        ctx.holds('R6', '_get_indices: int keys mapped through dims[k]')
    # keepdims
    ev = run(ctx, fi, bind={'indexing': const('position'), 'keepdims': const(True)})
    # _getaxes_ortho: the structural reading on trial, the scenario table of the function decides when it does not recognise the code
    from ..report import on_trial
    on_trial(ctx, _getaxes_ortho_structural, [BASES + 'AbstractHasAxes._getaxes_ortho'], ('R6',), '_getaxes_ortho')


def _getaxes_ortho_structural(ctx):
    fi = ctx.fn(BASES + 'AbstractHasAxes._getaxes_ortho')
    ev = run(ctx, fi)
    TUP = P_('idx_tuple')
    ok = False

    def pairs_ok(a):
        return a[0] == 'sub' and a[1][0] == 'sub' and a[1][1] == ('attr', SELF, 'axes') and a[1][2][0] == 'idx' and a[1][2][1] == TUP \
            and a[2][0] == 'elem' and a[2][1] == TUP and a[2][2] == a[1][2][2]
    for p in ret_paths(ev):
        # the accumulating loop is read as a comprehension: [self.axes[i][ix] for i, ix in enumerate(idx_tuple) if not np.isscalar(self.axes[i][ix])]
        v = p.value
        if v[0] == 'call' and T.dotted(v[1]) in ('list', 'Axes') and len(v[2]) == 1:
            v = v[2][0]
        if v[0] == 'comp' and len(v[3]) == 1:
            a = v[2]
            conds = v[3][0][2]
            if not pairs_ok(a):
                ctx.violated('R6', fi, T.show(a)[:120], 'the i-th result axis must be self.axes[i][idx_tuple[i]]', node=p.node)
                ok = None
            elif not any(c == ('unop', 'not', ('call', ('attr', ('name', 'np'), 'isscalar'), (a,), ())) or
                         (c[0] == 'unop' and c[1] == 'not' and c[2][0] == 'call' and T.call_name(c[2]) == 'isscalar' and c[2][2] == (a,)) for c in conds) or len(conds) != 1:
                ctx.violated('R6', fi, T.show(v)[:160], 'axes indexed by a scalar must be dropped (and only those)', node=p.node)
                ok = None
            elif ok is not None:
                ok = True
        for e in p.calls('append'):
            a = e.a[2][0]
            if pairs_ok(a):
                # guarded by not isscalar(ax)
                g = [(x, pol) for x, pol in e.guards if x[0] == 'call' and T.call_name(x) == 'isscalar' and x[2] == (a,)]
                if g and g[0][1] is False:
                    ok = True if ok is not None else ok
                else:
                    ctx.violated('R6', fi, T.show(e.a), 'axes indexed by a scalar must be dropped (and only those)', node=e.node)
                    ok = None
            else:
                ctx.violated('R6', fi, T.show(e.a), 'the i-th result axis must be self.axes[i][idx_tuple[i]]', node=e.node)
                ok = None
    if ok:
        ctx.holds('R6', '_getaxes_ortho pairs idx_tuple[i] with axes[i], drops scalar-indexed axes')
    elif ok is False:
        ctx.violated('R6', fi, '_getaxes_ortho', 'no axis is ever collected')


# ----------------------------------------------------------------------------- R7
def rule_subaxis(ctx):
    ctx.rule('R7', 'sub-axis carries the selected labels and the name', 2)
    fi = ctx.fn('dimarray.core.axes.Axis.__getitem__')
    ITEM = P_('item')
    ev = run(ctx, fi, oracle=lambda a, st: (False if (a[0] == 'cmp' and a[1] == 'is' and a[3] == ('name', 'slice') and 'type' in T.show(a[2])) else None))
    n = 0
    for p in ret_paths(ev):
        v = p.value
        if v[0] == 'call' and T.call_name(v) == 'Axis':
            vals, name = v[2][0], v[2][1] if len(v[2]) > 1 else T.kw(v, 'name')
            ok = vals[0] == 'sub' and vals[1] in (('attr', SELF, 'values'), ('attr', SELF, '_values')) and strip_trivial(vals[2]) == ITEM \
                and name in (('attr', SELF, 'name'), ('attr', SELF, '_name'))
            if not ok:
                ctx.violated('R7', fi, 'return ' + T.show(v), 'the sub-axis must be Axis(self.values[item], self.name, ...)', node=p.node)
            else:
                n += 1
    if n:
        ctx.holds('R7', 'Axis.__getitem__')
    else:
        ctx.violated('R7', fi, 'Axis.__getitem__', 'no path builds the sub-axis from self.values[item]')
    fi = ctx.fn('dimarray.core.axes.Axis.take')
    ev = run(ctx, fi)
    for p in ret_paths(ev):
        v = p.value
        ok = v[0] == 'call' and T.call_name(v) == 'Axis' and v[2][0][0] == 'call' and T.call_name(v[2][0]) == 'take' \
            and T.call_receiver(v[2][0]) in (('attr', SELF, 'values'), ('attr', SELF, '_values')) and v[2][0][2][:1] == (P_('indices'),) \
            and v[2][1] in (('attr', SELF, 'name'), ('attr', SELF, '_name'))
        if not ok:
            ctx.violated('R7', fi, 'return ' + T.show(v), 'Axis.take must return Axis(self.values.take(indices), self.name, ...)', node=p.node)
        else:
            ctx.holds('R7', 'Axis.take')


def rule_orthogonal_indexer(ctx, rid='R8'):
    """R8: kind-level abstract interpretation of orthogonal_indexer over all key patterns of length 1..4 on {int, full slice, partial slice, 1-d array}.
    NumPy's rule (trusted): when a key contains an array, integers count as advanced indices too; advanced indices separated by a slice move the
    advanced dimensions to the front.  Orthogonal (outer) indexing therefore needs (a) every array / partial slice converted by np.ix_ when more than
    one dimension is array-indexed, and (b) no slice left in the key strictly between two advanced entries."""
    import itertools
    from .. import absint
    from ..absint import Kind, Interp, Closure, Undecided, Raised
    ctx.rule(rid, 'orthogonal_indexer keeps the dimension order for every key pattern (length <= 4)', 300)
    fi = ctx.fn(IDX + 'orthogonal_indexer')
    mod = fi.module
    kind_types = {'INT': {'int', 'np.integer'}, 'FULL': {'slice'}, 'SL': {'slice'}, 'ARR': {'np.ndarray'}, 'IX': {'np.ndarray'}}
    nbad = 0
    nok = 0

    class Sized(Kind):
        # an index array that stands for a slice expanded against an axis of `size` labels
        __slots__ = ('size',)

        def __init__(self, name, size=None):
            Kind.__init__(self, name)
            self.size = size

    def ix_(args, kwargs):
        for a in args:
            if not isinstance(a, Kind):
                raise Undecided('np.ix_ on %r' % (a,))
        return [Sized('IX', getattr(a, 'size', None)) for a in args]

    def expand(args, kwargs):
        if not isinstance(args[1], int):
            raise Undecided('slice expanded against %r' % (args[1],))
        return Sized('ARR', args[1])

    def arange(args, kwargs):
        if len(args) == 3 and args[0] == 0 and args[2] == 1 and isinstance(args[1], int):
            return Sized('ARR', args[1])       # np.arange(*slice.indices(size))
        return Kind('ARR')
    def slice_indices(args, kwargs):
        if args[0].name not in ('SL', 'FULL'):
            raise Raised('AttributeError')       # only slices have .indices(length)
        return (0, args[1], 1)
    ext = {'canonicalize_indexer': lambda args, kw: tuple(args[0]), 'np.ix_': ix_, '_expand_slice': expand, 'np.arange': arange,
           'Kind.indices': slice_indices}
    for n in range(1, 7 if ctx.tier == 'thorough' else 5):          # thorough: key patterns up to 6 dimensions (5460 patterns)
        for pat in itertools.product(['INT', 'FULL', 'SL', 'ARR'], repeat=n):
            interp = Interp(ext, kind_types)
            env = {}
            for name, f in mod.functions.items():
                if name not in ext and name != fi.name:
                    env[name] = Closure(f.node, env, interp)
            key = tuple(Kind(k) for k in pat)
            shape = tuple(range(2, 2 + n))
            try:
                out = interp.call_function(fi.node, [key, shape], env)
            except Undecided as e:
                ctx.undecide(rid, 'orthogonal_indexer: %s (pattern %s)' % (e, pat))
                return
            except Raised as e:
                ctx.violated(rid, fi, 'pattern %s raises %s' % (','.join(pat), e.name), 'orthogonal_indexer raises %s for the index kinds (%s)' % (e.name, ', '.join(pat)))
                nbad += 1
                continue
            if not (isinstance(out, tuple) and len(out) == n and all(isinstance(k, Kind) for k in out)):
                ctx.undecide(rid, 'orthogonal_indexer returned %r for %s' % (out, pat))
                return
            res = [k.name for k in out]
            narr = sum(1 for k in pat if k in ('ARR', 'SL'))
            why = None
            for i, (a, b) in enumerate(zip(pat, res)):
                if a == 'INT' and b != 'INT':
                    why = 'an integer index (position %d) must stay an integer: it is what drops the dimension' % i
                if a == 'ARR' and b != 'IX' and sum(1 for k in pat if k == 'ARR') + sum(1 for k in res if k == 'IX') > 1:
                    why = 'array index at position %d is not converted by np.ix_ although another dimension is array-indexed: NumPy would pair the arrays element-wise' % i
                if a == 'FULL' and b not in ('FULL', 'IX'):
                    why = 'full slice changed into %s' % b
                if a in ('SL', 'FULL') and getattr(out[i], 'size', None) not in (None, shape[i]):
                    why = ('the slice at position %d is expanded against %d labels, its own axis has %d: slice.indices() clips against the wrong length and the '
                           'selection differs from what the slice denotes' % (i, out[i].size, shape[i]))
            if why is None and any(k in ('IX', 'ARR') for k in res):
                adv = [i for i, k in enumerate(res) if k in ('IX', 'ARR', 'INT')]
                for i, k in enumerate(res):
                    if k in ('FULL', 'SL') and adv and min(adv) < i < max(adv):
                        why = ('the slice at position %d is left between advanced indices (%s): NumPy moves the indexed dimensions to the front, so the values '
                               'come back transposed against the labels' % (i, ', '.join('%s@%d' % (res[j], j) for j in adv)))
                        break
            if why:
                nbad += 1
                if nbad <= 3:
                    ctx.violated(rid, fi, 'key kinds (%s) -> (%s)' % (', '.join(pat), ', '.join(res)), why)
            else:
                nok += 1
                ctx.holds(rid, '(%s) -> (%s)' % (','.join(pat), ','.join(res)))
    # the indexer is applied to the canonicalised key
    ev = run(ctx, fi, mode='join')
    if not any(T.call_name(e.a) == 'canonicalize_indexer' and e.a[2][:1] == (P_('key'),) for p in ev.paths for e in p.calls('canonicalize_indexer')):
        ctx.violated(rid, fi, 'canonicalize_indexer', 'the key must be canonicalised (booleans -> positions, scalars -> int) before it is classified')


def rule_expanded_indexer(ctx):
    """R9: abstract interpretation of expanded_indexer over keys of length 0..4 with 0..2 Ellipsis items and ndim 0..4"""
    import itertools
    from ..absint import Kind, Interp, Closure, Undecided, Raised
    ctx.rule('R9', 'expanded_indexer: Ellipsis expansion and padding', 100)
    fi = ctx.fn(IDX + 'expanded_indexer')
    kind_types = {'X': set(), 'ELLIPSIS': set(), 'FULL': {'slice'}}
    nbad = 0
    for ndim in range(0, 7 if ctx.tier == 'thorough' else 5):
        for n in range(0, 7 if ctx.tier == 'thorough' else 5):
            for pat in itertools.product(['X', 'ELLIPSIS'], repeat=n):
                if pat.count('ELLIPSIS') > 2:
                    continue
                items = [Kind('X%d' % i) if k == 'X' else Kind('ELLIPSIS') for i, k in enumerate(pat)]
                for it in items:
                    kind_types.setdefault(it.name, set())
                forms = [tuple(items)] + ([items[0]] if n == 1 and pat[0] == 'X' else [])
                for key in forms:
                    interp = Interp({}, kind_types)
                    # reference semantics
                    ne = pat.count('ELLIPSIS')
                    nx = n - ne
                    want = None
                    if ne == 0:
                        want = list(items) + [Kind('FULL')] * (ndim - n) if n <= ndim else 'IndexError'
                    else:
                        fill = ndim + 1 - n
                        exp = []
                        first = True
                        for it in items:
                            if it.name == 'ELLIPSIS':
                                exp.extend([Kind('FULL')] * (max(fill, 0) if first else 1))
                                first = False
                            else:
                                exp.append(it)
                        want = (exp + [Kind('FULL')] * (ndim - len(exp))) if len(exp) <= ndim else 'IndexError'
                    try:
                        out = interp.call_function(fi.node, [key, ndim], {})
                        got = list(out) if isinstance(out, tuple) else out
                    except Raised as e:
                        got = e.name
                    except Undecided as e:
                        ctx.undecide('R9', 'expanded_indexer: %s' % e)
                        return
                    if got != want:
                        nbad += 1
                        if nbad <= 3:
                            ctx.violated('R9', fi, 'key (%s), ndim=%d -> %s' % (', '.join(pat), ndim, got), 'expanded_indexer must expand the first Ellipsis to the missing '
                                         'full slices, keep the other items in order and pad with full slices to ndim entries (IndexError when too long): expected %s' % (want,))
                    else:
                        ctx.holds('R9', 'key (%s) ndim=%d' % (','.join(pat), ndim))


def rule_axis_argument(ctx, rid='R10'):
    """the numpy-like (indices, axis) form of _get_indices: for every kind of `axis` value the index is attached to that axis.
    The guard of the `indices = {axis: indices}` statement is evaluated over a finite table of axis values (abstract interpretation
    of one expression; nothing of the repository is executed)."""
    import ast
    from .. import absint
    ctx.rule(rid, '_get_indices: (indices, axis=k) is rewritten to {k: indices} for every k other than 0 / None (negative positions and names included)', 7)
    fi = ctx.fn(BASES + 'AbstractHasAxes._get_indices')
    axis_p = 'axis'
    site = None
    from ..rules import helper_nodes
    # (the statement may have moved into a helper extracted from _get_indices; `axis` keeps its name there or is passed positionally under another one)
    for hf in helper_nodes(ctx, fi):
      for node in ast.walk(hf.node):
        if isinstance(node, ast.If):
            for st in node.body:
                if isinstance(st, ast.Assign) and isinstance(st.value, ast.Dict) and len(st.value.keys) == 1 \
                        and isinstance(st.value.keys[0], ast.Name) and st.value.keys[0].id == axis_p:
                    site = node
    if site is None:
        ctx.undecide(rid, '_get_indices: the statement that rewrites (indices, axis) into {axis: indices} was not found')
        return
    # the statement must not be nested under another condition on axis
    for v, want in ((None, False), (0, False), (1, True), (2, True), (-1, True), (-2, True), ('x0', True)):
        it = absint.Interp({}, {})
        try:
            got = bool(it.truth(it.expr(site.test, {axis_p: v})))
        except absint.Undecided as e:
            ctx.undecide(rid, '_get_indices: guard `%s` not evaluable for axis=%r (%s)' % (ast.unparse(site.test), v, e))
            continue
        except absint.Raised as e:
            got = None
        if got != want:
            ctx.violated(rid, fi, 'axis=%r' % (v,), 'with axis=%r the guard `%s` is %s: %s' % (
                v, ast.unparse(site.test), got, 'the index is applied to the first dimension instead of dimension %r' % (v,) if want else
                'the plain index is wrapped although no axis was designated'), node=site)
        else:
            ctx.holds(rid, 'axis=%r -> %s' % (v, 'attached to that axis' if want else 'plain index'))


def rule_issorted_provenance(ctx, rid='R11'):
    """`issorted=True` makes locate_one / locate_many a bare np.searchsorted without the presence check, and locate_slice skip its ordering test: the claim
    must be the caller's own `issorted` argument or rest on an *increasing-order* test of the labels.  "Monotonic in either direction" (Axis._monotonic,
    is_monotonic()) is not enough: on a decreasing axis searchsorted returns garbage, and an absent label silently selects its neighbour."""
    from ..symeval import Evaluator
    from .. import forwarding as F
    ctx.rule(rid, 'every issorted= claim handed to the label-lookup routines is the caller\'s own option or an increasing-order test', 6)
    P = ctx.P
    names = {'loc', 'locate_one', 'locate_many', 'locate_slice', '_locate_slice_strict'}

    def first_last(t):
        subs = [x for x in T.subterms(t) if x[0] == 'sub' and x[2] in (const(0), const(-1))]
        return any(a[1] == b[1] and a[2] != b[2] for a in subs for b in subs)

    def justified(t, own):
        if t == own or t in (T.CONST_FALSE, T.CONST_NONE):
            return True
        if t[0] == 'cmp' and t[1] in ('<', '<=') and first_last(t):
            return True
        if t[0] == 'cmp' and t[1] == '==' and t[3] == const(0) and ((t[2][0] == 'attr' and t[2][2] == 'size') or (t[2][0] == 'call' and T.call_name(t[2]) == 'len')):
            return True          # an empty axis is sorted
        if t[0] == 'call' and T.dotted(t[1]) in ('np.all', 'all') and t[2] and t[2][0][0] == 'cmp' and any(x[0] == 'slice' for x in T.subterms(t[2][0])):
            return True
        if t[0] == 'boolop':
            parts = [justified(x, own) for x in t[2]]
            return any(parts) if t[1] == 'and' else all(parts)
        if t[0] == 'phi':
            return all(justified(x, own) for x in t[1] if x[0] != 'carried')
        if t[0] == 'ifexp':
            return justified(t[2], own) and justified(t[3], own)
        return False
    n = 0
    for fi in sorted(P.functions.values(), key=lambda f: f.qualname):
        if fi.file.startswith(('dimarray/io/', 'dimarray/convert/', 'dimarray/plotting', 'dimarray/prettyprinting')) or fi.parent is not None:
            continue
        if 'issorted' not in ast.unparse(fi.node) and not any(k in ast.unparse(fi.node) for k in ('.loc(', 'locate_')):
            continue
        try:
            ev = run(ctx, fi, mode='join', max_paths=100000)          # (renamed parameters of private functions are read under their old names)
        except AnalysisError:
            continue
        seen = set()
        own = P_('issorted')
        for p in ev.paths:
            for e in p.state.events:
                if e.kind != 'call' or id(e.node) in seen or T.call_name(e.a) not in names:
                    continue
                if T.call_name(e.a) == 'loc' and e.a[1][0] != 'attr':
                    continue
                seen.add(id(e.node))
                v, how = F.passed_value(P, e.a, 'issorted')
                if v is None:
                    continue
                n += 1
                if justified(v, own):
                    ctx.holds(rid, '%s -> %s(issorted=%s)' % (fi.qualname.replace('dimarray.', ''), T.call_name(e.a), T.show(v)[:50]))
                else:
                    ctx.violated(rid, fi, '%s(issorted=...) claim' % T.call_name(e.a), '%s is told issorted=%s: that is neither the caller\'s own `issorted` option nor an increasing-order test of the labels '
                                 '(a cached "monotonic" flag is also True for decreasing axes, and stale after relabelling): the lookup becomes a bare np.searchsorted without the '
                                 'presence check' % (T.call_name(e.a), T.show(v)[:80]), node=e.node)
    ctx.info('%s: %d issorted claims examined' % (rid, n))


def rule_empty_selection(ctx, rid='R12'):
    """"including repeated and empty selections": np.asarray([]) is a float64 array, and NumPy refuses float arrays as indices even when they are empty.
    The index normalisation of _get_indices converts list indices with np.asarray, so an empty one has to be re-typed as an integer array before it is
    used as a position (label lookups go through searchsorted and come back as integers)."""
    ctx.rule(rid, 'an empty list index is given an integer dtype before it is used positionally', 1)
    fi = ctx.fn(BASES + 'AbstractHasAxes._get_indices')
    ev = run(ctx, fi, mode='fork', max_paths=50000, bind={'indexing': const('position')})
    conv = None
    retyped = False
    for p in ev.paths:
        for e in p.events:
            if e.kind == 'call' and T.dotted(e.a[1]) in ('np.asarray', 'np.array') and e.loops and len(e.a[2]) == 1 and not T.kw(e.a, 'dtype'):
                conv = e
            if e.kind == 'call' and ((T.call_name(e.a) == 'astype' and e.a[2][:1] in ((('name', 'int'),), (const('int'),), (const('i'),))) or
                                     (T.dotted(e.a[1]) in ('np.asarray', 'np.array') and T.kw(e.a, 'dtype') in (('name', 'int'), const('int')))):
                if any(a[0] == 'cmp' and a[1] == '==' and a[3] == const(0) and ('size' in T.show(a[2]) or 'len(' in T.show(a[2])) and pol is True for a, pol in e.guards):
                    retyped = True
    # the same on the tolerance path of Axis.loc: positions collected element by element must come back as an integer array (a bare list is turned
    # into a float64 array by NumPy when it is empty)
    fl = ctx.fn(BASES + 'AbstractAxis.loc')
    evl = run(ctx, fl, mode='fork', max_paths=50000)
    nlist = 0
    for p in ret_paths(evl):
        v = p.value
        if v[0] in ('comp', 'list') or (v[0] == 'call' and T.dotted(v[1]) in ('list', 'tuple')):
            nlist += 1
            ctx.violated(rid, fl, 'return ' + T.show(v)[:120], 'a list of labels looked up with a tolerance (.nloc / tol=) comes back as a bare Python list of positions: for an empty '
                         'selection NumPy reads [] as a float64 index and raises IndexError (a.take([], axis=k, tol=t), a.nloc[[]]) although the same selection without '
                         'tolerance returns the empty array', node=p.node)
            break
        if v[0] == 'call' and T.dotted(v[1]) in ('np.array', 'np.asarray', 'np.fromiter') and v[2] and v[2][0][0] == 'comp':
            nlist += 1
            dt = T.kw(v, 'dtype') or (v[2][1] if len(v[2]) > 1 else None)
            if dt not in (('name', 'int'), const('int'), const('i'), ('attr', ('name', 'np'), 'intp'), ('attr', ('name', 'np'), 'int64')):
                ctx.violated(rid, fl, 'return ' + T.show(v)[:120], 'positions collected element by element must be given an integer dtype (an empty collection is float64 otherwise)',
                             node=p.node)
                break
    else:
        ctx.holds(rid, 'Axis.loc: positions found with a tolerance are returned as an integer array (%d path(s))' % nlist)
    if conv is None:
        ctx.undecide(rid, '_get_indices: the np.asarray conversion of list indices was not found')
    elif retyped:
        ctx.holds(rid, '_get_indices: empty index arrays are re-typed to int')
    else:
        ctx.violated(rid, fi, 'empty positional index keeps the float dtype of np.asarray([])', 'list indices are converted with np.asarray and an empty list becomes a float64 array: '
                     'a.ix[[]], a.take([], axis=k, indexing=\'position\') and put([], v, indexing=\'position\') raise IndexError / ValueError instead of selecting nothing '
                     '(the label spelling a[[]] works)', node=conv.node)


def rule_is_numeric(ctx, rid='R13'):
    """R13: the predicate that decides whether a tolerance applies (Axis.loc drops `tol` on non-numeric axes) and whether a slice bound is searched by
    value: True for integer and float label arrays, False for str / object ones.  Decided on a table of dtype kinds - an inverted or widened test silently
    ignores the tolerance on numeric axes, or applies np.abs(labels - value) to str labels."""
    from ..rules import val_eval, UNKNOWN
    ctx.rule(rid, 'is_numeric: numeric label kinds only (table over dtype kinds)', 2)
    want = {'i': True, 'f': True, 'U': False, 'O': False, 'S': False}
    for q in ('dimarray.tools.is_numeric', IDX + 'is_numeric'):
        fi = ctx.P.functions.get(q)
        if fi is None:
            continue
        ctx.functions.add(q)
        A = P_(fi.params[0])
        kind = ('attr', ('attr', A, 'dtype'), 'kind')
        bad = None
        for k, w in sorted(want.items()):
            env = {kind: k}

            def oracle(atom, st, _env=env):
                v_ = val_eval(atom, _env)
                return None if v_ is UNKNOWN else bool(v_)
            ev = run(ctx, fi, oracle=oracle)
            rets = ret_paths(ev)
            got = set()
            for p in rets:
                v_ = val_eval(p.value, env)
                got.add(UNKNOWN if v_ is UNKNOWN else bool(v_))
            if UNKNOWN in got or not got:
                ctx.undecide(rid, '%s: result for dtype kind %r cannot be evaluated' % (q, k))
                bad = 'undecided'
                break
            if got != {w} and bad is None:
                bad = (k, w)
        if bad == 'undecided':
            continue
        if bad:
            ctx.violated(rid, fi, 'is_numeric for dtype kind %r' % bad[0], 'is_numeric answers %s for labels of dtype kind %r: Axis.loc keeps a tolerance only on numeric axes '
                         '(so a.take(2.1, tol=0.2) on float labels would ignore the tolerance and raise, or the nearest-label search would be applied to str labels), and '
                         'label slices are searched by value only on numeric axes' % (not bad[1], bad[0]))
        else:
            ctx.holds(rid, '%s: True for i / f labels, False for U / O / S' % q.replace('dimarray.', ''))
    for q in (BASES + 'AbstractAxis.is_numeric',):
        fi = ctx.fn(q)
        ev = run(ctx, fi)
        if all(p.kind == 'return' and p.value == ('call', ('name', 'is_numeric'), (('attr', SELF, 'values'),), ()) for p in ev.paths):
            ctx.holds(rid, 'Axis.is_numeric() is is_numeric(self.values)')
        else:
            ctx.violated(rid, fi, 'Axis.is_numeric', 'Axis.is_numeric() must answer for the axis labels: is_numeric(self.values)')


def check(ctx):
    rule_is_numeric(ctx)
    rule_orthogonal_indexer(ctx)
    rule_expanded_indexer(ctx)
    rule_registry(ctx)
    rule_locate_one(ctx)
    rule_locate_many(ctx)
    rule_loc(ctx)
    rule_ortho(ctx)
    rule_bookkeeping(ctx)
    rule_subaxis(ctx)
    rule_axis_argument(ctx)
    rule_issorted_provenance(ctx)
    rule_empty_selection(ctx)
    ctx.not_decided += ['that argsort + searchsorted + clip returns the right position for every present label (NumPy semantics)',
                        'first-match choice for duplicate labels']
    ctx.trusted += ['numpy.where/argmin/argsort/searchsorted/take documented semantics', 'CPython ast module']
    return EXPLANATION
