"""C10 - rearranging dimensions preserves every element's label coordinates (structural clauses).

  R1 same permutation   transpose: the term given to values.transpose(P) is the term the axes comprehension iterates; P comes from
                        _get_axes_info(dims) (positions); swapaxes / rollaxis / T build a position list and delegate to transpose
                        (swapaxes: identity with the two resolved positions exchanged; rollaxis: np.rollaxis on a shape-labelled dummy)
  R2 insertion/removal  newaxis: values[(slice(None),)*pos + (np.newaxis,)] and axes.insert(pos, axis) share pos (-1 -> len(dims)), the
                        existing-name guard dominates; squeeze: values.squeeze(idx) and the axis filter share the resolution and only size-1
                        axes are removed; repeat: values.repeat(size(labels), idx) and newaxes[idx] = newaxis share idx, singleton guard
  R3 broadcast          reshape to the target names (ordered comparison for the early exit), then repeat *by name* every singleton axis whose
                        target is not singleton; broadcast_arrays = align_dims -> _get_axes (alignment check) -> broadcast on every array
  R4 axes as objects    results are built from the source's Axis objects / copies, never from re-derived labels; metadata carried
"""
import ast
from .. import terms as T
from ..terms import const
from ..rules import P_, run, ret_paths, raise_paths, exc_name, bind_call_args, default_of
from ..loader import AnalysisError

EXPLANATION = (
    "Structural clauses of C10: dimension-identity coherence on provenance terms - the permutation, insertion position, squeezed position and "
    "repeated position used on the values side is the same term as the one used on the axes side, for transpose, swapaxes, rollaxis, T, newaxis, "
    "squeeze, repeat; broadcast repeats singleton axes by name after an order-sensitive reshape; broadcast_arrays chains align_dims, the alignment "
    "check and broadcast; results carry the source's Axis objects and metadata. Element-wise equality and composition laws are not decided.")

SELF = P_('self')
RS = 'dimarray.core.reshape.'
AL = 'dimarray.core.align.'
VAL = (('attr', SELF, 'values'), ('attr', SELF, '_values'))


def is_cons(v):
    return v[0] == 'call' and T.call_name(v) == '_constructor' and T.call_receiver(v) == SELF and len(v[2]) == 2


def attrs_ok(v):
    return dict(v[3]).get('**') in (('attr', SELF, 'attrs'), ('attr', SELF, '_attrs'))


def rule_transpose(ctx):
    ctx.rule('R1', 'same permutation on values and axes', 5)
    fi = ctx.fn(RS + 'transpose')
    DIMS = P_('*dims')

    def oracle(atom, st):
        s = T.show(atom)
        if atom[0] == 'cmp' and atom[1] == '==' and 'len(' in s and atom[3] == const(1):
            return False
        if atom[0] == 'cmp' and atom[1] == '==' and 'len(' in s and atom[3] == const(0):
            return False
        if atom[0] == 'call' and T.call_name(atom) == 'len' and atom[2] == (DIMS,):       # `if not len(dims):` - dimensions are given in this scenario
            return True
        if atom == DIMS:
            return True
        return None
    ev = run(ctx, fi, oracle=oracle)
    n = 0
    for p in ret_paths(ev):
        v = p.value
        if not is_cons(v):
            ctx.violated('R1', fi, 'return ' + T.show(v)[:120], 'transpose must build self._constructor(values, axes, **self.attrs)', node=p.node)
            continue
        vals, axes = v[2]
        if not (vals[0] == 'call' and T.call_name(vals) == 'transpose' and T.call_receiver(vals) in VAL and len(vals[2]) == 1):
            ctx.violated('R1', fi, 'values = ' + T.show(vals)[:120], 'values must be permuted with self.values.transpose(P)', node=p.node)
            continue
        perm = vals[2][0]
        gai = ('call', ('attr', SELF, '_get_axes_info'), (DIMS,), ())
        if perm != ('item', gai, 0):
            ctx.violated('R1', fi, 'P = ' + T.show(perm)[:120], 'the permutation must be the positions returned by _get_axes_info(dims)', node=p.node)
            continue
        ok = axes[0] == 'comp' and axes[3][0][1] == perm and not axes[3][0][2] and axes[2] == ('sub', ('attr', SELF, 'axes'), ('elem', perm, axes[3][0][0]))
        if not ok:
            ctx.violated('R1', fi, 'axes = ' + T.show(axes)[:140], 'the axes must be permuted with the same list as the values: [self.axes[i] for i in P]', node=p.node)
            continue
        if not attrs_ok(v):
            ctx.violated('R4', fi, 'return ' + T.show(v)[:100], 'transpose carries the metadata', node=p.node)
            continue
        n += 1
    if n:
        ctx.holds('R1', 'transpose: values.transpose(P) and [axes[i] for i in P], P = positions from _get_axes_info')
    # default (no arguments): reversal for 2-D
    ev = run(ctx, fi, bind={'*dims': ('tuple', ())}, oracle=lambda a, st: None)
    # _get_axes_info
    gi = ctx.fn('dimarray.core.bases.AbstractHasAxes._get_axes_info')
    ev = run(ctx, gi)
    for p in ret_paths(ev):
        s = T.show(p.value)
        if '_get_axis_info' in s and 'zip' in s and p.value[0] == 'tuple' and p.value[1][0][0] == 'item' and p.value[1][0][2] == 0 and p.value[1][1][2] == 1:
            ctx.holds('R1', '_get_axes_info: (positions, names) from per-item _get_axis_info')
        else:
            ctx.violated('R1', gi, 'return ' + s[:140], '_get_axes_info must return (positions, names) of every requested axis in the given order', node=p.node)
    # swapaxes: the permutation it hands to transpose, for every rank 1-4 and every pair of positions (negative ones included), evaluated on the
    # syntax tree over concrete small integers (kind-level abstract interpretation; _get_axes_info passes integer positions through - C08-R1)
    from .. import absint
    fi = ctx.fn(RS + 'swapaxes')
    nsw = 0
    bad = None
    for ndim in range(1, 5):
        for a1 in range(-ndim, ndim):
            for a2 in range(-ndim, ndim):
                names = tuple('d%d' % k for k in range(ndim))

                def pos_of(x, ndim=ndim, names=names):
                    return names.index(x) if isinstance(x, str) else x

                def norm(perm, ndim=ndim, names=names):
                    # what transpose() is handed, as non-negative positions (it accepts names and positions counted from the end alike)
                    if perm is None:
                        return None
                    return [(pos_of(x) % ndim) if isinstance(pos_of(x), int) and not isinstance(pos_of(x), bool) else x for x in perm]
                ext = {'self._get_axes_info': lambda args, kw: ([pos_of(x) for x in args[0]], [names[pos_of(x) % ndim] for x in args[0]]),
                       'self._get_axis_info': lambda args, kw: (pos_of(args[0]), names[pos_of(args[0]) % ndim]),
                       'transpose': lambda args, kw: ('PERM', norm(list(args[1])) if len(args) > 1 else None),
                       'self.transpose': lambda args, kw: ('PERM', norm(list(args[0]) if len(args) == 1 and isinstance(args[0], (list, tuple)) else list(args)) if args else None)}
                it = absint.Interp(ext, {})
                try:
                    out = it.call_function(fi.node, ['SELF', a1, a2], {'self.ndim': ndim, 'self': 'SELF', 'self.dims': names})
                except absint.Undecided as e:
                    ctx.undecide('R1', 'swapaxes not evaluable: %s' % e)
                    bad = 'undecided'
                    break
                except absint.Raised as e:
                    out = ('RAISED', e.name)
                want = list(range(ndim))
                want[a1 % ndim], want[a2 % ndim] = want[a2 % ndim], want[a1 % ndim]
                nsw += 1
                if not (isinstance(out, tuple) and out[0] == 'PERM' and out[1] == want) and bad is None:
                    bad = (ndim, a1, a2, out[1] if isinstance(out, tuple) else out, want)
            if bad == 'undecided':
                break
        if bad == 'undecided':
            break
    if bad and bad != 'undecided':
        ndim, a1, a2, got, want = bad
        ctx.violated('R1', fi, 'swapaxes permutation', 'on a %d-d array swapaxes(%d, %d) hands the permutation %s to transpose, expected %s: a position counted from the end is '
                     'compared with range(ndim) indices and never matches (silent no-op, or "repeated axis")' % (ndim, a1, a2, got, want), node=fi.node)
    elif not bad:
        ctx.holds('R1', 'swapaxes: identity with the two positions exchanged for every rank 1-4 and every pair of positions, negative included (%d cases)' % nsw)
    # rollaxis
    fi = ctx.fn(RS + 'rollaxis')
    ev = run(ctx, fi)
    for p in ret_paths(ev):
        v = p.value
        pos = ('item', ('call', ('attr', SELF, '_get_axis_info'), (P_('axis'),), ()), 0)
        fake = ('call', ('attr', ('name', 'np'), 'ones'), (('call', ('name', 'range'), (('attr', SELF, 'ndim'),), ()),), ())
        want = ('attr', ('call', ('attr', ('name', 'np'), 'rollaxis'), (fake, pos, P_('start')), ()), 'shape')
        ok = v[0] == 'call' and T.call_name(v) == 'transpose' and T.call_receiver(v) == SELF and v[2] == (want,)
        if not ok:
            # the permutation is computed some other way: read it off the interpreted scenarios (every axis position and name against start positions before, at and after it,
            # negative ones and ndim included, on 3-d and 4-d arrays) - np.rollaxis semantics are in the frozen outcomes
            from ..scenario_rule import rule_scenarios
            rule_scenarios(ctx, 'R1', only=RS + 'rollaxis', title='rollaxis permutes with numpy.rollaxis semantics (interpreted scenarios)')
            break
        else:
            ctx.holds('R1', 'rollaxis: np.rollaxis on a shape-labelled dummy, resolved position')
    # T
    m = ctx.P.lookup(ctx.P.cls('dimarray.core.dimarraycls.DimArray'), 'T')
    fi = m.value['fget']
    ctx.functions.add(fi.qualname)
    ev = run(ctx, fi)
    for p in ev.paths:
        if p.value != ('call', ('attr', SELF, 'transpose'), (), ()):
            ctx.violated('R1', fi, 'return ' + T.show(p.value)[:80], 'T is transpose() without arguments', node=p.node)
        else:
            ctx.holds('R1', 'T -> transpose()')
    for name in ('transpose', 'swapaxes', 'rollaxis', 'newaxis', 'squeeze', 'repeat', 'broadcast', 'reshape', 'flatten', 'unflatten'):
        mm = ctx.P.lookup(ctx.P.cls('dimarray.core.dimarraycls.DimArray'), name)
        r = ctx.P.resolve_member(mm) if mm else None
        if not (r and r[0] == 'func' and r[1].qualname == RS + name):
            ctx.violated('R1', 'dimarray.core.dimarraycls.DimArray', 'DimArray.' + name, 'DimArray.%s must be reshape.%s' % (name, name))


def rule_insert_remove(ctx):
    ctx.rule('R2', 'newaxis / squeeze / repeat position coherence', 3)
    # ---- newaxis
    fi = ctx.fn(RS + 'newaxis')
    NAME, POS = P_('name'), P_('pos')
    from ..rules import int_eval, bool_eval
    NDIM = ('call', ('name', 'len'), (('attr', SELF, 'dims'),), ())
    ev = run(ctx, fi, bind={'values': T.CONST_NONE})
    shapes = []          # (path, position term used for the values, position term used for the axes)
    for p in ret_paths(ev):
        v = p.value
        if not is_cons(v):
            ctx.violated('R2', fi, 'return ' + T.show(v)[:100], 'newaxis must build self._constructor(values, axes, **self.attrs)', node=p.node)
            continue
        vals, axes = v[2]
        key = vals[2] if vals[0] == 'sub' and vals[1] in VAL else None
        okk = key is not None and key[0] == 'binop' and key[1] == '+' and key[3] == ('tuple', (('attr', ('name', 'np'), 'newaxis'),)) \
            and key[2][0] == 'binop' and key[2][1] == '*' and key[2][2] == ('tuple', (('call', ('name', 'slice'), (T.CONST_NONE,), ()),))
        if not okk:
            ctx.violated('R2', fi, 'values = ' + T.show(vals)[:140], 'the singleton dimension must be inserted in the values by values[(slice(None),)*k + (np.newaxis,)]', node=p.node)
            continue
        vpos = key[2][3]
        ok = axes[0] == 'mut' and axes[2] == 'insert' and axes[1] == ('call', ('attr', ('attr', SELF, 'axes'), 'copy'), (), ()) \
            and axes[3][1][0] == 'call' and T.call_name(axes[3][1]) == 'Axis' and axes[3][1][2][1] == NAME
        if not ok:
            ctx.violated('R2', fi, 'axes = ' + T.show(axes)[:140], 'the new axis must be inserted into a copy of the axes, under the given name', node=p.node)
            continue
        g = [pol for a, pol in p.guards if a == ('cmp', 'in', NAME, ('attr', SELF, 'dims'))]
        if g != [False]:
            ctx.violated('R2', fi, 'existing-name guard', 'newaxis must refuse a name that is already a dimension', node=p.node)
            continue
        if not attrs_ok(v):
            ctx.violated('R4', fi, 'return', 'newaxis carries the metadata', node=p.node)
            continue
        shapes.append((p, vpos, axes[3][0]))
    # bounded check: for every array rank and every position (negative ones count from the end of the *new* array) the index given to NumPy and
    # the list position given to Axes.insert denote the same slot
    bad = None
    covered = 0
    for ndim in range(0, 5):
        for pos in range(-ndim - 1, ndim + 1):
            atoms = {POS: pos, NDIM: ndim, ('attr', SELF, 'ndim'): ndim}
            for p, vpos, apos in shapes:
                feas = True
                for a, pol in p.guards:
                    if T.contains(a, POS) and not any(x[0] == 'call' and T.dotted(x[1]) in ('type', 'isinstance') for x in T.subterms(a)):
                        r = bool_eval(a, atoms)
                        if r is None:
                            feas = None
                            break
                        if r != pol:
                            feas = False
                            break
                if feas is None:
                    ctx.undecide('R2', 'newaxis: a guard on pos is not evaluable')
                    return
                if not feas:
                    continue
                kv, ka = int_eval(vpos, atoms), int_eval(apos, atoms)
                if kv is None or ka is None:
                    ctx.undecide('R2', 'newaxis: position terms %s / %s not evaluable' % (T.show(vpos), T.show(apos)))
                    return
                covered += 1
                want = pos if pos >= 0 else ndim + 1 + pos
                in_values = max(kv, 0)                                   # (slice(None),) * negative == ()
                in_axes = min(ka, ndim) if ka >= 0 else max(ndim + ka, 0)    # list.insert semantics
                if in_values > ndim:
                    continue                                             # NumPy refuses: too many indices
                if in_values != in_axes and bad is None:
                    bad = (ndim, pos, in_values, in_axes, want)
    if bad:
        ndim, pos, iv, ia, want = bad
        ctx.violated('R2', fi, 'newaxis position', 'on a %d-d array newaxis(pos=%d) inserts the singleton dimension at position %d of the values but the new Axis at position %d of '
                     'the axes (a position counted from the end should denote slot %d in both): labels no longer belong to their data, or the constructor raises' % (ndim, pos, iv, ia, want), node=fi.node)
    elif shapes:
        ctx.holds('R2', 'newaxis: values and axes use the same slot for every rank 0-4 and every position, negative ones included (%d cases)' % covered)
    ev = run(ctx, fi, facts={T.mkcmp('is', P_('values'), T.CONST_NONE): False})
    for p in ret_paths(ev):
        v = p.value
        recv = T.call_receiver(v) if v[0] == 'call' else None
        inserted = [x[3][0] for x in T.subterms(recv) if x[0] == 'mut' and x[2] == 'insert'] if recv else []
        if not (v[0] == 'call' and T.call_name(v) == 'repeat' and v[2][:1] == (P_('values'),) and T.kw(v, 'axis') is not None and T.kw(v, 'axis') in inserted):
            ctx.violated('R2', fi, 'return ' + T.show(v)[:120], 'with values= the new axis must be repeated along the inserted position', node=p.node)
    # ---- squeeze: which dimensions go (all singletons / the one asked for, which must be a singleton) and that values and axes lose the same ones is decided by
    # interpreting squeeze on abstract arrays of known shape (ndarray.squeeze modelled on the shape: positions normalised, non-singleton refused) - for axis=None,
    # positions, negative positions and names, on 1-d to 3-d arrays with singletons in every place
    from ..scenario_rule import rule_scenarios
    rule_scenarios(ctx, 'R2', only=RS + 'squeeze', title='newaxis / squeeze / repeat position coherence - squeeze by interpretation')
    gai = ('call', ('attr', SELF, '_get_axis_info'), (P_('axis'),), ())
    # ---- repeat
    fi = ctx.fn(RS + 'repeat')
    VALUES = P_('values')
    ev = run(ctx, fi, oracle=lambda a, st: (False if (a[0] == 'cmp' and a[1] == 'is' and a[3] == ('name', 'int')) else
                                           False if a == T.mkcmp('is', P_('axis'), T.CONST_NONE) else None))
    idx, name = ('item', gai, 0), ('item', gai, 1)
    n = 0
    for p in ret_paths(ev):
        v = p.value
        if not is_cons(v):
            ctx.violated('R2', fi, 'return ' + T.show(v)[:100], 'repeat must build self._constructor(values, axes, **self.attrs)', node=p.node)
            continue
        vals, axes = v[2]
        okv = vals[0] == 'call' and T.call_name(vals) == 'repeat' and T.call_receiver(vals) in VAL and len(vals[2]) == 2 \
            and vals[2][0] == ('call', ('attr', ('name', 'np'), 'size'), (VALUES,), ()) and vals[2][1] == idx
        if not okv:
            ctx.violated('R2', fi, 'values = ' + T.show(vals)[:140], 'values must be repeated np.size(labels) times along the resolved position', node=p.node)
            continue
        # a fresh list of the axes ([ax for ax in self.axes] and list(self.axes) are one term) with the repeated position replaced
        oka = axes[0] == 'setitem' and axes[2] == idx and axes[1] in (('call', ('name', 'list'), (('attr', SELF, 'axes'),), ()),
                                                                     ('call', ('attr', ('attr', SELF, 'axes'), 'copy'), (), ()))
        if oka:
            from ..rules import alternatives
            for new, extra in alternatives(axes[3]):          # (an if statement and a conditional expression read the same)
                isax = [pol for a, pol in tuple(p.guards) + tuple(extra) if a[0] == 'call' and T.dotted(a[1]) == 'isinstance' and a[2] == (VALUES, ('name', 'Axis'))]
                if not ((new == VALUES and isax == [True]) or (new == ('call', ('name', 'Axis'), (VALUES, name), ()) and isax == [False])):
                    oka = False
        if not oka:
            ctx.violated('R2', fi, 'axes = ' + T.show(axes)[:160], 'the axis at the same position must become the axis made of the given labels (same name)', node=p.node)
            continue
        single = [pol for a, pol in p.guards if a[0] == 'cmp' and a[1] == '==' and a[3] == const(1) and 'size' in T.show(a[2])]
        if single != [True]:
            ctx.violated('R2', fi, 'singleton guard', 'only singleton axes may be repeated', node=p.node)
            continue
        if not attrs_ok(v):
            ctx.violated('R4', fi, 'return', 'repeat carries the metadata', node=p.node)
            continue
        n += 1
    if n:
        ctx.holds('R2', 'repeat: values.repeat(size(labels), idx), newaxes[idx] = axis of the labels, singleton guard')
    else:
        ctx.violated('R2', fi, 'repeat', 'no coherent returning path')


def rule_broadcast(ctx):
    ctx.rule('R3', 'broadcast / broadcast_arrays / align_dims / reshape early exit', 5)
    fi = ctx.fn(RS + 'broadcast')
    OTHER = P_('other')
    ev = run(ctx, fi, mode='join', oracle=lambda a, st: (True if (a[0] == 'call' and T.dotted(a[1]) == 'isinstance' and a[2] == (OTHER, ('name', 'list'))) else
                                                        True if (a[0] == 'call' and T.dotted(a[1]) == 'isinstance' and 'newaxes' not in T.show(a) and a[2][1] == ('name', 'Axis')) else None))
    okb = False
    for p in ret_paths(ev):
        rs = [e.a for e in p.calls('reshape')]
        rp = [e for e in p.calls('repeat')]
        if len(rs) != 1 or T.call_receiver(rs[0]) != SELF:
            ctx.violated('R3', fi, 'reshape step', 'broadcast first reshapes the array to the target dimension names', node=p.node)
            continue
        arg = rs[0][2][0]
        if not (arg[0] == 'comp' and arg[2][0] == 'attr' and arg[2][2] == 'name' and arg[3][0][1] == OTHER):
            ctx.violated('R3', fi, T.show(rs[0])[:120], 'the reshape target is the list of target axis names, in order', node=p.node)
            continue
        if len(set(id(e.node) for e in rp)) != 1:
            ctx.violated('R3', fi, 'repeat step', 'singleton axes must be repeated to the target size', node=p.node)
            continue
        e = rp[0]
        c = e.a
        tgt = c[2][0][1] if (c[2] and c[2][0][0] == 'attr') else None
        if not (tgt is not None and tgt[0] == 'elem' and c[2][0] == ('attr', tgt, 'values') and T.kw(c, 'axis') == ('attr', tgt, 'name')):
            ctx.violated('R3', fi, e.node, 'each singleton axis is repeated with the labels of the target axis of the same *name*', node=e.node)
            continue
        g_single = [pol for a, pol in e.guards if a[0] == 'cmp' and a[1] == '==' and a[3] == const(1) and a[2][0] == 'attr' and a[2][2] == 'size'
                    and a[2][1][0] == 'sub' and a[2][1][2] == ('attr', tgt, 'name')]
        g_target = [pol for a, pol in e.guards if a == T.mkcmp('==', ('attr', tgt, 'size'), const(1))]
        if g_single != [True] and True not in g_single:
            ctx.violated('R3', fi, e.node, 'repeat exactly the axes that are singleton in the array (looked up by name)', node=e.node)
            continue
        # a dimension that reshape() had to insert carries the dummy label None: it must take the target's label even when the target axis has a single
        # label (a repeat of one) - a guard `target.size != 1` alone leaves the None label in the result
        evf = run(ctx, fi, mode='fork', oracle=lambda a, st: (False if (a[0] == 'call' and T.dotted(a[1]) == 'isinstance' and a[2][1] in (('name', 'list'), ('name', 'OrderedDict'))) else
                                                              True if (a[0] == 'call' and T.dotted(a[1]) == 'isinstance') else None))
        covers_single_target = False
        overwrites_real = None
        for q in evf.paths:
            for e2 in q.calls('repeat'):
                gt = [pol for a, pol in e2.guards if a[0] == 'cmp' and a[1] == '==' and a[3] == const(1) and a[2][0] == 'attr' and a[2][2] == 'size' and a[2][1][0] == 'elem']
                none = [pol for a, pol in e2.guards if a[0] == 'cmp' and a[1] == 'is' and a[3] == T.CONST_NONE and pol is True]
                if none and (True in gt or not gt):
                    covers_single_target = True
                if not (False in gt or none):
                    overwrites_real = e2
        if overwrites_real is not None:
            ctx.violated('R3', fi, 'own label of a singleton axis replaced', 'a size-1 axis of the array is relabelled with the target\'s labels whatever its own label is: an array '
                         'with x = [5] broadcast onto x = [7] comes back labelled 7 (only the None placeholder of an inserted dimension, or a repeat to a longer axis, may '
                         'replace the label)', node=overwrites_real.node)
            continue
        if not covers_single_target:
            ctx.violated('R3', fi, 'placeholder label kept for a single-label target', 'the inserted dimension is relabelled only when the target axis has more than one label '
                         '(guard target.size != 1): broadcasting onto Axis([42], \'s\') leaves the dummy label None instead of 42, and broadcast_arrays returns arrays with different axes',
                         node=e.node)
            continue
        # decision table of the repeat step over (own axis is size 1, target axis is size 1, own label is the None placeholder):
        # repeat <=> size-1 and (the target is longer, or the label is the placeholder)
        def classify(a):
            if a[0] == 'cmp' and a[1] in ('==', '!=') and a[3] == const(1) and a[2][0] == 'attr' and a[2][2] == 'size':
                return ('S' if a[2][1][0] == 'sub' else 'T' if a[2][1][0] == 'elem' else None), a[1] == '!='
            if a[0] == 'cmp' and a[1] in ('is', 'is not') and a[3] == T.CONST_NONE:
                return 'N', a[1] == 'is not'
            return None, False
        reps = []
        for q in evf.paths:
            for e2 in q.calls('repeat'):
                g = []
                for a, pol in e2.guards:
                    k, neg = classify(a)
                    if k:
                        g.append((k, pol != neg))
                if g not in reps:
                    reps.append(g)
        wrong = None
        for S_ in (True, False):
            for T_ in (True, False):
                for N_ in ((True, False) if S_ else (False,)):
                    asg = {'S': S_, 'T': T_, 'N': N_}
                    does = any(all(asg[k] == v for k, v in g) for g in reps)
                    want = S_ and ((not T_) or N_)
                    if does != want and wrong is None:
                        wrong = (asg, does, want)
        if wrong is not None:
            asg, does, want = wrong
            ctx.violated('R3', fi, 'repeat decision', 'for an axis of the array with size %s 1, a target axis of size %s 1 and an own label that %s the None placeholder, the axis is %s '
                         'but must %s (a labelled size-1 axis is repeated along a longer target axis just like an inserted one: NumPy broadcasting)'
                         % ('==' if asg['S'] else '!=', '==' if asg['T'] else '!=', 'is' if asg['N'] else 'is not', 'repeated' if does else 'not repeated',
                            'be repeated' if want else 'be left alone'), node=e.node)
            continue
        okb = True
    if okb:
        ctx.holds('R3', 'broadcast: reshape(target names) then repeat singleton axes by name (decision table over size-1 / target size-1 / placeholder)')
    # reshape early exit is order sensitive
    fi = ctx.fn(RS + 'reshape')
    ev = run(ctx, fi, mode='fork', max_paths=20000,
             oracle=lambda a, st: (False if (a[0] == 'cmp' and a[1] == '==' and 'len(' in T.show(a) and a[3] == const(1)) else None))
    early = [p for p in ret_paths(ev) if p.value == SELF]
    if not early:
        ctx.info('reshape has no early exit')
        ctx.holds('R3', 'reshape: no early exit')
    for p in early:
        last = p.guards[-1] if p.guards else None
        ok = last is not None and last[1] is True and last[0][0] == 'cmp' and last[0][1] == '==' and \
            {T.show(last[0][2]), T.show(last[0][3])} in ({'tuple(*newdims)', 'self.dims'}, {'tuple(*newdims[0])', 'self.dims'})
        if not ok:
            ctx.violated('R3', fi, 'early return self', 'reshape may only return the array unchanged when the requested dimensions equal self.dims *in order* '
                         '(tuple(newdims) == self.dims); a set comparison skips the transposition that broadcast relies on', node=p.node,
                         witness=['guard: ' + (T.show(last[0])[:120] if last else 'none')])
            break
    else:
        if early:
            ctx.holds('R3', 'reshape early exit only for tuple(newdims) == self.dims')
    # align_dims
    fi = ctx.fn(AL + 'align_dims')
    ARR = P_('*arrays')
    ev = run(ctx, fi, mode='join')
    oka = False
    for p in ret_paths(ev):
        for e in p.calls('reshape'):
            c = e.a
            if T.call_receiver(c) == ('elem', ARR, T.call_receiver(c)[2] if T.call_receiver(c)[0] == 'elem' else None) and \
                    c[2] == (('call', ('name', 'get_dims'), (('star', ARR),), ()),):
                oka = True
    if oka:
        ctx.holds('R3', 'align_dims: every array reshaped to get_dims(*arrays)')
    else:
        ctx.violated('R3', fi, 'align_dims', 'every array must be reshaped to the ordered union of the dimension names')
    # broadcast_arrays
    fi = ctx.fn(AL + 'broadcast_arrays')
    ev = run(ctx, fi, mode='join')
    okc = False
    for p in ret_paths(ev):
        ad = [e.a for e in p.calls('align_dims')]
        ga = [e.a for e in p.calls('_get_axes')]
        bc = [e.a for e in p.calls('broadcast')]
        if len(ad) == 1 and len(ga) == 1 and bc and ad[0][2] == (('star', ARR),) and ga[0][2] == (('star', ad[0]),) \
                and all(c[2] == (ga[0],) and T.call_receiver(c)[0] == 'elem' and T.call_receiver(c)[1] == ad[0] for c in bc):
            okc = True
    if okc:
        ctx.holds('R3', 'broadcast_arrays: align_dims -> _get_axes -> broadcast(axes) for every array')
    else:
        ctx.violated('R3', fi, 'broadcast_arrays', 'broadcast_arrays must chain align_dims, the alignment check _get_axes and broadcast on every array')
    # _get_axes raises for misaligned non-singleton axes; which axis it picks per dimension.  Two readings: the structural one (guards of the raising path, decision
    # table of the update test) and the interpretation of _get_axes on abstract arrays (scenario table: equal / differing labels, single label, placeholder, empty axis
    # in both orders, three arrays, missing dimensions).  The structural reading counts when it ends without a complaint; otherwise the table decides.
    from ..report import Trial
    real_ctx, ctx = ctx, Trial(ctx, about=[AL + '_get_axes'])
    try:
        _get_axes_structural(ctx)
    except AnalysisError as e:
        ctx.complaints.append(str(e)[:80])
    trial, ctx = ctx, real_ctx
    if not trial.complaints:
        trial.commit()
    else:
        trial.discard()
        from ..scenario_rule import rule_scenarios
        rule_scenarios(ctx, 'R3', only=AL + '_get_axes', title='_get_axes: common axis per dimension, misaligned full axes refused (by interpretation; the structural reading gave up on: %s)' % '; '.join(trial.complaints[:2]))


def _get_axes_structural(ctx):
    fi = ctx.fn(AL + '_get_axes')
    ev = run(ctx, fi, mode='join')
    raises = [p for p in raise_paths(ev) if exc_name(p.value) == 'ValueError']
    okg = False
    for p in raises:
        single = [pol for a, pol in p.guards if a[0] == 'cmp' and a[1] == '==' and a[3] == const(1) and 'size' in T.show(a[2])]
        same = [pol for a, pol in p.guards if a[0] == 'call' and T.dotted(a[1]) == 'np.all' and '.values ==' in T.show(a)]
        byname = any(a[0] == 'cmp' and a[1] == 'in' and 'dims' in T.show(a[3]) and pol for a, pol in p.guards)
        if single and single[-1] is False and same == [False] and byname:
            okg = True
    if okg:
        ctx.holds('R3', '_get_axes raises for non-singleton axes that differ from the common one')
    else:
        ctx.violated('R3', fi, '_get_axes', '_get_axes must raise ValueError when a non-singleton axis differs from the common axis of that name')
    rule_common_axis_choice(ctx, fi)


def rule_common_axis_choice(ctx, fi):
    """_get_axes picks, per dimension, the axis every array is broadcast onto: a decision table of its update test over the kinds of the axis chosen so far
    (none yet / None placeholder of an inserted dimension / one real label / empty / several labels) and of the next array's axis. Required: the first axis is
    taken; a placeholder gives way to any real axis (whatever its length, so that the result does not depend on the argument order); a single label gives way
    to several; a real axis never gives way to a placeholder, several labels never to one."""
    from ..rules import expr_term, val_eval, UNKNOWN
    from ..rules import helper_nodes
    test = None
    home = fi
    for f_ in helper_nodes(ctx, fi):
      for node in ast.walk(f_.node):
        if isinstance(node, ast.If) and any(isinstance(b, ast.Assign) and len(b.targets) == 1 and isinstance(b.targets[0], ast.Name) and isinstance(b.value, ast.Name)
                                            for b in node.body):
            for b in node.body:
                if isinstance(b, ast.Assign) and isinstance(b.value, ast.Name) and isinstance(b.targets[0], ast.Name):
                    test = (node, b.targets[0].id, b.value.id)
                    home = f_
    if test is None:
        ctx.undecide('R3', '_get_axes: the update `if <test>: common_axis = axis` was not found')
        return
    node, cname, aname = test
    t = expr_term(ctx, home, node.test)
    C, A = ('name', cname), ('name', aname)
    kinds = {'placeholder': (1, None), 'one label': (1, 's'), 'empty': (0, UNKNOWN), 'several labels': (3, 'p')}

    def env_of(ck, ak):
        env = {}
        if ck == 'none yet':
            env[C] = None
        else:
            size, first = kinds[ck]
            env[('attr', C, 'size')] = size
            env[('call', ('name', 'len'), (C,), ())] = size
            if first is not UNKNOWN:
                env[('sub', ('attr', C, 'values'), const(0))] = first
        size, first = kinds[ak]
        env[('attr', A, 'size')] = size
        env[('call', ('name', 'len'), (A,), ())] = size
        if first is not UNKNOWN:
            env[('sub', ('attr', A, 'values'), const(0))] = first
        return env

    class _Obj(object):
        pass
    want = {}
    for ak in kinds:
        want[('none yet', ak)] = True
    for ak in ('one label', 'empty', 'several labels'):
        want[('placeholder', ak)] = True
    want[('one label', 'several labels')] = True
    for ck in ('one label', 'empty', 'several labels'):
        want[(ck, 'placeholder')] = False
    want[('several labels', 'one label')] = False
    bad = None
    n = 0
    for (ck, ak), w in sorted(want.items()):
        env = env_of(ck, ak)
        if ck != 'none yet':
            env[C] = _Obj()             # an object that is not None
        got = val_eval(t, env)
        n += 1
        if got is UNKNOWN:
            ctx.undecide('R3', '_get_axes: update test %s not evaluable for (%s, %s)' % (T.show(t)[:80], ck, ak))
            return
        if bool(got) != w and bad is None:
            bad = (ck, ak, bool(got))
    if bad is not None:
        ck, ak, got = bad
        ctx.violated('R3', fi, 'common axis: %s then %s' % (ck, ak), 'when the axis chosen so far is "%s" and the next array brings "%s", the common axis is %s but must %s: '
                     'broadcast_arrays(x, y) with y owning a labelled size-1 (or empty) dimension that x lacks labels x\'s new dimension with the None placeholder of '
                     'align_dims instead of y\'s label - the two results differ and depend on the argument order' % (ck, ak, 'replaced' if got else 'kept', 'be kept' if got else 'be replaced'),
                     node=node)
    else:
        ctx.holds('R3', '_get_axes: common-axis choice table (%d cases): placeholder gives way to any real axis, one label to several' % n)


def rule_axes_objects(ctx):
    ctx.rule('R4', 'axes travel as objects; metadata kept', 1)
    # no Axis(...) built from labels of another dimension in the rearranging functions, except the documented ones
    allowed = {RS + 'repeat': 'axis made of the given labels', RS + 'newaxis': 'dummy [None] axis', RS + 'broadcast': 'OrderedDict target form',
               RS + 'flatten': 'MultiAxis of the member axes'}
    ok = True
    for name in ('transpose', 'swapaxes', 'rollaxis', 'squeeze', 'unflatten'):
        fi = ctx.fn(RS + name)
        ev = run(ctx, fi, mode='join')
        for p in ev.paths:
            for e in p.calls('Axis'):
                ctx.violated('R4', fi, e.node, '%s must move the existing Axis objects, not rebuild axes from labels' % name, node=e.node)
                ok = False
    if ok:
        ctx.holds('R4', 'transpose / swapaxes / rollaxis / squeeze / unflatten construct no new Axis')


def check(ctx):
    rule_transpose(ctx)
    rule_insert_remove(ctx)
    rule_broadcast(ctx)
    rule_axes_objects(ctx)
    # "the array's metadata is kept": provenance rule of C16 restricted to the arrangement operations
    from . import c16
    from ..report import Renamed
    # broadcast / align_dims / broadcast_arrays line dimensions up with reshape(): its pipeline rules (shared with C11)
    from . import c11
    ctx.rule('R9', 'reshape pipeline behind broadcast (shared with C11)', 3)
    c11.rule_reshape(Renamed(ctx, {'*': 'R9'}))
    c16.rule_carried(Renamed(ctx, {'*': 'R8'}), only=['transpose', 'swapaxes', 'rollaxis', 'newaxis', 'squeeze', 'repeat', 'broadcast', 'reshape'])
    ctx.not_decided += ['element-wise equality', 'composition laws (transpose(p).transpose(p^-1) == a)', 'numpy.rollaxis / repeat / squeeze semantics']
    ctx.trusted += ['ndarray.transpose / repeat / squeeze and np.rollaxis documented semantics']
    return EXPLANATION
