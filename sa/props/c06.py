"""C06 - align() is a set union / intersection that neither invents nor loses data (structural clauses).

  R1 set algebra      Axis.union covers each of A\\B, A&B, B\\A exactly once on every branch; Axis.intersection is A&B once,
                      in A's stored order (label-set region algebra over isin / mask / concatenate / union1d terms)
  R2 join dispatch    _common_axis folds over all axes, 'outer' -> union, otherwise intersection; _get_aligned_axes collects,
                      per dimension name, exactly the arrays that have it
  R3 reindex step     align(): every array that has the dimension and whose axis differs is replaced by o.reindex_axis(ax), with
                      `o` the current list element (no stale alias across the axes loop); arrays lacking it are skipped; the
                      caller's list is copied before element replacement
  R4 ownership        the axis that receives .sort() under sort=True is a fresh deep copy, never an input's own Axis
  R5 sort ascending   Axis.sort forwards to ndarray.sort (no reversal) and marks the axis monotonic; called without arguments
  R6 environment      NumPy names reachable from align() resolve in the pinned NumPy
  R7 reindex pipeline (shared with C07)
  R8 merge cast       _check_axes_merge leaves an operand uncast only when its kind is the common kind, and casts with a full-width
                      dtype (never a bare kind character: 'f' as a dtype is float32, 'i' is int32)
  R10 union direction every pair of directions (increasing / decreasing / single label) x relative placement of the ranges: two monotonic
                      operands with compatible directions are merged by np.union1d, reversed iff the common direction is decreasing
  R11 empty label sets first / last labels are read only under a size guard (_common_axis, union, intersection); reindexing from an
                      empty source axis (np.take from empty raises) must be guarded
  R12 datasets        Dataset.reindex_axis (used when a Dataset is in the list) against DimArray.reindex_axis (rule shared with C14)
  R13 fold direction  the union direction table (R10) composed over the right fold of _common_axis (R2) for every sequence of 3-4 operand directions
  R9 common kind      _get_cast_kind evaluated on every pair of kinds: equal -> same, object wins, float over int
"""
from .. import terms as T
from ..terms import const
from ..rules import P_, run, ret_paths, raise_paths, bind_call_args, default_of
from ..loader import AnalysisError
from .. import npapi

EXPLANATION = (
    "Structural clauses of C06: the label arithmetic of Axis.union / Axis.intersection is evaluated in a three-region algebra "
    "(A\\B, A&B, B\\A with multiplicities) over the provenance terms of every returning path; the fold of _common_axis, the per-dimension "
    "collection in _get_aligned_axes, the reindex loop of align() (receiver freshness, skip guards, private list copy) and the ownership "
    "of the axis sorted under sort=True are checked by value numbering; NumPy names resolved against the pinned stubs. Order of the union "
    "for mixed int/float kinds and NaN fill values are not decided here.")

SELF, OTHER = P_('self'), P_('other')
AX = 'dimarray.core.axes.'
AL = 'dimarray.core.align.'


class Regions(object):
    """multiset of labels over the regions a (A only), ab (both), b (B only)"""
    def __init__(self, counts, base=None):
        self.c = dict(counts)
        self.base = base        # 'A' / 'B' / None : whose stored order the elements follow

    def support(self):
        return set(k for k, v in self.c.items() if v)


def region_eval(t, A, B):
    """-> Regions | ('mask', base Regions, selected set) | None"""
    if t == A:
        return Regions({'a': 1, 'ab': 1, 'b': 0}, 'A')
    if t == B:
        return Regions({'a': 0, 'ab': 1, 'b': 1}, 'B')
    tag = t[0]
    if tag in ('ifexp', 'phi'):
        # every alternative must denote the same multiset of labels (a reversed and a plain sorted union do)
        alts = [region_eval(x, A, B) for x in (t[2:4] if tag == 'ifexp' else [y for y in t[1] if y[0] != 'carried'])]
        if alts and all(isinstance(x, Regions) for x in alts) and all(x.c == alts[0].c for x in alts):
            return alts[0]
        return None
    if tag == 'call':
        d = T.dotted(t[1]) or ''
        name = d.split('.')[-1]
        if name in ('isin', 'in1d') and len(t[2]) >= 2:
            x, y = region_eval(t[2][0], A, B), region_eval(t[2][1], A, B)
            if not isinstance(x, Regions) or not isinstance(y, Regions):
                return None
            inv = T.kw(t, 'invert', T.CONST_FALSE)
            if len(t[2]) >= 4:
                inv = t[2][3]
            if inv not in (T.CONST_TRUE, T.CONST_FALSE):
                return None
            sel = set(r for r in x.support() if (r in y.support()) != (inv == T.CONST_TRUE))
            return ('mask', x, sel)
        if name == 'concatenate' and t[2] and t[2][0][0] in ('tuple', 'list'):
            parts = [region_eval(x, A, B) for x in t[2][0][1]]
            if not all(isinstance(p, Regions) for p in parts):
                return None
            c = {'a': 0, 'ab': 0, 'b': 0}
            for p in parts:
                for k, v in p.c.items():
                    c[k] += v
            return Regions(c, None)
        if name == 'union1d' and len(t[2]) == 2:
            x, y = region_eval(t[2][0], A, B), region_eval(t[2][1], A, B)
            if not isinstance(x, Regions) or not isinstance(y, Regions):
                return None
            s = x.support() | y.support()
            return Regions({k: int(k in s) for k in ('a', 'ab', 'b')}, 'sorted')
        if name == 'intersect1d' and len(t[2]) == 2:
            x, y = region_eval(t[2][0], A, B), region_eval(t[2][1], A, B)
            if not isinstance(x, Regions) or not isinstance(y, Regions):
                return None
            s = x.support() & y.support()
            return Regions({k: int(k in s) for k in ('a', 'ab', 'b')}, 'sorted')
        if name in ('unique',) and len(t[2]) == 1:
            x = region_eval(t[2][0], A, B)
            if isinstance(x, Regions):
                return Regions({k: int(v > 0) for k, v in x.c.items()}, 'sorted')
        if name in ('asarray', 'array') and t[2]:
            return region_eval(t[2][0], A, B)
        return None
    if tag == 'sub':
        x = region_eval(t[1], A, B)
        if not isinstance(x, Regions):
            return None
        if t[2] == ('slice', T.CONST_NONE, T.CONST_NONE, const(-1)):
            return Regions(x.c, x.base)
        if t[2][0] == 'slice' and t[2][1] == T.CONST_NONE and t[2][2] == T.CONST_NONE and _unit_step(t[2][3]):
            return Regions(x.c, x.base)        # [::s] with s always +1 or -1: every label is kept
        m = region_eval(t[2], A, B)
        if isinstance(m, tuple) and m[0] == 'mask':
            # the mask must have been computed over the same array it is applied to
            if m[1].c != x.c:
                return 'MASK-MISMATCH'
            return Regions({k: (v if k in m[2] else 0) for k, v in x.c.items()}, x.base)
        if t[2][0] == 'unop' and t[2][1] == '~':
            m = region_eval(t[2][2], A, B)
            if isinstance(m, tuple) and m[0] == 'mask' and m[1].c == x.c:
                return Regions({k: (v if k not in m[2] else 0) for k, v in x.c.items()}, x.base)
        return None
    return None


def _unit_step(step):
    """the step expression of a slice evaluates to +1 / -1 (or None) whatever the order of the end labels it is computed from: every leaf of the expression is a
    first / last label (x[0], x[-1]); all orderings of up to four such leaves over four values are enumerated"""
    import itertools
    from ..rules import val_eval, UNKNOWN
    if step == T.CONST_NONE or step in (const(1), const(-1)):
        return True
    leaves = []
    for x in T.subterms(step):
        if x[0] == 'sub' and x[2] in (const(0), const(-1)) and x not in leaves:
            leaves.append(x)
    if not leaves or len(leaves) > 4:
        return False
    for vals in itertools.product(range(4), repeat=len(leaves)):
        v = val_eval(step, dict(zip(leaves, vals)))
        if v is UNKNOWN or v not in (None, 1, -1):
            return False
    return True


def _walk_mismatch(t, A, B):
    out = []
    for x in T.subterms(t):
        if x[0] == 'sub':
            try:
                if region_eval(x, A, B) == 'MASK-MISMATCH':
                    out.append('MASK-MISMATCH')
            except Exception:
                pass
    return out


def _roots(t):
    """containers a (possibly updated) container term is built from"""
    if t[0] in ('setitem', 'mut'):
        return _roots(t[1])
    if t[0] == 'phi':
        out = []
        for x in t[1]:
            out.extend(_roots(x))
        return out
    return [t]


def merge_operands(ctx, fi):
    """the (A, B) label terms of union/intersection after _check_axes_merge"""
    cm = ('call', ('name', '_check_axes_merge'), (SELF, OTHER), ())
    return ('attr', ('item', cm, 0), 'values'), ('attr', ('item', cm, 1), 'values'), cm


def rule_set_algebra(ctx):
    ctx.rule('R1', 'union / intersection region algebra', 6)
    # _check_axes_merge returns (self-side, other-side, flag)
    cmf = ctx.fn(AX + '_check_axes_merge')
    ev = run(ctx, cmf)
    okm = True
    for p in ret_paths(ev):
        v = p.value
        if not (v[0] == 'tuple' and len(v[1]) == 3):
            ctx.undecide('R1', '_check_axes_merge does not return a triple')
            okm = False
            continue
        a, b = v[1][0], v[1][1]
        if T.derives_from(a, OTHER) and not (a[0] == 'call' and T.call_name(a) == 'cast' and T.call_receiver(a) == SELF):
            if T.contains(a, OTHER) and not T.contains(a, SELF):
                ctx.violated('R1', cmf, 'return ' + T.show(v)[:120], 'first element must be the self-side axis', node=p.node)
                okm = False
        if not T.derives_from(b, OTHER):
            ctx.violated('R1', cmf, 'return ' + T.show(v)[:120], 'second element must be the other-side axis', node=p.node)
            okm = False
        if T.derives_from(b, SELF) and not T.derives_from(b, OTHER):
            okm = False
    if okm:
        ctx.holds('R1', '_check_axes_merge keeps (self, other) order')
    for opname, want in (('union', {'a': 1, 'ab': 1, 'b': 1}), ('intersection', {'a': 0, 'ab': 1, 'b': 0})):
        fi = ctx.fn(AX + 'Axis.' + opname)
        A, B, cm = merge_operands(ctx, fi)
        SA, SB = ('item', cm, 0), ('item', cm, 1)
        ev = run(ctx, fi)
        rets = ret_paths(ev)
        ctx.require('R1', rets, 'Axis.%s has no returning path' % opname)
        for p in rets:
            v = p.value
            # which guards hold on this path?
            def g(pred):
                for a, pol in p.guards:
                    r = pred(a)
                    if r:
                        return pol
                return None
            a_empty = g(lambda a: a[0] == 'cmp' and a[1] == '==' and a[2] == ('attr', A, 'size') and a[3] == const(0))
            b_empty = g(lambda a: a[0] == 'cmp' and a[1] == '==' and a[2] == ('attr', B, 'size') and a[3] == const(0))
            equal = g(lambda a: a[0] == 'call' and T.dotted(a[1]) == 'np.all' and a[2] and a[2][0] in (T.mkcmp('==', A, B), T.mkcmp('==', B, A)))
            res = None
            label = None
            if v[0] == 'call' and T.call_name(v) == 'copy' and T.call_receiver(v) in (SA, SB):
                res = Regions({'a': 1, 'ab': 1, 'b': 0}, 'A') if T.call_receiver(v) == SA else Regions({'a': 0, 'ab': 1, 'b': 1}, 'B')
                label = 'copy'
            elif v in (SA, SB):
                res = Regions({'a': 1, 'ab': 1, 'b': 0}, 'A') if v == SA else Regions({'a': 0, 'ab': 1, 'b': 1}, 'B')
                label = 'operand'
            elif v[0] == 'call' and T.call_name(v) == 'Axis' and v[2]:
                if v[2][0] in (('list', ()), ('tuple', ())):
                    res = Regions({'a': 0, 'ab': 0, 'b': 0})
                else:
                    res = region_eval(v[2][0], A, B)
                label = 'Axis(...)'
                nm = v[2][1] if len(v[2]) > 1 else T.kw(v, 'name')
                if nm not in (('attr', SA, 'name'), ('attr', SELF, 'name')):
                    ctx.violated('R1', fi, 'return ' + T.show(v)[:140], 'the merged axis must keep the dimension name', node=p.node)
                    continue
            if res == 'MASK-MISMATCH' or (v[0] == 'call' and v[2] and 'MASK-MISMATCH' in _walk_mismatch(v[2][0], A, B)):
                ctx.violated('R1', fi, 'return ' + T.show(v)[:160], 'Axis.%s: a membership mask computed over one label array is applied to the other one '
                             '(positions do not correspond)' % opname, node=p.node)
                continue
            if res is None:
                ctx.undecide('R1', 'Axis.%s: cannot evaluate %s in the region algebra' % (opname, T.show(v)[:160]))
                continue
            # regions that are known to be empty on this path
            exp = dict(want)
            got = dict(res.c)
            if equal is True:          # A == B: only the 'both' region is populated
                exp['a'] = exp['b'] = got['a'] = got['b'] = 0
            if a_empty is True:        # A empty: only B\A populated
                exp['a'] = exp['ab'] = got['a'] = got['ab'] = 0
            if b_empty is True:
                exp['b'] = exp['ab'] = got['b'] = got['ab'] = 0
            if got != exp:
                missing = [k for k in exp if got[k] < exp[k]]
                extra = [k for k in exp if got[k] > exp[k]]
                names = {'a': 'labels only in self', 'ab': 'labels in both', 'b': 'labels only in other'}
                ctx.violated('R1', fi, 'return ' + T.show(v)[:160],
                             'Axis.%s: %s%s' % (opname,
                                                ('loses ' + ', '.join(names[k] for k in missing) + '; ') if missing else '',
                                                ('contains ' + ', '.join('%s %d times' % (names[k], got[k]) for k in extra)) if extra else ''),
                             node=p.node, witness=['guards: ' + ', '.join('%s=%s' % (T.show(a)[:70], b) for a, b in p.guards)])
                continue
            if opname == 'intersection' and label == 'Axis(...)' and res.base not in ('A',) and any(got.values()):
                ctx.violated('R1', fi, 'return ' + T.show(v)[:160], 'the intersection must keep the stored order of the first axis '
                             '(select from self.values, not from other / sorted)', node=p.node)
                continue
            ctx.holds('R1', 'Axis.%s: %s -> %s' % (opname, label, got), sample=T.show(v)[:200])


FOLD_TREES = {}          # n -> association of the fold over n real axes, as found by rule_fold (used by the direction rule R13)


def fold_tree(ctx, kinds, join):
    """Result of _common_axis over abstract axes of the given kinds ('real' / 'placeholder' / 'empty'), found by interpreting the function (and whatever
    helpers it calls) on abstract Axis objects whose union / intersection build a symbolic pair. Leaves are the positions of the inputs."""
    from .. import absint
    from ..absint import Interp, Closure, AbsObj, Undecided, Raised
    fi = ctx.fn(AL + '_common_axis')
    mod = fi.module
    interp = Interp({}, {})

    def pair(tag):
        def m(obj, args, kwargs):
            if len(args) != 1 or kwargs or not isinstance(args[0], AbsObj):
                raise Undecided('Axis.%s called with %r' % (tag, args))
            return mk((tag, obj.name, args[0].name), 3, 'label')
        return m

    def mk(name, length, first):
        items = {0: first, -1: first} if length else {}
        o = AbsObj(name, length=length, items=items, attrs={'size': length, 'name': 'x'})
        o.methods = {'union': pair('U'), 'intersection': pair('I')}
        o.attrs['values'] = AbsObj(('values', name), length=length, items=items, attrs={'size': length})
        return o
    env = {}
    for name, f in mod.functions.items():
        env[name] = Closure(f.node, env, interp)
    axes = [mk(k, {'real': 3, 'single': 1, 'falsy': 1, 'placeholder': 1, 'empty': 0}[kind], None if kind == 'placeholder' else 0 if kind == 'falsy' else 'label') for k, kind in enumerate(kinds)]
    out = interp.call_function(fi.node, [axes, join], env)
    if not isinstance(out, AbsObj):
        raise Undecided('_common_axis returned %r' % (out,))
    return out.name


def _subtrees(tree):
    if isinstance(tree, tuple) and len(tree) == 3 and tree[0] in ('U', 'I'):
        return [tree] + _subtrees(tree[1]) + _subtrees(tree[2])
    return []


def _leaves(tree):
    if isinstance(tree, tuple) and len(tree) == 3 and tree[0] in ('U', 'I'):
        return _leaves(tree[1]) + _leaves(tree[2])
    return [tree]


def rule_fold(ctx):
    """R2: _common_axis combines *every* real input axis, in input order, with Axis.union (outer) / Axis.intersection (inner); an input is left out only when
    it is the [None] placeholder of a broadcast dimension. Decided by interpreting _common_axis on lists of 1-4 abstract axes (real / placeholder / empty in
    every combination): the result must be a tree of pairwise joins whose leaves are exactly the non-placeholder inputs in their order (how the joins
    are associated - recursion or a loop, from the left or from the right - is recorded for R13, not prescribed)."""
    import itertools
    from ..absint import Undecided, Raised
    ctx.rule('R2', 'fold over all axes, join dispatch, per-dimension collection', 3)
    fi = ctx.fn(AL + '_common_axis')
    FOLD_TREES.clear()
    nbad = 0
    ncase = 0
    for join, tag in (('outer', 'U'), ('inner', 'I')):
        for n in (1, 2, 3, 4):
            for kinds in itertools.product(['real', 'single', 'falsy', 'placeholder', 'empty'] if n < 4 else ['real', 'falsy', 'placeholder', 'empty'], repeat=n):
                try:
                    tree = fold_tree(ctx, kinds, join)
                except Undecided as e:
                    ctx.undecide('R2', '_common_axis: %s (inputs %s)' % (e, ','.join(kinds)))
                    return
                except Raised as e:
                    ctx.violated('R2', fi, 'inputs %s raise %s' % (','.join(kinds), e.name), '_common_axis raises %s for the inputs (%s)' % (e.name, ', '.join(kinds)))
                    nbad += 1
                    continue
                ncase += 1
                leaves = _leaves(tree)
                want = [k for k, kind in enumerate(kinds) if kind != 'placeholder']
                tags = set(x[0] for x in _subtrees(tree))
                why = None
                if not want:
                    if len(leaves) != 1:
                        why = 'inputs that are all placeholders must give one of them back'
                elif leaves != want:
                    missing = [k for k in want if k not in leaves]
                    extra = [k for k in leaves if k not in want]
                    why = ('input(s) %s take no part in the %s: the labels of a real input are dropped' % (missing, 'union' if tag == 'U' else 'intersection')) if missing else \
                        ('the placeholder input(s) %s are joined in (their label None would enter the result)' % extra) if extra else \
                        'the inputs are joined in another order (%s) than they were given' % leaves
                elif tags - {tag}:
                    why = "join=%r must use Axis.%s" % (join, 'union' if tag == 'U' else 'intersection')
                if why:
                    nbad += 1
                    if nbad <= 3:
                        ctx.violated('R2', fi, "join=%r inputs %s" % (join, ','.join(kinds)), '_common_axis over the inputs (%s): %s' % (', '.join(kinds), why))
                if join == 'outer' and all(k == 'real' for k in kinds) and not why:
                    FOLD_TREES[n] = tree
    if not nbad:
        ctx.holds('R2', '_common_axis: every real input joined once, in input order, placeholders skipped (%d input patterns x 2 joins)' % (ncase // 2))
        ctx.holds('R2', '_common_axis: association of the joins for 3 inputs: %s' % (FOLD_TREES.get(3),))
    # _get_aligned_axes collection
    fi = _collection_host(ctx)
    ARR = P_('arrays')
    ev = run(ctx, fi, bind={'axis': T.CONST_NONE, 'strict': T.CONST_FALSE}, mode='join')
    good = False
    if not any(True for p in ev.paths for e in p.calls('_common_axis')):
        ctx.undecide('R2', '%s: no call of _common_axis found (the per-dimension collection moved elsewhere)' % fi.qualname)
        return
    for p in ev.paths:
        for e in p.calls('_common_axis'):
            a0 = e.a[2][0]
            if a0[0] == 'comp':
                s = T.show(a0)
                # [arrays[i].axes[d] for i in ii] with ii = [i for i in range(len(arrays)) if d in arrays[i].dims]
                if '.axes[' in s and 'dims' in s and T.contains(a0, ARR):
                    inner = [x for x in T.subterms(a0) if x[0] == 'comp' and x is not a0]
                    conds = [c for x in [a0] + inner for g in x[3] for c in g[2]]
                    if any(c[0] == 'cmp' and c[1] == 'in' and 'dims' in T.show(c[3]) for c in conds):
                        good = True
            jn = e.a[2][1] if len(e.a[2]) > 1 else T.kw(e.a, 'join')
            if jn != P_('join'):
                ctx.violated('R2', fi, e.node, 'the join mode must be forwarded to _common_axis', node=e.node)
                good = None
    if good:
        ctx.holds('R2', '_get_aligned_axes: per dimension, the axes of exactly the arrays that have it')
    elif good is False:
        ctx.violated('R2', fi, '_get_aligned_axes', 'the common axis must be computed from the axes of the arrays that have the dimension (d in arrays[i].dims)')


def _collection_host(ctx):
    """the function that collects, per dimension, the axes to join: the private helper _get_aligned_axes, or align() itself when the helper's body
    was merged into its only caller"""
    fi = ctx.P.functions.get(AL + '_get_aligned_axes')
    if fi is not None:
        ctx.functions.add(fi.qualname)
        return fi
    return ctx.fn(AL + 'align')


def rule_align(ctx, rid='R3'):
    """align(): which arrays are re-indexed on which common axis, what the result list holds and what happens to the caller's list.  Decided by interpreting
    align() on abstract arrays (sa/scenarios_def.sc_align: _get_aligned_axes is a stub that returns one axis per dimension and records the options it was given,
    reindex_axis gives a new array carrying the axis) and comparing the resulting lists with the frozen table - whatever loops, comprehensions or helpers the
    function is written with."""
    from ..scenario_rule import rule_scenarios
    rule_scenarios(ctx, rid, only=AL + 'align', title='align(): reindex step (interpreted on abstract arrays: options handed on, every mismatching dimension of every array '
                   're-indexed on the common axis, arrays lacking the dimension skipped, private result list)')
    # the common axes come from _get_aligned_axes / _common_axis
    fi = ctx.fn(AL + 'align')
    ev = run(ctx, fi, mode='join')
    if not any(True for p in ev.paths for n in ('_get_aligned_axes', '_common_axis') for e in p.calls(n)):
        ctx.undecide(rid, 'align: neither _get_aligned_axes nor _common_axis is called')


def rule_sort_ownership(ctx):
    ctx.rule('R4', 'sorted common axis is a fresh copy', 2)
    ctx.rule('R5', 'sort ascending', 2)
    fi = _collection_host(ctx)
    ev = run(ctx, fi, bind={'sort': T.CONST_TRUE}, mode='join')
    sorts = [e for p in ev.paths for e in p.calls('sort')]
    interpreted = False
    if not sorts and AL + '_get_aligned_axes' in ctx.P.functions:
        # the sorting happens somewhere else (handed down to a helper together with the option): what sort=True returns, and what it leaves of the inputs' own
        # axes, is read off the interpreted scenarios of _get_aligned_axes (a lone axis, an empty axis next to a full one, two and three inputs)
        from ..scenario_rule import rule_scenarios
        rule_scenarios(ctx, 'R4', only=AL + '_get_aligned_axes', title='sorted common axis is a fresh copy (interpreted scenarios of _get_aligned_axes)')
        interpreted = True
    elif not sorts:
        ctx.violated('R4', fi, 'sort=True', 'sort=True never sorts the common axis')
    seen = set()
    for e in sorts:
        if id(e) in seen:
            continue
        seen.add(id(e))
        recv = T.call_receiver(e.a)
        fresh = recv[0] == 'call' and T.call_name(recv) == 'copy' and not recv[2] and \
            T.call_receiver(recv)[0] == 'call' and T.call_name(T.call_receiver(recv)) == '_common_axis'
        if not fresh:
            ctx.violated('R4', fi, e.node, 'Axis.sort() sorts in place: the common axis can be an input\'s own Axis object (single input having the '
                         'dimension, equal axes, empty operand) - its labels would be reordered under unchanged data; sort a copy', node=e.node,
                         witness=['receiver: ' + T.show(recv)[:160]])
        else:
            ctx.holds('R4', '_get_aligned_axes: sorts _common_axis(...).copy()')
        skip = [a for a, pol in e.guards if any(x[0] == 'call' and T.call_name(x) in ('is_monotonic', 'is_monotonic_equal', 'is_decreasing', 'is_decreasing_equal') for x in T.subterms(a))
                or any(x[0] == 'attr' and x[2] == '_monotonic' for x in T.subterms(a))]
        if skip:
            ctx.violated('R5', fi, e.node, 'with sort=True the common axis is sorted only under the condition %s: "monotonic" is also true for strictly decreasing labels, which are then '
                         'left in decreasing order (sort=True promises ascending labels)' % T.show(skip[0])[:80], node=e.node)
        if e.a[2] or e.a[3]:
            ctx.violated('R5', fi, e.node, 'sort=True means ascending labels: Axis.sort must be called without arguments', node=e.node)
        else:
            ctx.holds('R5', 'ax.sort() without arguments')
        # the sorted copy is what gets appended
    # the appended axis is the sorted copy
    for p in ev.paths if not interpreted else []:
        for e in p.calls('append'):
            if e.loops and T.show(e.a[1]).endswith('.append'):
                a = e.a[2][0]
                alts = T.value_alts(a)
                if not any(x[0] in ('mut',) or (x[0] == 'call' and T.call_name(x) == 'copy') for x in alts):
                    ctx.violated('R4', fi, e.node, 'with sort=True the sorted copy must be the axis that is used', node=e.node)
    # Axis.copy is deep
    cp = ctx.fn(AX + 'Axis.copy')
    evc = run(ctx, cp)
    for p in evc.paths:
        v = p.value
        if not (p.kind == 'return' and v[0] == 'call' and T.dotted(v[1]) == 'copy.deepcopy' and v[2] == (SELF,)):
            ctx.violated('R4', cp, 'return ' + T.show(v)[:120], 'Axis.copy() must be a deep copy (copy.deepcopy(self)): a copy that shares the label '
                         'buffer lets sort() / label assignment reach the original', node=p.node)
        else:
            ctx.holds('R4', 'Axis.copy = deepcopy')
    # Axis.sort
    so = ctx.fn(AX + 'Axis.sort')
    evs = run(ctx, so)
    for p in evs.paths:
        srt = [e.a for e in p.calls('sort')]
        ok = len(srt) == 1 and T.call_receiver(srt[0]) in (('attr', SELF, '_values'), ('attr', SELF, 'values'))
        rev = any(x == ('slice', T.CONST_NONE, T.CONST_NONE, const(-1)) for e in p.events for x in T.subterms(e.c if e.kind == 'store_attr' and isinstance(e.c, tuple) else ('const', 0)))
        if not ok or rev:
            ctx.violated('R5', so, 'Axis.sort', 'Axis.sort must sort the labels in place in ascending order', node=p.node)
        else:
            ctx.holds('R5', 'Axis.sort: self._values.sort()')


WIDE_NAMES = {'float', 'int', 'object', 'np.float64', 'np.int64', 'np.object_', 'np.float_', 'np.int_', 'np.longdouble', 'complex'}
NARROW_NAMES = {'np.float32', 'np.float16', 'np.int32', 'np.int16', 'np.int8', 'np.single', 'np.half', 'np.intc', 'np.short'}
WIDE_CONSTS = {'O', 'f8', 'i8', 'float64', 'int64', 'object', 'float', 'int', 'd', 'l', 'q', float, int, object}


def _is_kind_term(t):
    """a dtype *kind* character (x.dtype.kind, or the first item of _get_cast_kind)"""
    if t[0] == 'attr' and t[2] == 'kind':
        return True
    if t[0] == 'item' and t[1][0] == 'call' and T.call_name(t[1]) == '_get_cast_kind' and t[2] == 0:
        return True
    return False


def wide_dtype(t):
    """True: a dtype that holds every int / float label exactly enough (float64 / int64 / object);
    False: a bare kind character ('f' as a dtype is float32, 'i' is int32);  None: not recognised"""
    if t[0] == 'name' or t[0] == 'attr':
        d = T.dotted(t)
        if d in WIDE_NAMES:
            return True
        if d in NARROW_NAMES:
            return False
    if t[0] == 'const':
        return True if t[1] in WIDE_CONSTS else (False if t[1] in ('f', 'i', 'u', 'e', 'f4', 'i4', 'float32', 'int32', 'float16') else None)
    if _is_kind_term(t):
        return False
    table = None
    if t[0] == 'call' and t[1][0] == 'attr' and t[1][2] == 'get' and t[1][1][0] == 'dict' and t[2]:
        table, key, default = t[1][1], t[2][0], (t[2][1] if len(t[2]) > 1 else T.CONST_NONE)
    elif t[0] == 'sub' and t[1][0] == 'dict':
        table, key, default = t[1], t[2], None
    if table is not None and _is_kind_term(key):
        vals = dict((k[1], v) for k, v in table[1] if k[0] == 'const')
        for k in ('f', 'i'):
            v = vals.get(k)
            if v is None:
                if default is None:
                    continue            # KeyError rather than a narrow cast
                v = default
            w = wide_dtype(v)
            if w is not True:
                return w
        return True
    if t[0] in ('ifexp', 'phi'):
        parts = [wide_dtype(x) for x in (t[2:] if t[0] == 'ifexp' else t[1])]
        if all(x is True for x in parts):
            return True
        if any(x is False for x in parts):
            return False
    return None


MERGE_KINDS = ['i', 'u', 'f', 'O', 'U', 'S', 'b', 'M']


def _want_common_kind(k0, k1):
    """the kind both operands must have after the reconciliation (None: the pair is not constrained by the property; a tuple: any of these)"""
    if k0 == k1:
        return k0
    if 'O' in (k0, k1):
        return 'O'
    if 'f' in (k0, k1) and set((k0, k1)) <= set('iuf'):
        return 'f'
    if set((k0, k1)) == set('iu'):
        return ('i', 'O', 'f')
    return None


def _merge_table_by_interpretation(ctx, fi):
    """_check_axes_merge interpreted on two abstract axes that only know their label kind, for every pair of kinds: {(k0, k1): (kind of the first result,
    kind of the second result)} where a kind is 'f32' / 'i32' when the cast was given a bare kind character (a narrow dtype).  None when the interpreter
    cannot decide some pair (the symbolic reading is used then)."""
    from ..absint import Interp, Closure, AbsObj, Undecided, Raised, TypeTok
    mod = fi.module

    def kind_of(d):
        if isinstance(d, TypeTok):
            return {'float': 'f', 'object': 'O', 'str': 'U', 'int': 'i', 'bool': 'b'}.get(d.name)
        if isinstance(d, str):
            return {'f': 'f32', 'i': 'i32', 'float32': 'f32', 'int32': 'i32', 'f4': 'f32', 'i4': 'i32', 'float64': 'f', 'int64': 'i', 'f8': 'f', 'i8': 'i'}.get(d, d)
        return None
    table = {}
    for k0 in MERGE_KINDS:
        for k1 in MERGE_KINDS:
            def mkaxis(name, kind):
                dt = AbsObj('dtype_' + name, attrs={'kind': kind})
                vals = AbsObj('values_' + name, attrs={'dtype': dt})
                o = AbsObj(name, attrs={'dtype': dt, 'values': vals, 'name': 'x'})
                o.types = {'Axis', 'AbstractAxis', 'object'}
                o.methods = {'cast': lambda obj, args, kw, name=name: ('CAST', name, kind_of(args[0] if args else kw.get('dtype')))}
                return o
            A, B = mkaxis('A', k0), mkaxis('B', k1)
            interp = Interp({}, {})
            env = {'Axis': TypeTok('Axis')}
            for name, f in mod.functions.items():
                env[name] = Closure(f.node, env, interp)
            interp.with_module(mod, env)
            try:
                out = interp.call_function(fi.node, [A, B], env)
            except (Undecided, Raised):
                return None
            except Exception:
                return None
            if not (isinstance(out, (tuple, list)) and len(out) == 3):
                return None
            res = []
            for x, own, who in ((out[0], k0, 'A'), (out[1], k1, 'B')):
                if x is A or x is B:
                    res.append(k0 if x is A else k1)
                elif isinstance(x, tuple) and len(x) == 3 and x[0] == 'CAST' and x[2] is not None:
                    res.append(x[2])
                else:
                    return None
            table[(k0, k1)] = tuple(res)
    return table


def rule_merge_cast(ctx, r8='R8', r9='R9'):
    """R8/R9: the kind reconciliation ahead of every union / intersection keeps each label exact"""
    ctx.rule(r8, '_check_axes_merge: operands are cast only when their kind differs, and to a full-width dtype', 4)
    fi = ctx.fn(AX + '_check_axes_merge')
    table = _merge_table_by_interpretation(ctx, fi)
    if table is not None:
        # decided by interpretation, whatever the spelling (helper or not, chain of tests or precedence table)
        ctx.rule(r9, '_get_cast_kind: the common kind can represent both inputs (decision table over kind pairs)', 20)
        for (k0, k1), (ka, kb) in sorted(table.items()):
            want = _want_common_kind(k0, k1)
            narrow = [k for k in (ka, kb) if k in ('f32', 'i32')]
            if narrow:
                ctx.violated(r8, fi, 'merge of kinds (%s, %s): cast to a narrow dtype' % (k0, k1), 'an operand is cast with a dtype *kind* character: as a dtype \'f\' is float32 and \'i\' '
                             'is int32, so int labels above 2**24 (or float64 labels) are rounded and the merged axis no longer contains the inputs\' labels')
                continue
            ctx.holds(r8, 'kinds (%s,%s): operands leave as (%s,%s)' % (k0, k1, ka, kb))
            if want is None:
                ctx.holds(r9, '(%s,%s) -> %s,%s (unconstrained pair)' % (k0, k1, ka, kb))
            elif all((k == want) or (isinstance(want, tuple) and k in want) for k in (ka, kb)) and (ka == kb):
                ctx.holds(r9, '(%s,%s) -> %s' % (k0, k1, ka))
            else:
                ctx.violated(r9, fi, 'common kind of (%r, %r)' % (k0, k1), 'axes of kinds %r and %r are merged as kinds (%r, %r), expected %r for both: labels of the wider kind '
                             'would be truncated by the cast (or compared across kinds) before the union / intersection' % (k0, k1, ka, kb, want))
        return
    ev = run(ctx, fi)
    n = 0
    for p in ret_paths(ev):
        v = p.value
        if v[0] != 'tuple' or len(v[1]) != 3:
            ctx.violated(r8, fi, T.show(v)[:100], '_check_axes_merge must return (self-side, other-side, consistent flag)')
            continue
        for side, who in ((v[1][0], 'self'), (v[1][1], 'other')):
            casts = [c for c in T.subterms(side) if c[0] == 'call' and T.call_name(c) == 'cast' and c[1][0] == 'attr']
            samekind = [pol for a, pol in p.guards if a[0] == 'cmp' and a[1] == '==' and any(_is_kind_term(x) for x in (a[2], a[3]))
                        and any(x[0] == 'attr' and x[2] == 'kind' and T.contains(x, P_(who)) and not T.contains(x, ('name', '_get_cast_kind')) for x in (a[2], a[3]))]
            if not casts:
                # left as it is: only allowed when its kind already is the common kind
                if not any(pol is True for pol in samekind):
                    ctx.violated(r8, fi, '%s side returned uncast' % who, 'the %s operand is returned without a cast on a path that does not establish '
                                 'that its kind already equals the common kind: labels of different kinds are compared as they are' % who, node=p.state.events[-1].node if p.state.events else None)
                else:
                    n += 1
                    ctx.holds(r8, '%s uncast only under kind == common kind' % who)
                continue
            for c in casts:
                arg = c[2][0] if c[2] else T.kw(c, 'dtype')
                w = wide_dtype(arg) if arg is not None else None
                if w is False:
                    ctx.violated(r8, fi, '%s.cast(<dtype kind character>)' % who, 'the %s operand is cast with a dtype *kind* character: as a dtype \'f\' is float32 and \'i\' is int32, '
                                 'so int labels above 2**24 (or float64 labels) are rounded and the merged axis no longer contains the inputs\' labels' % who)
                elif w is None:
                    ctx.undecide(r8, 'cast argument %s of the %s operand not recognised' % (T.show(arg)[:80] if arg else None, who))
                else:
                    n += 1
                    ctx.holds(r8, '%s.cast(<full-width dtype of the common kind>)' % who)
    ctx.rule(r9, '_get_cast_kind: the common kind can represent both inputs (decision table over kind pairs)', 20)
    fk = ctx.fn(AX + '_get_cast_kind')
    kinds = ['i', 'u', 'f', 'O', 'U', 'S', 'b', 'M']
    pnames = fk.params[:2]
    for k0 in kinds:
        for k1 in kinds:
            ev = run(ctx, fk, bind={pnames[0]: const(k0), pnames[1]: const(k1)})
            rets = [p.value for p in ret_paths(ev)]
            if len(rets) != 1 or rets[0][0] != 'tuple' or rets[0][1][0][0] != 'const':
                # not a chain of tests on the two kinds: interpret the function (tables, sets, comprehensions) on the two concrete kind characters
                got = _interpret_cast_kind(fk, k0, k1)
                if got is None:
                    ctx.undecide(r9, '_get_cast_kind(%r, %r) does not evaluate to one constant result' % (k0, k1))
                    continue
            else:
                got = rets[0][1][0][1]
            want = None
            if k0 == k1:
                want = k0
            elif 'O' in (k0, k1):
                want = 'O'
            elif 'f' in (k0, k1) and set((k0, k1)) <= set('iuf'):
                want = 'f'
            elif set((k0, k1)) == set('iu'):
                want = ('i', 'O', 'f')
            if want is None:
                ctx.holds(r9, '(%s,%s) -> %s (unconstrained pair)' % (k0, k1, got))
            elif got == want or (isinstance(want, tuple) and got in want):
                ctx.holds(r9, '(%s,%s) -> %s' % (k0, k1, got))
            else:
                ctx.violated(r9, fk, '_get_cast_kind(%r, %r)' % (k0, k1), 'the common kind of %r and %r is %r, expected %r: labels of the wider kind would be truncated '
                             'by the cast before the union / intersection' % (k0, k1, got, want))


def _interpret_cast_kind(fk, k0, k1):
    """common kind returned by _get_cast_kind for two concrete kind characters, by interpretation; None when the interpreter cannot decide"""
    from ..absint import Interp, Closure, Undecided, Raised
    mod = fk.module
    interp = Interp({}, {})
    env = {}
    for name, f in mod.functions.items():
        env[name] = Closure(f.node, env, interp)
    interp.with_module(mod, env)
    try:
        out = interp.call_function(fk.node, [k0, k1], env)
    except (Undecided, Raised):
        return None
    except Exception:
        return None
    if isinstance(out, (tuple, list)) and out and isinstance(out[0], str):
        return out[0]
    return None


UNION_TABLE = {}


def rule_union_direction(ctx):
    UNION_TABLE.clear()
    """R10: "inputs that are all sorted in the same direction give a result sorted in that direction".
    Axis.union is evaluated for every pair of directions (increasing / decreasing / single label, which fits either direction) and
    three relative placements of the two label ranges; the end labels are the only values the code may look at (comparisons of
    values[0] / values[-1]), so a finite set of orderings decides the branch."""
    import itertools
    from ..rules import bool_eval
    ctx.rule('R10', 'Axis.union: two monotonic operands sorted the same way give np.union1d, reversed iff the common direction is decreasing', 20)
    fi = ctx.fn(AX + 'Axis.union')
    A, B, cm = merge_operands(ctx, fi)
    a0, a1, b0, b1 = ('sub', A, const(0)), ('sub', A, const(-1)), ('sub', B, const(0)), ('sub', B, const(-1))
    ends = {'inc': (0, 3), 'dec': (3, 0), 'single': (1, 1)}
    for da, db, shift in itertools.product(['inc', 'dec', 'single'], ['inc', 'dec', 'single'], [-10, 1, 10]):
        atoms = {a0: ends[da][0], a1: ends[da][1], b0: ends[db][0] + shift, b1: ends[db][1] + shift}

        def oracle(atom, st, atoms=atoms):
            if any(x in atoms for x in T.subterms(atom)):
                return bool_eval(atom, atoms)
            if atom == ('item', cm, 2):
                return True
            if atom[0] == 'call' and T.call_name(atom) == 'is_monotonic':
                return True
            if atom[0] == 'cmp' and atom[1] == '==' and atom[3] == const(0) and atom[2][0] == 'attr' and atom[2][2] == 'size':
                return False
            if atom[0] == 'call' and T.dotted(atom[1]) == 'np.all':
                return False
            # (both operands are non-empty and different in this scenario: whether their sizes happen to be equal decides nothing)
            if atom[0] == 'cmp' and atom[1] == '==' and atom[2][0] == 'attr' and atom[2][2] == 'size' and atom[3][0] == 'attr' and atom[3][2] == 'size':
                return None
            return None
        ev = run(ctx, fi, oracle=oracle)
        inst = 'A %s, B %s, B shifted by %d' % (da, db, shift)
        rets = ret_paths(ev)
        outcomes = UNION_TABLE.setdefault((da, db), set())
        # paths that still depend on an undecided end comparison would show up as extra forks: all must satisfy the clause
        mixed = set((da, db)) == set(('inc', 'dec'))
        ok = True
        for p in rets:
            v = p.value
            undec = [a for a, pol in p.guards if any(x in atoms for x in T.subterms(a)) and bool_eval(a, atoms) is None]
            if undec:
                ctx.undecide('R10', '%s: guard %s is not decided by the order of the end labels' % (inst, T.show(undec[0])[:100]))
                ok = False
                continue
            if mixed:
                outcomes.add('unsorted' if not any(c[0] == 'call' and T.dotted(c[1]) in ('np.union1d', 'numpy.union1d') for c in T.subterms(v)) else 'sorted')
                continue
            u = [c for c in T.subterms(v) if c[0] == 'call' and T.dotted(c[1]) in ('np.union1d', 'numpy.union1d')]
            # reversed: sliced with a step of -1, as a constant or as an expression of the end labels that evaluates to -1 in this scenario (`[::slope]`)
            from ..rules import val_eval, UNKNOWN
            rev = []
            for x in T.subterms(v):
                if x[0] == 'sub' and x[2][0] == 'slice' and u and T.contains(x[1], u[0]) and x[2][1] == T.CONST_NONE and x[2][2] == T.CONST_NONE:
                    step = val_eval(x[2][3], atoms)
                    if step is UNKNOWN or step not in (None, 1, -1):
                        ctx.undecide('R10', '%s: step of the slice applied to the sorted union is not decided: %s' % (inst, T.show(x[2][3])[:100]))
                        ok = False
                    elif step == -1:
                        rev.append(x)
            outcomes.add('unsorted' if not u else ('dec' if rev else 'inc'))
            want_rev = 'dec' in (da, db)
            if not u:
                ctx.violated('R10', fi, 'union of two operands sorted the same way', 'with %s both operands are monotonic in compatible directions, but the labels are '
                             'concatenated instead of merged in order (the result is not sorted): %s' % (inst, T.show(v)[:100]), node=p.node)
                ok = False
            elif (da, db) != ('single', 'single') and bool(rev) != want_rev:
                ctx.violated('R10', fi, 'direction of the sorted union', 'with %s the merged labels must be %s, but np.union1d (ascending) is %s' % (
                    inst, 'decreasing' if want_rev else 'increasing', 'reversed' if rev else 'not reversed'), node=p.node)
                ok = False
        if ok:
            ctx.holds('R10', inst)


def _nonempty_fact(atom, pol):
    """the label container X that the guard `atom == pol` proves non-empty (or None)"""
    def sized(t):
        if t[0] == 'call' and T.call_name(t) == 'len' and t[2]:
            return t[2][0]
        if t[0] == 'attr' and t[2] == 'size':
            return t[1][1] if (t[1][0] == 'attr' and t[1][2] == 'values') else t[1]
        return None
    if atom[0] == 'unop' and atom[1] == 'not':
        return _nonempty_fact(atom[2], not pol) if isinstance(pol, bool) else None
    # truthiness of a size: `if x.size:` / `if len(x):` / `if not x.size:`
    if (atom[0] == 'attr' and atom[2] == 'size') or (atom[0] == 'call' and T.call_name(atom) == 'len' and len(atom[2]) == 1 and not atom[3]):
        return sized(atom) if pol is True else None
    if atom[0] != 'cmp':
        return None
    op, a, b = atom[1], atom[2], atom[3]
    if op == '==' and b[0] == 'const' and isinstance(b[1], int):
        x = sized(a)
        if x is not None and ((b[1] > 0 and pol is True) or (b[1] == 0 and pol is False)):
            return x
    if op == '<' and a[0] == 'const' and isinstance(a[1], int) and a[1] >= 0 and pol is True:
        return sized(b)
    if op == '<' and b[0] == 'const' and isinstance(b[1], int) and b[1] <= 1 and pol is False:     # not (size < 1)
        return sized(a)
    return None


def rule_empty_labels(ctx):
    """R11: "label sets that are ... empty" - the first / last label of an axis is only read where the axis is known to be non-empty,
    and the reindex step does not take from an empty source axis"""
    ctx.rule('R11', 'empty label sets: first/last label read only under a size guard; reindexing an empty source axis is handled', 3)
    fi = ctx.fn(AL + '_common_axis')
    AXES = P_('axes')
    ev = run(ctx, fi)
    n = 0
    bad = set()
    for p in ev.paths:
        nonempty = []
        for a, pol in p.guards:
            x = _nonempty_fact(a, pol)
            if x is not None:
                nonempty.append(x)
            for t in T.subterms(a):
                if t[0] == 'sub' and t[2] in (const(0), const(-1)) and t[1] != AXES and (T.contains(t[1], AXES) or T.contains(t[1], ('name', '_common_axis'))) \
                        and not (t[1][0] == 'sub' and t[1][2][0] == 'slice'):
                    n += 1
                    if t[1] not in nonempty:
                        bad.add(T.show(t))
    for b in sorted(bad):
        ctx.violated('R11', fi, 'label read %s' % b, 'the first label of an axis is read (%s) on a path that has not established that the axis is non-empty: '
                     'align() of an input whose label set is empty raises IndexError instead of returning the union / intersection' % b, node=fi.node)
    if not bad:
        ctx.holds('R11', '_common_axis: %d first-label reads, each under a size guard' % n)
    # union / intersection: ends are read only after the size == 0 early returns
    for name in ('Axis.union', 'Axis.intersection'):
        f2 = ctx.fn(AX + name)
        A, B, cm = merge_operands(ctx, f2)
        ev2 = run(ctx, f2)
        bad2 = set()
        cnt = 0
        for p in ev2.paths:
            nonempty = []
            same_size = False
            for a, pol in p.guards:
                x = _nonempty_fact(a, pol)
                if x is not None:
                    nonempty.append(x)
                # two label sets of the same size that differ somewhere (np.all(A == B) is False) are both non-empty: np.all of an empty comparison is True
                if a[0] == 'cmp' and a[1] == '==' and pol is True and a[2][0] == 'attr' and a[2][2] == 'size' and a[3][0] == 'attr' and a[3][2] == 'size' \
                        and {a[2][1], a[3][1]} == {A, B}:
                    same_size = True
                if same_size and pol is False and a[0] == 'call' and T.dotted(a[1]) in ('np.all', 'np.array_equal') and T.contains(a, A) and T.contains(a, B):
                    nonempty += [A, B, A[1], B[1]]
                for t in T.subterms(a):
                    if t[0] == 'sub' and t[2] in (const(0), const(-1)) and t[1] in (A, B):
                        cnt += 1
                        owner = t[1][1]
                        if owner not in nonempty and t[1] not in nonempty:
                            bad2.add(T.show(t)[-40:])
        for b in sorted(bad2):
            ctx.violated('R11', f2, 'label read ...%s' % b, 'an end label is read before the empty-operand early return', node=f2.node)
        if not bad2:
            ctx.holds('R11', '%s: %d end-label reads, each after the size tests' % (name, cnt))
    # reindex step: np.take / ndarray.take from an empty source raises for any non-empty request (NumPy: "cannot do a non-empty take from an empty axes")
    for fr, who in ((ctx.fn(AL + 'reindex_axis'), 'reindex_axis'), (ctx.fn('dimarray.dataset.Dataset.reindex_axis'), 'Dataset.reindex_axis')):
        _empty_source_guard(ctx, fr, who)


def _empty_source_guard(ctx, fr, who):
    evr = run(ctx, fr, mode='fork', max_paths=50000)
    src = None
    guarded = None
    for p in evr.paths:
        for e in p.state.events:
            if e.kind == 'call' and T.call_name(e.a) in ('locate_many', 'take_axis'):
                src = e
                ok_here = False
                for a, pol in e.guards:
                    x = _nonempty_fact(a, pol)
                    if x is not None and 'axes[' in T.show(x):
                        ok_here = True            # the source axis has labels
                    # ... or nothing is requested (taking no position from an empty axis is fine)
                    if a[0] == 'cmp' and a[1] == '<' and a[2] == const(0) and pol is False and 'size' in T.show(a[3]) and 'axes[' not in T.show(a[3]):
                        ok_here = True
                    # (canonical form of every emptiness test: X.size == 0 / len(X) == 0)
                    if a[0] == 'cmp' and a[1] == '==' and a[3] == const(0) and pol is True and ('size' in T.show(a[2]) or 'len(' in T.show(a[2])) and 'axes[' not in T.show(a[2]):
                        ok_here = True
                guarded = ok_here if guarded is None else (guarded and ok_here)
    guarded = bool(guarded)
    if src is None:
        ctx.undecide('R11', '%s: the locate / take step was not found' % who)
    elif not guarded:
        ctx.violated('R11', fr, 'source axis may be empty', who + ' locates and takes positions in the source axis without a size test: for an input whose '
                     'label set is empty and a non-empty target (outer join with any other input) ndarray.take raises IndexError instead of giving an all-missing array',
                     node=src.node)
    else:
        ctx.holds('R11', who + ': take from the source axis guarded by a size test')


def rule_fold_direction(ctx):
    """R13: the direction clause for *lists* of inputs.  R2 establishes that _common_axis is the right fold ax0.union(_common_axis(axes[1:])), R10 gives Axis.union's
    direction table (extracted from the source, one entry per pair of operand directions).  Composing the two over every sequence of 3-4 operand directions
    decides whether inputs that are all sorted the same way (single-label inputs fit either way) come out sorted that way."""
    import itertools
    ctx.rule('R13', 'direction of the common axis for lists of 3-4 inputs (fold of the union table)', 1)
    if not UNION_TABLE or any(len(v) != 1 for k, v in UNION_TABLE.items() if set(k) != set(('inc', 'dec'))):
        ctx.undecide('R13', 'the union direction table of R10 is not functional: %s' % {k: sorted(v) for k, v in UNION_TABLE.items()})
        return
    tab = {k: sorted(v)[0] for k, v in UNION_TABLE.items()}

    def union(a, b):
        if 'unsorted' in (a, b):
            return 'unsorted'
        r = tab.get((a, b))
        if r is None:
            return 'unsorted'
        if (a, b) == ('single', 'single'):
            return r                 # two labels: the direction union1d gave them
        return r

    # the association of the joins is the one rule_fold found by interpreting _common_axis (right fold on the pinned tree)
    if 3 not in FOLD_TREES or 4 not in FOLD_TREES:
        try:
            for n in (3, 4):
                FOLD_TREES[n] = fold_tree(ctx, ['real'] * n, 'outer')
        except Exception as e:
            ctx.undecide('R13', 'the association of the fold could not be determined: %s' % e)
            return

    def fold(seq):
        def ev(tree):
            if isinstance(tree, tuple) and len(tree) == 3 and tree[0] in ('U', 'I'):          # (a wrong join method is R2's finding; R13 only needs the association)
                return union(ev(tree[1]), ev(tree[2]))
            return seq[tree]
        return ev(FOLD_TREES[len(seq)])
    failing = []
    nseq = 0
    for n in (3, 4):
        for seq in itertools.product(['inc', 'dec', 'single'], repeat=n):
            if 'inc' in seq and 'dec' in seq:
                continue
            nseq += 1
            want = 'dec' if 'dec' in seq else 'inc'
            got = fold(list(seq))
            if 'inc' not in seq and 'dec' not in seq:
                ok = got in ('inc', 'dec')
            else:
                ok = got == want
            if not ok:
                failing.append((seq, got, want))
    minimal = sorted(set(','.join(s) for s, g, w in failing if len(s) == 3))
    if failing:
        seq, got, want = failing[0]
        ctx.violated('R13', ctx.fn(AL + '_common_axis'), 'fold loses the direction for: ' + ' | '.join(minimal),
                     'align() of inputs stored (%s): all sorted the same way (single-label inputs fit either direction), but the right fold of Axis.union gives a result that is %s instead of %s - '
                     'two single-label axes are merged first (ascending, by np.union1d) and then clash with the decreasing one; %d of %d direction sequences of length 3-4 fail' % (
                         ', '.join(seq), got, want, len(failing), nseq))
    else:
        ctx.holds('R13', '%d direction sequences of length 3-4 keep their common direction through the fold' % nseq)


def rule_env(ctx):
    ctx.rule('R6', 'NumPy names reachable from align() resolve', 1)
    npapi.check_reachable(ctx, 'R6', [ctx.fn(AL + 'align'), ctx.fn(AX + 'Axis.union'), ctx.fn(AX + 'Axis.intersection')], depth=3)


def check(ctx):
    rule_set_algebra(ctx)
    rule_fold(ctx)
    rule_align(ctx)
    rule_sort_ownership(ctx)
    rule_merge_cast(ctx)
    rule_union_direction(ctx)
    rule_fold_direction(ctx)
    rule_empty_labels(ctx)
    # align() skips the reindexing of an input whose axis == the common axis: that equality must be exact (shared with C13)
    from . import c13 as _c13
    ctx.rule('R15', 'Axis.__eq__ (the "already aligned" test) is exact', 1)
    _c13.rule_axis_eq(ctx, 'R15')
    # the labels of newly inserted positions are written through Axis.__setitem__ (shared with C05)
    from . import c05 as _c05
    ctx.rule('R14', 'Axis.__setitem__ keeps the widened label buffer it writes into', 1)
    _c05.rule_axis_setitem(ctx, 'R14')
    rule_env(ctx)
    # the reindex step that align() delegates to (each input keeps its data at its labels, NaN elsewhere)
    from . import c07
    c07.rule_pipeline(ctx, rid='R7')
    # Datasets in the list are re-indexed by Dataset.reindex_axis: the sibling cross-check of C14
    from . import c14
    from ..report import Renamed
    c14.rule_reindex(Renamed(ctx, {'*': 'R12'}))
    c14.rule_reduce_axis(Renamed(ctx, {'*': 'R12'}))          # Dataset.take_axis / sort_axis / reindex_axis run through Dataset.reduce_axis
    d = default_of(ctx.fn(AL + 'align'), 'join')
    if d != const('outer'):
        ctx.violated('R2', ctx.fn(AL + 'align'), 'def align(join=...)', "align defaults to join='outer'")
    # Axis.union / intersection branch on is_monotonic: the ordered-ness predicates decide what their names say (shared with C02)
    from . import c02 as _c02
    ctx.rule('R16', 'is_monotonic / _is_ordered family (shared with C02)', 6)
    _c02.rule_predicates(Renamed(ctx, {'*': 'R16'}))
    ctx.not_decided += ['order of the union for mixed int/float kinds', 'NaN fill values (C07)', 'np.isin / np.union1d semantics (trusted)']
    ctx.trusted += ['np.isin(x, y) is a membership mask over x; np.union1d is the sorted unique union; np.concatenate keeps all elements in order']
    return EXPLANATION
