"""C15 - operations do not modify their operands; copies are independent (effect analysis).

  R1 no write through an operand   for every public non-in-place operation and every specialisation of its constant options, the
                                   interprocedural may-mutate summary contains no array-like parameter; a violation prints the call chain
                                   down to the primitive write
  R2 deep copy                     DimArray.copy() (shallow=False), Axis.copy(), Axes.copy() return values that alias no part of the operand
  R3 private shell in Dataset      Dataset.__setitem__ stores a shallow copy of the array with a deep copy of its axes (see C13-R2)
  R4 documented precision limit    Dataset.reindex_axis fills the variables of the fresh take_axis result under a has-dimension guard on the
                                   variable's own dims; reduce_axis stores fresh arrays for variables having the dimension
"""
import ast

from .. import terms as T
from ..terms import const
from ..rules import P_, run, ret_paths, elem_of_comp, cond_paths
from ..loader import AnalysisError, ClassInfo
from .. import effects

EXPLANATION = (
    "Interprocedural may-mutate / may-alias analysis (sa/effects.py): every function reachable from the public API is summarised by value numbering in "
    "join mode (which parameters may be written, directly or through callees; what the result may alias), specialised on constant options "
    "(inplace, sort, align, shallow, ...), with calls resolved by receiver type or class-hierarchy analysis and NumPy / builtin effects taken from frozen "
    "tables; summaries of call-graph cycles are iterated to a fixpoint. R1 requires an empty mutation set for every public non-in-place operation; the "
    "in-place API is an explicit table. Writes hidden in user-supplied callables and sharing of mutable metadata values are not decided.")

DIMARRAY = 'dimarray.core.dimarraycls.DimArray'
DATASET = 'dimarray.dataset.Dataset'
AXIS = 'dimarray.core.axes.Axis'
AXES = 'dimarray.core.axes.Axes'

# the in-place API: name -> reason (operations that are *meant* to modify their receiver)
INPLACE_API = {
    DIMARRAY: {
        '__setitem__': 'assignment', '_setitem': 'assignment', 'put': 'in place unless inplace=False (checked with inplace=False)', 'fill': 'numpy-like in-place fill',
        'values': 'setter', 'axes': 'setter', 'dims': 'setter', 'labels': 'setter', 'attrs': 'setter', 'set_axis': 'in place unless inplace=False (checked)',
        'reset_axis': 'deprecated alias of set_axis', '__setattr__': 'attribute routing', '__delattr__': 'attribute routing', '__init__': 'constructor',
        'write_nc': 'I/O (netCDF4 absent)', 'write': 'I/O', 'summary': 'prints', 'plot': 'matplotlib', 'bar': 'matplotlib', 'barh': 'matplotlib',
        'stackplot': 'matplotlib', 'contourf': 'matplotlib', 'contour': 'matplotlib', 'pcolor': 'matplotlib', 'to_pandas': 'pandas', 'to_larry': 'la',
        'to_cube': 'iris', 'from_cube': 'iris', 'from_pandas': 'pandas', 'iter': 'generator', '__iter__': 'generator', 'box': 'deprecated alias of self',
        'group': 'deprecated wrapper (same as flatten)', 'ungroup': 'deprecated wrapper'},
    DATASET: {
        '__setitem__': 'assignment', '__delitem__': 'deletion', 'axes': 'setter', 'dims': 'setter', 'attrs': 'setter', 'set_axis': 'checked with inplace=False',
        'rename_keys': 'checked with inplace=False', 'rename_axes': 'checked with inplace=False', 'reset': 'deprecated', '__init__': 'constructor',
        '__setattr__': 'attribute routing', '__delattr__': 'attribute routing', 'write_nc': 'I/O', 'write': 'I/O', 'read_nc': 'I/O', 'read': 'I/O',
        'summary': 'prints', '_maybe_delete_axes': 'private', 'to_odict': 'deprecated alias'},
    AXIS: {
        '__setitem__': 'label assignment', 'set': 'checked with inplace=False', 'reset': 'deprecated', 'sort': 'in-place sort', 'values': 'setter', 'name': 'setter',
        'tol': 'setter', 'attrs': 'setter', '__init__': 'constructor', '__setattr__': 'attribute routing', '__delattr__': 'attribute routing',
        'to_pandas': 'pandas', 'from_pandas': 'pandas', 'summary': 'prints'},
    AXES: {
        'append': 'list mutator', 'insert': 'list mutator', 'pop': 'list mutator', 'sort': 'in-place reorder', '__setitem__': 'axis replacement', '__init__': 'constructor',
        '__setattr__': 'attribute guard'},
}
# functions that implement the in-place API (a write inside them is blamed on their non-in-place caller)
INPLACE_STEPS = {'Axis.sort', 'Axis.__setitem__', 'Axis.set', 'Axis.values.setter', 'Axis.name.setter', 'Axes.append', 'Axes.insert', 'Axes.pop', 'Axes.sort',
                 'Axes.__setitem__', 'DimArray.fill', 'DimArray._setvalues_ortho', 'DimArray._setvalues_bool', 'DimArray._setvalues_broadcast',
                 'AbstractDimArray._setitem', 'DimArray.values.setter', 'DimArray.axes.setter', 'AbstractHasAxes._set_dims', 'AbstractHasAxes.dims.setter',
                 'AbstractHasAxes.labels.setter', 'AbstractHasMetadata.attrs.setter', 'AbstractHasMetadata.attrs.deleter', 'AbstractHasMetadata._metadata',
                 'GetSetDelAttrMixin.__setattr__', 'GetSetDelAttrMixin.__delattr__', 'Dataset.__setitem__', 'Dataset.__delitem__', 'Dataset._maybe_delete_axes',
                 'DatasetAxes.__setitem__', 'DimArray.set_axis', 'Dataset.set_axis', 'Dataset.dims.setter', 'Dataset.axes.setter'}
# parameters that are not operands
NON_OPERANDS = {'out': 'numpy-style output buffer', 'meta': 'explicit metadata update of _metadata()', 'memo': 'deepcopy protocol', 'cls': 'class'}
# options that are forced
FORCED = {'inplace': const(False), 'overwrite_input': const(False), 'copy': None}


def public_operations(ctx):
    """(label, FunctionInfo, self-type) for the public API"""
    P = ctx.P
    ops = []
    seen = set()
    for cq in (DIMARRAY, DATASET, AXIS, AXES):
        ci = P.cls(cq)
        for name, m in sorted(P.all_members(ci).items()):
            if name.startswith('_') and not (name.startswith('__') and name.endswith('__')):
                continue
            if name in INPLACE_API[cq]:
                # in-place by default, but those with an `inplace` option are checked with inplace=False
                try:
                    f0 = P.method(cq, name)
                except AnalysisError:
                    f0 = None
                if f0 is None or 'inplace' not in f0.params + f0.kwonly:
                    continue
            if name in ('__repr__', '__str__', '__getattr__', '__len__', '__array__', '__contains__', '__nonzero__', '__bool__', '__float__', '__int__',
                        '__deepcopy__', '__array_wrap__', '__sqrt__', '__div__', '__rdiv__', '__metadata_exclude__', '__metadata_include__', '__doc__'):
                continue
            owner = m.cls
            if not isinstance(owner, ClassInfo) or not owner.module.name.startswith('dimarray'):
                continue
            r = P.resolve_member(m)
            fis = []
            if r is None:
                continue
            if r[0] == 'func':
                fis = [r[1]]
            elif r[0] == 'prop':
                fis = [r[1]['fget']]
                # properties returning a bound method: follow
                try:
                    f2 = P.method(cq, name)
                    if f2 is not r[1]['fget']:
                        fis = [f2]
                except AnalysisError:
                    pass
            elif r[0] == 'numpydesc':
                fis = [P.func('dimarray.core.transform.apply_along_axis')]
            for fi in fis:
                if 'pandas' in name or 'pandas' in fi.name:
                    continue
                if fi.file.startswith('dimarray/plotting') or fi.file.startswith('dimarray/io') or fi.file.startswith('dimarray/convert') or fi.file.startswith('dimarray/prettyprinting'):
                    continue
                key = (cq, name)
                if key in seen:
                    continue
                seen.add(key)
                ops.append(('%s.%s' % (cq.rsplit('.', 1)[-1], name), fi))
    top = P.modules['dimarray']
    names = set()
    for modname in ('dimarray', 'dimarray.core'):
        mod = P.modules[modname]
        names |= set(mod.imports) | set(mod.functions)
        for src in mod.star_imports:
            m2 = P.modules.get(src)
            if m2 is not None and m2.all:
                names |= set(m2.all)
            elif m2 is not None:
                names |= set(n for n in list(m2.functions) + list(m2.imports) if not n.startswith('_'))
    for n in sorted(names):
        if n.startswith('_') or n in ('warnings', 'core', 'config', 'dataset', 'Path', 'np', 'da'):
            continue
        r = P.resolve_name(top, n) or P.resolve_name(P.modules['dimarray.core'], n)
        r = P._unwrap_assign(r)
        if r and r[0] == 'func':
            fi = r[1]
            if fi.file.startswith('dimarray/io') or fi.file.startswith('dimarray/config') or fi.file.startswith('dimarray/datasets') or fi.file.startswith('dimarray/tools'):
                continue
            if ('fn', fi.qualname) in seen or 'pandas' in fi.name:
                continue
            seen.add(('fn', fi.qualname))
            ops.append((n, fi))
    # the statistics library (percentile is part of C08's reductions; quantile is its sibling)
    lib = P.modules.get('dimarray.lib.stats')
    if lib is not None:
        for n, fi in sorted(lib.functions.items()):
            if not n.startswith('_') and ('fn', fi.qualname) not in seen:
                seen.add(('fn', fi.qualname))
                ops.append(('lib.stats.' + n, fi))
    return ops


def configs(fi):
    """specialisations of the constant options of fi"""
    defaults = fi.defaults()
    base = {}
    variable = []
    for p in fi.params + fi.kwonly:
        if p in FORCED:
            if FORCED[p] is not None:
                base[p] = FORCED[p]
            continue
        d = defaults.get(p)
        if d is not None and isinstance(d, ast.Constant) and isinstance(d.value, bool):
            variable.append(p)
    out = [dict(base)]
    for p in variable[:4]:
        out = [dict(c, **{p: const(v)}) for c in out for v in (False, True)]
    return out


def rule_no_write(ctx, E):
    ctx.rule('R1', 'no write through an operand (public non-in-place operations x option specialisations)', 80)
    import re
    ops = public_operations(ctx)
    # constructors: building an object from existing arrays / axes must not write into them (writes to the new object itself are the point)
    ctors = []
    for cq in (DIMARRAY, DATASET, AXIS, AXES, 'dimarray.core.axes.MultiAxis', 'dimarray.dataset.DatasetAxes'):
        try:
            ctors.append(('%s(...) [constructor]' % cq.rsplit('.', 1)[-1], ctx.P.method(cq, '__init__')))
        except AnalysisError:
            pass
    n_cfg = 0
    by_primitive = {}
    for label, fi in ops + ctors:
        ctx.functions.add(fi.qualname)
        bad = {}
        is_ctor = label.endswith('[constructor]')
        for cfg in configs(fi):
            n_cfg += 1
            s = E.summary(fi, cfg)
            for note in s.notes:
                ctx.undecide('R1', '%s: %s' % (label, note))
            for p, wit in s.mutates.items():
                if p.startswith('*') or p in NON_OPERANDS or (is_ctor and p == fi.params[0]):
                    continue
                bad.setdefault(p, (cfg, wit))
        if bad:
            for p, (cfg, wit) in sorted(bad.items()):
                chain = wit[0].split('  ->  ')
                # blame the deepest step that is not itself part of the in-place API (the call that applies an in-place
                # operation to operand-rooted state); the steps below it are the in-place API doing its job
                k = len(chain) - 1
                while k > 0 and chain[k].split(': ', 1)[0].replace('dimarray.core.', '').replace('dimarray.', '').split('.', 1)[-1] in INPLACE_STEPS:
                    k -= 1
                prim = chain[k]
                pq, rest = prim.split(': ', 1)
                stmt = re.sub(r'^\S+:\d+ ', '', rest)
                g = by_primitive.setdefault((pq, stmt), {'ops': [], 'chain': chain, 'where': rest.split(' ')[0]})
                g['ops'].append('%s(%s)%s' % (label, p, (' [' + ', '.join('%s=%s' % (k, v[1]) for k, v in sorted(cfg.items())) + ']') if cfg else ''))
        else:
            ctx.holds('R1', label, sample={'function': fi.qualname, 'configs': len(configs(fi))})
    # one finding per primitive write (the violating construct), listing the public operations that reach it
    for (pq, stmt), g in sorted(by_primitive.items()):
        pf = ctx.P.functions.get(pq)
        ops_txt = ', '.join(g['ops'][:8]) + (' ... (%d in all)' % len(g['ops']) if len(g['ops']) > 8 else '')
        f = ctx.violated('R1', pf if pf is not None else pq, stmt,
                         'in-place write `%s` (%s) is reached from non-in-place operation(s) through an access path rooted at an operand: %s' % (stmt, g['where'], ops_txt),
                         witness=g['chain'])
    ctx.info('R1: %d public operations, %d option specialisations; %d function summaries evaluated; calls: %d resolved to repository code, %d external (frozen tables), '
             '%d unknown callables (assumed pure)' % (len(ops), n_cfg, E.evaluated, E.calls_resolved, E.calls_external, E.calls_unknown))
    for (q, p), why in effects.IGNORED_WRITES.items():
        ctx.info('ignored write %s / %s: %s' % (q, p, why))
    for t, why in effects.BENIGN_FIELDS.items():
        ctx.info('benign field %s: %s' % (t, why))


def rule_deep_copy(ctx, E):
    ctx.rule('R2', 'copy() is deep', 3)
    P = ctx.P
    for q, cfg in ((DIMARRAY + '.copy', {'shallow': const(False)}), (AXIS + '.copy', {}), (AXES + '.copy', {})):
        fi = ctx.fn(q)
        s = E.summary(fi, cfg)
        if s.ret[0] or s.ret[1]:
            ctx.violated('R2', fi, q.rsplit('.', 2)[-2] + '.copy()', 'the copy may share %s with the original (must be copy.deepcopy): later changes to the copy would show through'
                         % sorted(set(r for r, d in s.ret[0]) | set(s.ret[1])))
        else:
            # and it must really be a deepcopy call, not a rebuilt object sharing buffers through an unknown constructor
            ev = run(ctx, fi, bind=cfg)
            okd = all(p.kind == 'return' and p.value[0] == 'call' and T.dotted(p.value[1]) == 'copy.deepcopy' and p.value[2] == (P_('self'),) for p in ev.paths)
            if okd:
                ctx.holds('R2', q.replace('dimarray.core.', '') + ' = copy.deepcopy(self)')
            else:
                ctx.violated('R2', fi, q.rsplit('.', 2)[-2] + '.copy()', 'copy() must be copy.deepcopy(self)')
    d = ctx.fn(DIMARRAY + '.copy').defaults().get('shallow')
    if not (isinstance(d, ast.Constant) and d.value is False):
        ctx.violated('R2', ctx.fn(DIMARRAY + '.copy'), 'def copy(self, shallow=...)', 'DimArray.copy() is deep by default (shallow=False)')


def rule_site(ctx, E):
    ctx.rule('R4', 'Dataset.reindex_axis / reduce_axis freshness correlation', 2)
    SELF = P_('self')
    fi = ctx.fn(DATASET + '.reindex_axis')
    ev = run(ctx, fi, mode='join', values_as_items=True)
    ok = True
    nput = 0
    for p in ret_paths(ev):
        ta = [e.a for e in p.calls('take_axis')]
        if not ta and not list(p.calls('put')) and any(a[0] == 'cmp' and a[1] == '==' and a[3] == const(0) and 'size' in T.show(a[2]) and pol is True for a, pol in p.guards):
            continue          # empty source axis: built per variable by DimArray.reindex_axis, nothing is written in place
        if len(ta) != 1 or T.call_receiver(ta[0]) != SELF:
            ctx.undecide('R4', 'Dataset.reindex_axis: take_axis step not recognised')
            return
        ds = ta[0]
        for e in p.calls('put'):
            nput += 1
            recv = T.call_receiver(e.a)
            eoc = elem_of_comp(recv)
            guards = list(e.guards)
            if eoc is not None:
                recv = eoc[0]               # (the variables were listed first: [dataset[k] for k in ... if <has the dimension>])
                for cnd in eoc[1]:
                    for g_, truth_ in cond_paths(cnd):
                        if truth_:
                            guards.extend(g_)
                            break
            base = recv[1] if recv[0] == 'sub' else None
            while base is not None and base[0] in ('mut', 'setitem'):
                base = base[1]
            if base != ds:
                ctx.violated('R4', fi, e.node, 'the in-place fill must act on the variables of the fresh take_axis result', node=e.node)
                ok = False
                continue
            k = recv[2]
            has = [(a, pol) for a, pol in guards if a[0] == 'cmp' and a[1] == 'in' and a[3][0] == 'attr' and a[3][2] == 'dims']
            good = [1 for a, pol in has if pol is True and a[3][1][0] == 'sub' and a[3][1][2] == k and 'name' in T.show(a[2])]
            if not good:
                ctx.violated('R4', fi, e.node, 'put(..., inplace=True) runs on a variable without the guard "the variable has the reindexed dimension" on the variable\'s own '
                             'dims: variables lacking the dimension were carried over from the operand by reference and would be filled in place', node=e.node)
                ok = False
        for e in p.events:
            if e.kind == 'store_sub' and e.a[0] == 'sub' and e.a[1][0] == 'attr' and e.a[1][2] == 'axes':
                base = e.a[1][1]
                while base[0] in ('mut', 'setitem'):
                    base = base[1]
                if base != ds:
                    ctx.violated('R4', fi, e.node, 'only the axes of the fresh result may be relabelled', node=e.node)
                    ok = False
    if ok and nput:
        ctx.holds('R4', 'Dataset.reindex_axis: guarded in-place fill of the fresh result')
    # reduce_axis: variables having the dimension are rebuilt from func(...) results with copied axes
    ra = ctx.fn(DATASET + '.reduce_axis')
    ev = run(ctx, ra, mode='join')
    okr = False
    for p in ret_paths(ev):
        for e in p.events:
            if e.kind == 'store_sub' and e.loops and isinstance(e.c, tuple):
                # (one store per case, or one store of either the rebuilt variable or the untouched one)
                for alt in T.value_alts(e.c):
                    while alt[0] in ('mut', 'setitem'):
                        alt = alt[1]
                    if alt[0] == 'call' and T.dotted(alt[1]) == 'DimArray' and alt[2]:
                        v0 = alt[2][0]
                        if v0[0] == 'call' and v0[1] == P_('func'):
                            okr = True
        axes_store = [e for e in p.events if e.kind == 'store_attr' and e.b == 'axes']
        for e in axes_store:
            s = T.show(e.c)
            if '.copy()' not in s:
                ctx.violated('R4', ra, e.node, 'the axes of the result must be copies of the operand axes', node=e.node)
                okr = None
    if okr:
        ctx.holds('R4', 'reduce_axis: variables having the dimension are rebuilt from func(item.values, ...), axes copied')
    elif okr is False:
        ctx.violated('R4', ra, 'reduce_axis', 'variables having the dimension must be rebuilt from the result of func')
    for (q, p), why in effects.SITE_DECIDED.items():
        ctx.info('site decided by R4: %s / %s: %s' % (q, p, why))


def check(ctx):
    E = effects.Effects(ctx.P)
    rule_no_write(ctx, E)
    rule_deep_copy(ctx, E)
    from . import c13
    ctx.rule('R3', 'Dataset.__setitem__ private shell (shared with C13-R2)', 1)
    before = len(ctx.findings)
    c13.rule_setitem(ctx)
    # re-label C13's identity findings that concern the private shell under this property
    if len(ctx.findings) == before:
        ctx.holds('R3', 'Dataset.__setitem__: copy.copy(val) + deepcopy(val.axes)')
    rule_site(ctx, E)
    # reshape() renames axes of a private working copy (SITE_DECIDED in sa/effects.py): the structural rule of C11 is re-run here
    from . import c11
    from ..report import Renamed
    ctx.rule('R5', 'reshape renames private copies of the axes only (site decided structurally, shared with C11)', 1)
    c11.rule_reshape(Renamed(ctx, {'*': 'R5'}))
    ctx.not_decided += ['writes hidden in user-supplied callables (apply, sort_axis(key=))', 'sharing of mutable metadata *values* between operand and result (not a write)',
                        'netCDF4 / pandas / matplotlib calls (absent; treated as external)']
    ctx.trusted += ['frozen effect tables for builtin containers and NumPy (views vs copies, in-place methods) in sa/effects.py',
                    'unknown callables passed as arguments do not write their arguments']
    return EXPLANATION
