"""C05 - every produced array is well-formed and history-independent (structural clauses).

  R1 checked constructor   every normal exit of DimArray.__init__ passed the `sizes of axes == values.shape` test,
                           which is evaluated after the representation was stored
  R2 who may write         stores to ._values / ._axes and count-changing mutators of an array's Axes occur only at the
                           frozen, individually justified sites
  R3 setter guards         DimArray.axes setter, Axes.__setitem__, Axis.values setter compare sizes before storing
  R4 names                 Axes.append rejects duplicate names; Axis.name setter rejects non-str / empty; _name written nowhere else
  R5 axis shape            _check_axis_values: 1-D or ValueError, str kinds -> object; every Axis._values store comes from it
                           or from a shape-preserving cast
  R6 cache typestate       every writer of Axis._values resets _monotonic afterwards on every path
  R7 constructor forms     _init_axes is total (returns Axes or raises TypeError); zeros/ones/nans/empty go through the
                           checked constructor and fill with the promised constant
  R10 axes growth          an Axes list grows only through Axes.append (duplicate-name test); no extend / += / raw list primitives
  R8 environment           NumPy calls on the constructor path are valid under the pinned NumPy (np.array(copy=False) rule)
"""
import ast

from .. import terms as T
from ..terms import const
from ..rules import P_, run, ret_paths, raise_paths, exc_name, bind_call_args
from ..loader import AnalysisError
from .. import npapi

EXPLANATION = (
    "Structural clauses of C05: guard-dominates-exit analysis of DimArray.__init__ (shape check after the stores), a who-may-write "
    "scan of every store to ._values/._axes/_name and of count-changing mutators on an array's Axes against a frozen table of "
    "justified sites, size/name/ndim guards of the setters evaluated on every path, typestate of the Axis monotonicity cache "
    "(every write of the labels is followed by a reset on all paths), totality of the _init_axes dispatch, the fill constants of "
    "zeros/ones/nans, and version-keyed NumPy API rules for the pinned NumPy. Equality of arrays built from different argument forms "
    "is a value-level statement and is not decided.")

SELF = P_('self')
CLS = 'dimarray.core.dimarraycls.'
AX = 'dimarray.core.axes.'


def rule_constructor(ctx):
    ctx.rule('R1', 'DimArray.__init__ shape check dominates normal exit', 1)
    fi = ctx.fn(CLS + 'DimArray.__init__')

    def oracle(atom, st):
        if atom == T.mkcmp('is', ('attr', SELF, '_order'), T.CONST_NONE):
            return True
        if atom[0] == 'cmp' and atom[1] == 'is' and atom[2] in (P_('_indexing'), P_('_indexing_broadcast')):
            return False
        return None
    ev = run(ctx, fi, mode='join', oracle=oracle)
    rets = ret_paths(ev)
    ctx.require('R1', rets, 'DimArray.__init__ has no normal exit')

    def shape_atom(a):
        # sizes-of-axes == values.shape
        if a[0] == 'cmp' and a[1] == '==':
            s = T.show(a)
            return 'size' in s and 'shape' in s and 'axes' in s
        return False
    raising = [p for p in raise_paths(ev) if any(shape_atom(a) and pol is False for a, pol in p.guards)]

    def by_interpretation():
        # the test is written some other way (a helper, a loop over the axes, a count test first ...): whether every mismatch between axes and data is refused is
        # read off the interpreted scenarios of the constructor (wrong sizes, one wrong size, fewer / more axes than dimensions, for Axis lists, Axes objects, label lists)
        from ..scenario_rule import rule_scenarios
        rule_scenarios(ctx, 'R1', only=CLS + 'DimArray.__init__', title='DimArray.__init__ refuses axes that disagree with the data (interpreted scenarios)')
    for p in rets:
        g = [pol for a, pol in p.guards if shape_atom(a)]
        if g != [True] and any(shape_atom(a) or ('size' in T.show(a) and 'shape' in T.show(a)) for a, pol in p.guards):
            return by_interpretation()
        if g != [True]:
            ctx.violated('R1', fi, 'normal exit', 'DimArray.__init__ can finish without having compared the sizes of the axes with the shape '
                         'of the data: arrays whose axes disagree with their values would be accepted', node=p.node)
            return
        atom = [a for a, pol in p.guards if shape_atom(a)][0]
        sides = (atom[2], atom[3])
        # (the stored objects, also under the local names they were stored from: self._values = values makes `values.shape` the shape of the stored data)
        st_vals = [e.c for e in p.events if e.kind == 'store_attr' and e.a == SELF and e.b == '_values']
        st_axes = [e.c for e in p.events if e.kind == 'store_attr' and e.a == SELF and e.b == '_axes']
        axes_terms = [('attr', SELF, 'axes'), ('attr', SELF, '_axes')] + st_axes[-1:]
        shape_terms = [('attr', ('attr', SELF, 'values'), 'shape'), ('attr', ('attr', SELF, '_values'), 'shape'), ('attr', SELF, 'shape')] + [('attr', v, 'shape') for v in st_vals[-1:]]
        ok_sides = any(any(T.contains(x, t) for t in axes_terms) for x in sides) and any(x in shape_terms for x in sides)
        if not ok_sides:
            return by_interpretation()
    if not raising:
        ctx.violated('R1', fi, 'shape mismatch', 'a mismatch between axes and data must raise')
        return
    # the stores happen before the check
    rp = raising[0]
    before = set(id(e) for e in rp.events)
    for p in rets:
        for e in p.events:
            if e.kind == 'store_attr' and e.a == SELF and e.b in ('_values', '_axes') and id(e) not in before:
                ctx.violated('R1', fi, e.node, 'self.%s is stored after the consistency check' % e.b, node=e.node)
                return
    stores = [e for e in rets[0].events if e.kind == 'store_attr' and e.a == SELF and e.b in ('_values', '_axes')]
    if len(stores) < 2:
        ctx.violated('R1', fi, 'stores', '__init__ must store both _values and _axes')
        return
    ctx.holds('R1', 'DimArray.__init__: stores, then sizes == shape or raise', sample=T.show([a for a, _ in rets[0].guards if shape_atom(a)][0])[:200])


# who may write the representation: (function qualname, attribute) -> reason
ALLOWED_STORES = {
    (CLS + 'DimArray.__init__', '_values'): 'constructor, before the R1 check',
    (CLS + 'DimArray.__init__', '_axes'): 'constructor, before the R1 check',
    (CLS + 'DimArray.values.setter', '_values'): 'values setter: _maybe_cast_type (dtype only) then in-place [:] write',
    (CLS + 'DimArray.axes.setter', '_axes'): 'axes setter, size-checked (R3)',
    (CLS + 'DimArray._setvalues_broadcast', '_values'): 'dtype widening only (_maybe_cast_type)',
    (CLS + 'DimArray._setvalues_bool', '_values'): 'dtype widening only (_maybe_cast_type)',
    (CLS + 'DimArray._setvalues_ortho', '_values'): 'dtype widening only (_maybe_cast_type)',
    ('dimarray.dataset.Dataset.__setitem__', '_axes'): 'deep copy of the value\'s own axes (same sizes) on a private shallow copy',
    ('dimarray.dataset.Dataset.__init__', '_axes'): 'Dataset own field (DatasetAxes)',
    (AX + 'Axis.__init__', '_values'): 'from _check_axis_values',
    (AX + 'Axis.values.setter', '_values'): 'from _check_axis_values, size-checked',
    (AX + 'Axis.__setitem__', '_values'): 'dtype widening only (_maybe_cast_type)',
    (AX + 'MultiAxis.__init__', '_values'): 'lazy cache initialised to None',
    (AX + 'MultiAxis.values', '_values'): 'lazy cache filled from the member axes',
}


def _local_ctor(P, fi, name_node):
    """'dataset' / 'ondisk' when the local name is only ever bound to a freshly constructed Dataset / on-disk store in this function"""
    kinds = set()
    for n in ast.walk(fi.node):
        if isinstance(n, ast.Assign) and any(isinstance(t, ast.Name) and t.id == name_node.id for t in n.targets):
            v = n.value
            callee = v.func.id if (isinstance(v, ast.Call) and isinstance(v.func, ast.Name)) else None
            cands = [c for q, c in P.classes.items() if callee is not None and q.split('.')[-1] == callee]
            if cands and all(c.module.relpath.startswith('dimarray/io/') for c in cands):
                kinds.add('ondisk')
            elif cands and all(c.qualname == 'dimarray.dataset.Dataset' for c in cands):
                kinds.add('dataset')
            else:
                kinds.add(None)
    return kinds.pop() if len(kinds) == 1 else None


def _param_always_dataset(P, fi, pname, depth=0):
    """the parameter `pname` of a helper the rules do not know by name (an extracted block) is a Dataset when every call site of the helper in the package
    passes the caller's own Dataset (`self` inside Dataset / DatasetAxes, a freshly constructed Dataset, or such a parameter in turn)"""
    from ..rules import known_functions
    if fi.qualname in known_functions() or pname not in fi.params or depth > 2:
        return False
    pos = fi.params.index(pname)
    method = fi.cls is not None
    sites = []
    for g in P.functions.values():
        if g.module is not fi.module and not method:
            continue
        for n in ast.walk(g.node):
            if not isinstance(n, ast.Call):
                continue
            if not method and isinstance(n.func, ast.Name) and n.func.id == fi.name and g.module.functions.get(fi.name) is fi:
                sites.append((g, n, pos))
            elif method and isinstance(n.func, ast.Attribute) and n.func.attr == fi.name and isinstance(n.func.value, ast.Name) and n.func.value.id == 'self' \
                    and g.cls is not None and fi.cls in g.cls.mro:
                sites.append((g, n, pos - 1))
        # (a helper that is handed around as a value is not resolved: no site, no claim)
        for n in ast.walk(g.node):
            if isinstance(n, ast.Name) and n.id == fi.name and isinstance(n.ctx, ast.Load) and not method and g.module is fi.module \
                    and not any(isinstance(c, ast.Call) and c.func is n for c in ast.walk(g.node)):
                return False
    if not sites:
        return False
    for g, n, i in sites:
        if any(isinstance(a, ast.Starred) for a in n.args):
            return False
        arg = n.args[i] if 0 <= i < len(n.args) else next((k.value for k in n.keywords if k.arg == pname), None)
        if not isinstance(arg, ast.Name):
            return False
        if arg.id == 'self' and g.cls is not None and g.cls.qualname in ('dimarray.dataset.Dataset', 'dimarray.dataset.DatasetAxes'):
            continue
        if _local_ctor(P, g, arg) == 'dataset':
            continue
        if arg.id in g.params and _param_always_dataset(P, g, arg.id, depth + 1):
            continue
        return False
    return True


def _own_axes_copied(ctx, fi):
    """Every store to X._axes made by fi has the shape `X = copy.copy(Y); X._axes = copy.deepcopy(X.axes)`: a private shallow copy gets a deep copy of its own axes -
    the same names and sizes as before (detaching an array from axis objects it shares, before they are replaced one by one through the checked Axes.__setitem__)."""
    from ..rules import run
    from .. import terms as T
    try:
        ev = run(ctx, fi, mode='join')
    except AnalysisError:
        return False
    n = 0
    for p in ev.paths:
        for e in p.events:
            if e.kind == 'store_attr' and e.b == '_axes' and e.frame == fi.qualname:
                x, v = e.a, e.c
                shallow = x[0] == 'call' and T.dotted(x[1]) == 'copy.copy' and len(x[2]) == 1
                if not shallow:
                    return False
                src = x[2][0]
                deep = v[0] == 'call' and T.dotted(v[1]) == 'copy.deepcopy' and len(v[2]) == 1 and v[2][0] in (('attr', x, 'axes'), ('attr', x, '_axes'), ('attr', src, 'axes'), ('attr', src, '_axes'))
                if not deep:
                    return False
                n += 1
    return n > 0


def _widening_only(ctx, fi):
    """Every store to X._values made by fi assigns _maybe_cast_type(X._values, ...) / _maybe_cast_type(X.values, ...): the array is re-typed, its shape
    (which is what the axes are checked against) stays what it was."""
    from ..rules import run
    from .. import terms as T
    try:
        ev = run(ctx, fi, mode='join')
    except AnalysisError:
        return False
    n = 0
    for p in ev.paths:
        for e in p.events:
            if e.kind == 'store_attr' and e.b == '_values' and e.frame == fi.qualname:
                v = e.c
                if not (v[0] == 'call' and T.call_name(v) == '_maybe_cast_type' and v[1][0] == 'name' and v[2]
                        and v[2][0] in (('attr', e.a, '_values'), ('attr', e.a, 'values'))):
                    return False
                n += 1
            elif e.kind == 'del' and e.frame == fi.qualname:
                return False
    return n > 0


def rule_who_may_write(ctx):
    ctx.rule('R2', 'who may write ._values / ._axes; count-changing mutators on an array\'s Axes', 12)
    P = ctx.P
    seen = set()
    for fi in sorted(P.functions.values(), key=lambda f: f.qualname):
        if fi.file.startswith('dimarray/io/') or fi.file.startswith('dimarray/convert/'):
            continue      # on-disk classes have their own representation (netCDF4 variables)
        for node in ast.walk(fi.node):
            if isinstance(node, ast.Attribute) and isinstance(node.ctx, (ast.Store, ast.Del)) and node.attr in ('_values', '_axes'):
                key = (fi.qualname, node.attr)
                ctx.functions.add(fi.qualname)
                if key in ALLOWED_STORES:
                    if key not in seen:
                        seen.add(key)
                        ctx.holds('R2', 'store %s.%s: %s' % (fi.qualname.replace('dimarray.', ''), node.attr, ALLOWED_STORES[key]))
                elif node.attr == '_axes' and _own_axes_copied(ctx, fi):
                    if key not in seen:
                        seen.add(key)
                        ctx.holds('R2', 'store %s._axes: a deep copy of the same object\'s own axes on a private shallow copy (same sizes)' % fi.qualname.replace('dimarray.', ''))
                elif node.attr == '_values' and _widening_only(ctx, fi):
                    if key not in seen:
                        seen.add(key)
                        ctx.holds('R2', 'store %s._values: dtype widening only (every store is _maybe_cast_type(<the same object\'s values>, ...))' % fi.qualname.replace('dimarray.', ''))
                else:
                    ctx.violated('R2', fi, node, 'direct write of .%s outside the checked constructor / setters: the shape-vs-axes '
                                 'check is by-passed' % node.attr, node=node)
            # count-changing mutators on X.axes of an array
            if isinstance(node, ast.Call) and isinstance(node.func, ast.Attribute) and node.func.attr in (
                    'append', 'insert', 'pop', 'remove', 'extend', 'clear', 'sort', 'reverse') \
                    and isinstance(node.func.value, ast.Attribute) and node.func.value.attr in ('axes', '_axes'):
                owner = node.func.value.value
                owner_txt = ast.unparse(owner)
                in_dataset = fi.cls is not None and fi.cls.qualname in ('dimarray.dataset.Dataset', 'dimarray.dataset.DatasetAxes') and owner_txt == 'self'
                ctor = _local_ctor(P, fi, owner) if isinstance(owner, ast.Name) else None
                if in_dataset or ctor in ('ondisk', 'dataset'):
                    continue     # the Dataset's own axes list (C13) / on-disk store
                if isinstance(owner, ast.Name) and owner.id in fi.params and _param_always_dataset(P, fi, owner.id):
                    continue     # the same, in a helper that is only ever handed the Dataset itself
                ctx.violated('R2', fi, node, 'count-changing mutation of an array\'s axes list in place: the number of axes no longer '
                             'matches the number of dimensions', node=node)
            if isinstance(node, ast.Delete):
                for t in node.targets:
                    if isinstance(t, ast.Subscript) and isinstance(t.value, ast.Attribute) and t.value.attr in ('axes', '_axes'):
                        ctx.violated('R2', fi, node, 'deleting an entry of an array\'s axes list in place', node=node)
    # each writer of DimArray._values outside __init__ stores a shape-preserving term
    for name in ('_setvalues_broadcast', '_setvalues_bool', '_setvalues_ortho'):
        fi = ctx.fn(CLS + 'DimArray.' + name)
        ev = run(ctx, fi, mode='join')
        for p in ev.paths:
            for e in p.events:
                if e.kind == 'store_attr' and e.b == '_values':
                    if not (e.c[0] == 'call' and T.call_name(e.c) == '_maybe_cast_type' and e.c[2][0] in (('attr', SELF, '_values'), ('attr', SELF, 'values'))):
                        ctx.violated('R2', fi, e.node, 'a writer may only replace _values by a dtype-widened version of itself', node=e.node)
    fi = ctx.fn('dimarray.dataset.Dataset.__setitem__')
    ev = run(ctx, fi, mode='join')
    for p in ev.paths:
        for e in p.events:
            if e.kind == 'store_attr' and e.b == '_axes':
                ok = e.c[0] == 'call' and T.dotted(e.c[1]) in ('copy.deepcopy',) and e.c[2] and e.c[2][0] == ('attr', e.a, 'axes')
                if not ok:
                    ctx.violated('R2', fi, e.node, 'Dataset.__setitem__ may only replace the axes container by a deep copy of the same axes', node=e.node)


def rule_setter_guards(ctx):
    ctx.rule('R3', 'size guards of the setters', 3)
    # DimArray.axes setter
    m = ctx.P.lookup(ctx.P.cls(CLS + 'DimArray'), 'axes')
    fi = m.value['fset']
    ctx.functions.add(fi.qualname)
    ev = run(ctx, fi)
    ok = True
    nstores = 0
    for p in ev.paths:
        for e in p.events:
            if e.kind == 'store_attr' and e.a == SELF and e.b == '_axes':
                nstores += 1
                stored = e.c
                checked = False
                for e2 in p.events[:p.events.index(e)]:
                    if e2.kind == 'assert' and e2.a is not None and 'size' in T.show(e2.a) and 'shape' in T.show(e2.a) and T.contains(e2.a, stored):
                        checked = True
                for a, pol in p.guards:
                    if 'size' in T.show(a) and 'shape' in T.show(a) and T.contains(a, stored):
                        checked = True
                if not checked:
                    ctx.violated('R3', fi, e.node, 'a path stores new axes without comparing their sizes with self.shape '
                                 '(e.g. a.axes = [Axis([1, 2, 3], \'x\')] on shape (2,) is accepted)', node=e.node,
                                 witness=['guards: ' + ', '.join('%s=%s' % (T.show(a)[:80], b) for a, b in p.guards)])
                    ok = False
    if ok and nstores:
        ctx.holds('R3', 'DimArray.axes setter: sizes compared with shape on %d storing paths' % nstores)
    # Axes.__setitem__
    fi = ctx.fn(AX + 'Axes.__setitem__')
    ev = run(ctx, fi)
    ok = True
    n = 0
    for p in ev.paths:
        for e in p.calls('__setitem__'):
            if T.dotted(e.a[1]) == 'list.__setitem__' or 'super' in T.show(e.a[1]):
                n += 1
                g = [(a, pol) for a, pol in e.guards if a[0] == 'cmp' and a[1] == '==' and 'size' in T.show(a)]
                if not any(pol is True for a, pol in g):
                    ctx.violated('R3', fi, e.node, 'Axes.__setitem__ must refuse an axis of another size', node=e.node)
                    ok = False
    if ok and n:
        ctx.holds('R3', 'Axes.__setitem__: size guard on %d paths' % n)
    elif not n:
        ctx.undecide('R3', 'Axes.__setitem__: list.__setitem__ call not found')
    # Axis.values setter
    m = ctx.P.lookup(ctx.P.cls(AX + 'Axis'), 'values')
    fi = m.value['fset']
    ctx.functions.add(fi.qualname)
    ev = run(ctx, fi)
    ok = True
    n = 0
    for p in ev.paths:
        for e in p.events:
            if e.kind == 'store_attr' and e.b == '_values':
                n += 1
                g = [pol for a, pol in p.guards if a[0] == 'cmp' and a[1] == '==' and 'size' in T.show(a)]
                if True not in g:
                    ctx.violated('R3', fi, e.node, 'Axis.values setter must refuse labels of another size', node=e.node)
                    ok = False
    if ok and n:
        ctx.holds('R3', 'Axis.values setter: size guard')


def _any_name_equals(a, name=None):
    """`any(ax.name == <name> for ax in <axes>)`: the membership test `<name> in [ax.name for ax in <axes>]` spelled with any()"""
    if not (a[0] == 'call' and T.dotted(a[1]) == 'any' and len(a[2]) == 1 and a[2][0][0] == 'comp'):
        return False
    elt = a[2][0][2]
    if not (elt[0] == 'cmp' and elt[1] == '=='):
        return False
    sides = (elt[2], elt[3])
    own = [x for x in sides if x[0] == 'attr' and x[2] in ('name', '_name') and x[1][0] == 'elem']
    if len(own) != 1:
        return False
    other = sides[1] if sides[0] is own[0] else sides[0]
    return name is None or other == name


def rule_names(ctx):
    ctx.rule('R4', 'dimension names: distinct, non-empty str', 3)
    fi = ctx.fn(AX + 'Axes.append')
    ev = run(ctx, fi)
    n = 0
    ok = True
    for p in ev.paths:
        for e in p.calls('append'):
            if T.dotted(e.a[1]) == 'list.append' or 'super' in T.show(e.a[1]):
                n += 1
                new = e.a[2][-1]
                g = [pol for a, pol in e.guards if (a[0] == 'cmp' and a[1] == 'in' and a[2] == ('attr', new, 'name')) or _any_name_equals(a, ('attr', new, 'name'))]
                if g != [False]:
                    ctx.violated('R4', fi, e.node, 'Axes.append must reject an axis whose name already exists', node=e.node)
                    ok = False
    bad = [p for p in raise_paths(ev) if exc_name(p.value) != 'ValueError']
    if not raise_paths(ev):
        ctx.violated('R4', fi, 'duplicate name', 'a duplicate dimension name must raise')
        ok = False
    if ok and n:
        ctx.holds('R4', 'Axes.append: duplicate-name guard')
    # Axis.name setter
    m = ctx.P.lookup(ctx.P.cls(AX + 'Axis'), 'name')
    fi = m.value['fset']
    ctx.functions.add(fi.qualname)
    ev = run(ctx, fi)
    NAME = P_(fi.params[1])
    ok = True
    n = 0
    for p in ev.paths:
        for e in p.events:
            if e.kind == 'store_attr' and e.b == '_name':
                n += 1
                isstr = [pol for a, pol in p.guards if a[0] == 'call' and T.dotted(a[1]) == 'isinstance' and a[2] == (NAME, ('name', 'str'))]
                nonempty = [pol for a, pol in p.guards if a == NAME]
                if isstr != [True] or nonempty != [True] or e.c != NAME:
                    ctx.violated('R4', fi, e.node, 'Axis.name setter must accept only non-empty str names', node=e.node)
                    ok = False
    if ok and n:
        ctx.holds('R4', 'Axis.name setter: str and non-empty')
    # _name written nowhere else
    allowed = {fi.qualname, AX + 'MultiAxis.__init__'}
    okw = True
    for f in ctx.P.functions.values():
        if f.file.startswith('dimarray/io/'):
            continue
        for node in ast.walk(f.node):
            if isinstance(node, ast.Attribute) and isinstance(node.ctx, ast.Store) and node.attr == '_name' and f.qualname not in allowed:
                ctx.violated('R4', f, node, 'axis names may only be written through the checked Axis.name setter', node=node)
                okw = False
    if okw:
        ctx.holds('R4', '_name written only by the name setter and MultiAxis.__init__')
    fi = ctx.fn(AX + 'MultiAxis.__init__')
    ev = run(ctx, fi, mode='join')
    for p in ev.paths:
        for e in p.events:
            if e.kind == 'store_attr' and e.b == '_name':
                if not (e.c[0] == 'call' and T.call_name(e.c) == 'join' and e.c[1][1] == const(',')):
                    ctx.violated('R4', fi, e.node, 'a grouped axis is named by the comma-joined member names', node=e.node)


def rule_axis_shape(ctx):
    ctx.rule('R5', 'axis labels are 1-D; str kinds stored as object', 2)
    fi = ctx.fn(AX + '_check_axis_values')
    ev = run(ctx, fi, mode='fork')
    ok = True
    for p in ret_paths(ev):
        nd = [pol for a, pol in p.guards if a[0] == 'cmp' and a[1] == '==' and a[3] == const(1) and 'ndim' in T.show(a[2])]
        if True not in nd:
            ctx.violated('R5', fi, 'return ' + T.show(p.value)[:100], '_check_axis_values can return labels that are not 1-D', node=p.node)
            ok = False
            break
        su = [(a, pol) for a, pol in p.guards if a[0] == 'cmp' and a[1] == 'in' and 'kind' in T.show(a[2])]
        for a, pol in su:
            if pol and not (p.value[0] == 'call' and T.kw(p.value, 'dtype') == ('name', 'object')):
                ctx.violated('R5', fi, 'return ' + T.show(p.value)[:100], 'str labels must be stored as object dtype', node=p.node)
                ok = False
    if not any(exc_name(p.value) == 'ValueError' for p in raise_paths(ev)):
        ctx.violated('R5', fi, 'ndim != 1', 'labels that are not 1-D must raise ValueError')
        ok = False
    if ok:
        ctx.holds('R5', '_check_axis_values: 1-D or ValueError, S/U -> object')
    # stores to Axis._values
    good = True
    for q in (AX + 'Axis.__init__', AX + 'Axis.values.setter', AX + 'Axis.__setitem__'):
        f = ctx.fn(q)
        ev = run(ctx, f, mode='join')
        for p in ev.paths:
            for e in p.events:
                if e.kind == 'store_attr' and e.b == '_values' and e.a == SELF:
                    c = e.c
                    ok1 = c[0] == 'call' and T.call_name(c) in ('_check_axis_values', '_maybe_cast_type')
                    if not ok1:
                        ctx.violated('R5', f, e.node, 'axis labels must come from _check_axis_values(...) or a dtype-only widening', node=e.node)
                        good = False
    if good:
        ctx.holds('R5', 'every store of Axis._values goes through _check_axis_values / _maybe_cast_type')


def rule_cache(ctx):
    ctx.rule('R6', 'monotonicity cache reset after every label write', 4)
    writers = [AX + 'Axis.__init__', AX + 'Axis.values.setter', AX + 'Axis.__setitem__', AX + 'Axis.sort']
    for q in writers:
        fi = ctx.fn(q)
        ev = run(ctx, fi)
        ok = True
        nw = 0
        for p in ret_paths(ev):
            evs = p.events
            last_write = None
            for i, e in enumerate(evs):
                if (e.kind == 'store_attr' and e.a == SELF and e.b == '_values') or \
                        (e.kind == 'store_sub' and e.a in (('attr', SELF, '_values'), ('attr', SELF, 'values'))) or \
                        (e.kind == 'call' and T.call_name(e.a) in ('sort', 'fill', 'put', 'partition') and T.call_receiver(e.a) in (('attr', SELF, '_values'), ('attr', SELF, 'values'))):
                    last_write = i
            if last_write is None:
                continue
            nw += 1
            resets = [e for e in evs[last_write + 1:] if e.kind == 'store_attr' and e.a == SELF and e.b == '_monotonic']
            if not resets:
                ctx.violated('R6', fi, evs[last_write].node, 'the labels are written but the cached monotonicity flag is not reset afterwards '
                             'on this path: later slices would use a stale ordering', node=evs[last_write].node)
                ok = False
                continue
            val = resets[-1].c
            issort = evs[last_write].kind == 'call' and T.call_name(evs[last_write].a) == 'sort'
            if not (val == T.CONST_NONE or (issort and val == T.CONST_TRUE)):
                ctx.violated('R6', fi, resets[-1].node, 'after a label write the cache must be invalidated (None); True is only right directly after an in-place sort',
                             node=resets[-1].node)
                ok = False
        if ok and nw:
            ctx.holds('R6', q.replace('dimarray.core.axes.', '') + ': cache reset after write')
        elif not nw:
            ctx.undecide('R6', '%s no longer writes the labels' % q)
    # nobody outside class Axis writes into ax.values / ax._values
    okk = True
    for f in ctx.P.functions.values():
        if f.file.startswith('dimarray/io/') or f.file.startswith('dimarray/convert/'):
            continue
        if f.cls is not None and f.cls.qualname in (AX + 'Axis', AX + 'MultiAxis'):
            continue
        for node in ast.walk(f.node):
            tgt = None
            if isinstance(node, ast.Subscript) and isinstance(node.ctx, ast.Store):
                tgt = node.value
            elif isinstance(node, ast.AugAssign):
                tgt = node.target if isinstance(node.target, ast.Attribute) else (node.target.value if isinstance(node.target, ast.Subscript) else None)
            if isinstance(tgt, ast.Attribute) and tgt.attr in ('values', '_values'):
                owner = ast.unparse(tgt.value)
                # labels of an axis: X.axes[...].values[...] = / ax.values[...] =
                if 'axes[' in owner or owner in ('ax', 'axis', 'newaxis', 'curaxis', 'oldaxis', 'newax'):
                    if f.qualname == 'dimarray.lib.stats.quantile':
                        continue    # `res.axes[axis].values /= 100.` goes through the Axis.values setter (reset) on a fresh result
                    ctx.violated('R6', f, node, 'axis labels are written in place from outside class Axis: the monotonicity cache and the dtype '
                                 'widening of Axis.__setitem__ are by-passed', node=node)
                    okk = False
    if okk:
        ctx.holds('R6', 'no in-place label write outside class Axis')
    # Axis.__getitem__ copies the flag only for slices
    fi = ctx.fn(AX + 'Axis.__getitem__')
    ev = run(ctx, fi)
    okg = True
    for p in ev.paths:
        for e in p.events:
            if e.kind == 'store_attr' and e.b == '_monotonic' and e.a != SELF:
                from ..rules import alternatives
                for val, extra in alternatives(e.c):
                    if val == T.CONST_NONE:
                        continue       # the flag starts unset: nothing is inherited
                    guards = tuple(e.guards) + tuple(extra)
                    g = [pol for a, pol in guards if 'slice' in T.show(a) and ('type' in T.show(a) or 'isinstance' in T.show(a))]
                    if True not in g:
                        ctx.violated('R6', fi, e.node, 'the ordering flag may only be inherited by a sub-axis taken with a slice', node=e.node)
                        okg = False
                    # only a *positive* answer carries over: a slice of a non-monotonic axis may well be monotonic
                    truthy = [pol for a, pol in guards if a in (('attr', SELF, '_monotonic'), T.mkcmp('is', ('attr', SELF, '_monotonic'), T.CONST_TRUE))]
                    if True not in truthy and val != T.CONST_TRUE:
                        ctx.violated('R6', fi, e.node, 'only a cached True may be inherited by a slice: a cached False (parent not monotonic) says nothing '
                                     'about the slice and would make later alignments depend on the array\'s history', node=e.node)
                        okg = False
    if okg:
        ctx.holds('R6', 'Axis.__getitem__ inherits the flag for slices only')


def rule_subclass_fields(ctx):
    """R9: a subclass whose __init__ does not call the base __init__ must initialise every private field the inherited methods read"""
    ctx.rule('R9', 'subclasses initialise the fields their inherited methods read', 1)
    P = ctx.P
    n = 0
    for ci in P.classes.values():
        if not ci.module.name.startswith('dimarray.core') and ci.module.name != 'dimarray.dataset':
            continue
        init = ci.members.get('__init__')
        if init is None or init.kind != 'func':
            continue
        bases = [b for b in ci.mro[1:] if hasattr(b, 'members') and '__init__' in b.members]
        if not bases:
            continue
        src = ast.unparse(init.value.node)
        if 'super(' in src or any((b.name + '.__init__') in src for b in bases):
            continue
        # fields assigned by the subclass constructor / class attributes along the MRO
        assigned = set()
        for node in ast.walk(init.value.node):
            if isinstance(node, ast.Attribute) and isinstance(node.ctx, ast.Store) and isinstance(node.value, ast.Name) and node.value.id == init.value.params[0]:
                assigned.add(node.attr)
        for c in ci.mro:
            if hasattr(c, 'members'):
                for k, m in c.members.items():
                    if m.kind in ('const', 'prop', 'alias'):
                        assigned.add(k)
        # fields read by inherited, non-overridden methods
        missing = {}
        for b in bases:
            for k, m in b.members.items():
                if k in ci.members or k == '__init__':
                    continue
                fns = []
                if m.kind == 'func':
                    fns = [m.value]
                elif m.kind == 'prop':
                    fns = [f for f in m.value.values() if f is not None]
                for f in fns:
                    if not f.params:
                        continue
                    for node in ast.walk(f.node):
                        if isinstance(node, ast.Attribute) and isinstance(node.ctx, ast.Load) and isinstance(node.value, ast.Name) \
                                and node.value.id == f.params[0] and node.attr.startswith('_') and not node.attr.startswith('__') \
                                and node.attr not in assigned and P.lookup(ci, node.attr) is None:
                            missing.setdefault(node.attr, f.qualname)
        n += 1
        if missing:
            for fld, where in sorted(missing.items()):
                ctx.violated('R9', init.value, '%s.__init__ does not set %s' % (ci.name, fld), '%s does not call its base constructor and never sets `%s`, which the inherited %s reads: '
                             'the object raises AttributeError on that operation (e.g. indexing along a flattened axis)' % (ci.qualname, fld, where.replace('dimarray.', '')))
        else:
            ctx.holds('R9', '%s initialises every field its inherited methods read' % ci.name)
    if not n:
        ctx.holds('R9', 'no subclass constructor by-passes its base constructor')


def rule_label_list_dispatch(ctx, rid='R7'):
    """the `axes=[labels0, labels1, ...]` form (what from_json passes): recognised by the *type* of the elements, so that an empty label list
    (a zero-length axis) is a label list too"""
    fi = ctx.fn(AX + '_init_axes')
    ev = run(ctx, fi, mode='fork', max_paths=20000)
    AXES_P = P_('axes')
    seen = 0
    for p in ret_paths(ev):
        if not any(alt[0] == 'call' and (T.dotted(alt[1]) or '') == 'Axes.from_arrays' for alt in T.value_alts(p.value)):
            continue
        g = [(a, pol) for a, pol in p.guards if a[0] == 'call' and T.dotted(a[1]) in ('np.all', 'all') and pol is True]
        if not g:
            ctx.undecide(rid, '_init_axes: the guard of the from_arrays branch was not recognised')
            return
        a = g[-1][0]
        comp = a[2][0] if a[2] else None
        if comp is None or comp[0] != 'comp':
            ctx.undecide(rid, '_init_axes: from_arrays guard is %s' % T.show(a)[:80])
            return
        seen += 1
        elt = comp[2]
        content = [x for x in T.subterms(elt) if x[0] == 'call' and T.call_name(x) in ('is_array1d_equiv', 'size', 'len', 'asarray', 'any', 'iterable')]
        types = set()
        for x in T.subterms(elt):
            if x[0] == 'cmp' and x[1] == 'in' and x[3][0] in ('tuple', 'list'):
                types |= set(T.dotted(y) for y in x[3][1])
            if x[0] == 'call' and T.dotted(x[1]) == 'isinstance' and len(x[2]) == 2:
                ty = x[2][1]
                types |= set(T.dotted(y) for y in (ty[1] if ty[0] == 'tuple' else [ty]))
        only_1d = content and all(T.call_name(x) == 'is_array1d_equiv' for x in content)
        if only_1d and array1d_equiv_handles_empty(ctx):
            # a content test is fine when the predicate answers True for an empty list (first-element reads guarded: the rule of R13)
            continue
        if content:
            ctx.violated(rid, fi, 'label-list dispatch', 'the `axes=[labels, ...]` form is recognised with the content test %s: an empty label list (zero-length axis, as read back '
                         'from JSON) is not "1-d array equivalent" and the constructor raises TypeError' % T.show(content[0])[:60], node=p.node)
            return
        if not {'list', 'np.ndarray'} <= types:
            ctx.violated(rid, fi, 'label-list dispatch', 'the `axes=[labels, ...]` form must accept list and np.ndarray elements (found %s)' % sorted(t for t in types if t), node=p.node)
            return
    if seen:
        ctx.holds(rid, '_init_axes: label lists recognised by element type (list / ndarray), empty lists included')
    else:
        ctx.violated(rid, fi, 'label-list dispatch', '_init_axes has no branch for axes given as a list of label sequences (Axes.from_arrays)')


RENAME_ROUTES = [
    ('dimarray.core.bases.AbstractHasAxes._set_dims', 'a.dims = (...) / a.dims = {old: new}'),
    (AX + 'Axes.__setitem__', 'a.axes[k] = Axis(values, name)'),
    (CLS + 'DimArray.set_axis', 'a.set_axis(name=...)'),
    ('dimarray.dataset.Dataset.set_axis', 'ds.set_axis(name=...)'),
    ('dimarray.dataset.Dataset.dims.setter', 'ds.dims = (...)'),
    ('dimarray.dataset.Dataset.rename_axes', 'ds.rename_axes({old: new})'),
]


def rule_rename_routes(ctx, rid='R4'):
    """"dimension names that are distinct ... duplicate dimension names are rejected with an exception" also after renaming: every array-level route that can
    give an axis a new name must refuse a name another axis of the same array already has (Axis.name itself cannot know its siblings)."""
    for q, how in RENAME_ROUTES:
        fi = ctx.P.functions.get(q)
        if fi is None:
            ctx.undecide(rid, 'rename route %s vanished' % q)
            continue
        ev = run(ctx, fi, mode='fork', max_paths=20000)
        def is_dup_test(a):
            sh = T.show(a)
            # len(set(names)) != len(names)   |   newname in <names of the array>
            if a[0] == 'cmp' and a[1] == '==' and 'len(' in sh and 'set(' in sh:
                return 'eq'
            if a[0] == 'cmp' and a[1] in ('<', '<=') and 'len(' in T.show(a[2]) and 'len(' in T.show(a[3]):
                # len(set(names)) < len(names)  (duplicates iff true)   |   len(names) <= len(set(names))  (duplicates iff false)
                l_set, r_set = 'set(' in T.show(a[2]), 'set(' in T.show(a[3])
                if a[1] == '<' and l_set and not r_set:
                    return 'lt'
                if a[1] == '<=' and r_set and not l_set:
                    return 'eq'
            if a[0] == 'cmp' and a[1] == 'in' and ('name' in T.show(a[2]) or a[2][0] == 'param') and ('dims' in T.show(a[3]) or 'name' in T.show(a[3])):
                return 'in'
            if _any_name_equals(a):
                return 'in'
            return None
        rejects = False
        for p in raise_paths(ev):
            if exc_name(p.value) != 'ValueError':
                continue
            for a, pol in p.guards:
                k = is_dup_test(a)
                if (k == 'eq' and pol is False) or (k in ('in', 'lt') and pol is True):
                    rejects = True
        # a route that hands the renaming over to another route of this table (on the same object) is as good as that one
        others = dict((r.rsplit('.', 1)[-1], r) for r, _ in RENAME_ROUTES if r != q and not r.endswith('.setter'))
        deleg = None
        rets = ret_paths(ev)
        if not rejects and rets:
            names = None
            for p in rets:
                here = set(T.call_name(e.a) for e in p.calls() if T.call_name(e.a) in others and T.call_receiver(e.a) == SELF
                           and not any(e2.kind == 'store_attr' and e2.b in ('name', '_name') for e2 in p.events))
                names = here if names is None else names & here
            if names:
                deleg = sorted(names)[0]
        if rejects:
            ctx.holds(rid, '%s: a name already used by another axis is refused' % how)
        elif deleg:
            ctx.holds(rid, '%s: handed over to self.%s(...) on every path, which refuses a name already in use (checked as its own route)' % (how, deleg))
        else:
            ctx.violated(rid, fi, 'rename to an existing dimension name accepted', '%s gives an axis a new name without testing it against the other dimension names of the array: '
                         'the array ends up with dims like (\'y\', \'y\'), after which a.axes[\'y\'], a.sum(axis=\'y\') ... silently address the first of the two' % how, node=fi.node)


def rule_axis_setitem(ctx, rid='R3'):
    """Axis.__setitem__ (used by reindex_axis to write the labels of newly inserted positions, and by ds.axes[d][i] = label): the labels are written into the
    buffer that is stored in _values - when the dtype has to be widened (int labels receiving float labels) _maybe_cast_type returns a new array"""
    fi = ctx.fn(AX + 'Axis.__setitem__')
    ITEM, VALUE = P_(fi.params[1]), P_(fi.params[2])
    ev = run(ctx, fi)
    ok = True
    for p in ret_paths(ev):
        stores = [e for e in p.events if e.kind == 'store_attr' and e.a == SELF and e.b == '_values']
        writes = [e for e in p.events if e.kind == 'store_sub']
        if len(stores) != 1 or not (stores[0].c[0] == 'call' and T.call_name(stores[0].c) == '_maybe_cast_type' and stores[0].c[2][:2] == (('attr', SELF, '_values'), VALUE)):
            ctx.violated(rid, fi, 'Axis.__setitem__: store of the widened labels', 'the array returned by _maybe_cast_type(self._values, value) must be kept in self._values: when the label dtype '
                         'is widened it is a new buffer, and a write into a local copy is lost (reindexing int labels onto float labels then repeats the last label)', node=fi.node)
            ok = False
            continue
        good = [w for w in writes if w.a == ('attr', SELF, '_values') and w.b == ITEM and w.c == VALUE and p.events.index(w) > p.events.index(stores[0])]
        if len(good) != 1 or len(writes) != 1:
            ctx.violated(rid, fi, 'Axis.__setitem__: write of the labels', 'after the store the labels are written as self._values[item] = value (and nowhere else)', node=fi.node)
            ok = False
    if ok:
        ctx.holds(rid, 'Axis.__setitem__: self._values = _maybe_cast_type(self._values, value); self._values[item] = value')


def rule_forms(ctx):
    ctx.rule('R7', 'constructor forms', 5)
    fi = ctx.fn(AX + '_init_axes')
    ev = run(ctx, fi, mode='fork', max_paths=20000)
    ok = True
    builders = set()
    for p in ret_paths(ev):
        v = p.value
        good = False
        for alt in T.value_alts(v):
            if alt[0] == 'call':
                d = T.dotted(alt[1]) or ''
                if d in ('Axes', 'Axes.from_shape', 'Axes.from_arrays', 'Axes.from_dict'):
                    good = True
                    builders.add(d)
        if not good:
            ctx.violated('R7', fi, 'return ' + T.show(v)[:120], '_init_axes must return an Axes built by Axes(...), from_shape, from_arrays or from_dict',
                         node=p.node)
            ok = False
            break
    for p in raise_paths(ev):
        if exc_name(p.value) not in ('TypeError', 'AssertionError'):
            ctx.violated('R7', fi, 'raise ' + exc_name(p.value), 'unsupported axes specifications raise TypeError', node=p.node)
            ok = False
    if ok:
        ctx.holds('R7', '_init_axes total: %s' % sorted(builders))
    rule_label_list_dispatch(ctx, 'R7')
    # Axes.from_dict: an explicit dims= decides the order, whether or not the data shape is known (shape-based ordering is the fallback for dims=None only)
    fd = ctx.fn(AX + 'Axes.from_dict')
    DIMS_ = P_('dims')
    for shape_known in (False, True):
        evd = run(ctx, fd, mode='join', oracle=lambda a, st, sk=shape_known: (
            False if a == T.mkcmp('is', DIMS_, T.CONST_NONE) else
            (not sk) if a == T.mkcmp('is', P_('shape'), T.CONST_NONE) else
            False if (a[0] == 'cmp' and a[1] == '==' and a[3] == const(0) and 'len' in T.show(a[2])) else
            True if (a[0] == 'call' and T.call_name(a) == 'len' and a[2] == (P_('kwaxes'),)) else           # `if not len(kwaxes):` - some axes are given
            True if a == P_('kwaxes') else None))
        rets = ret_paths(evd)
        if not rets:
            ctx.violated('R7', fd, 'from_dict(dims=..., shape %s)' % ('given' if shape_known else 'unknown'), 'Axes.from_dict never returns when dims= is given')
            continue
        oks = [any(T.call_name(e.a) == 'sort' and e.a[2][:1] == (DIMS_,) for e in p.calls('sort')) for p in rets]
        if all(oks):
            ctx.holds('R7', 'from_dict: dims= orders the axes (shape %s)' % ('given' if shape_known else 'unknown'))
        else:
            ctx.violated('R7', fd, 'from_dict(dims=..., shape %s)' % ('given' if shape_known else 'unknown'), 'with an explicit dims= the axes must be ordered by it (axes.sort(dims)); '
                         'here the order is inferred from the data shape instead: ambiguous for repeated sizes (AssertionError for a 2x2 array) and silently wrong when dims= '
                         'contradicts the sizes', node=fd.node)
    # builders pair names with labels coherently
    f = ctx.fn(AX + 'Axes.from_arrays')
    ev = run(ctx, f, oracle=lambda a, st: False if a == T.mkcmp('is', P_('dims'), T.CONST_NONE) else None)
    for p in ret_paths(ev):
        v = p.value
        want = ('call', P_('cls'), (('call', ('name', 'list'), (('call', ('name', 'zip'), (P_('dims'), P_('arrays')), ()),), ()),), ())
        if v != want:
            ctx.violated('R7', f, 'return ' + T.show(v)[:120], 'from_arrays must pair dims[i] with arrays[i]: cls(list(zip(dims, arrays)))', node=p.node)
        else:
            ctx.holds('R7', 'from_arrays: zip(dims, arrays)')
    f = ctx.fn(AX + 'Axes.from_shape')
    ev = run(ctx, f, oracle=lambda a, st: False if a == T.mkcmp('is', P_('dims'), T.CONST_NONE) else None)
    good = False
    for p in ret_paths(ev):
        for e in p.calls('Axis'):
            a = e.a
            if len(a[2]) == 2 and a[2][0][0] == 'call' and T.dotted(a[2][0][1]) == 'np.arange' and a[2][0][2][0][0] == 'elem' \
                    and a[2][0][2][0][1] == P_('shape') and a[2][1] == ('sub', P_('dims'), ('idx', P_('shape'), a[2][0][2][0][2])):
                good = True
    if good:
        ctx.holds('R7', 'from_shape: Axis(arange(shape[i]), dims[i])')
    else:
        ctx.violated('R7', f, 'from_shape', 'from_shape must label the i-th dimension 0..shape[i]-1 and name it dims[i]')
    f = ctx.fn(AX + 'Axes.from_dict')
    ev = run(ctx, f, mode='join')
    good = False
    for p in ev.paths:
        for e in p.calls('Axis'):
            a = e.a
            if len(a[2]) == 2 and a[2][1][0] == 'elem' and a[2][1][1] == P_('kwaxes') and a[2][0] == ('sub', P_('kwaxes'), a[2][1]):
                good = True
    if good:
        ctx.holds('R7', 'from_dict: Axis(kwaxes[k], k)')
    else:
        ctx.violated('R7', f, 'from_dict', 'from_dict must build Axis(kwaxes[k], k)')
    # zeros / ones / nans / empty
    emp = ctx.fn(CLS + 'empty')
    ev = run(ctx, emp, mode='join')
    good = any(p.kind == 'return' and p.value[0] == 'call' and T.dotted(p.value[1]) == 'DimArray' and T.kw(p.value, 'axes') is not None for p in ev.paths)
    if not good:
        ctx.violated('R7', emp, 'empty()', 'empty() must build its result with the checked constructor DimArray(values, axes=axes)')
    for name, val in (('zeros', 0), ('ones', 1), ('nans', 'nan')):
        f = ctx.fn(CLS + name)
        ev = run(ctx, f)
        okf = False
        for p in ret_paths(ev):
            fills = [e.a for e in p.calls('fill')]
            ret = p.value[1] if p.value[0] == 'mut' and p.value[2] == 'fill' else p.value
            if len(fills) == 1 and ret == T.call_receiver(fills[0]) and ret[0] == 'call' and T.call_name(ret) == 'empty':
                a = fills[0][2][0]
                if (val == 'nan' and T.dotted(a) == 'np.nan') or a == const(val):
                    okf = True
        if okf:
            ctx.holds('R7', '%s(): empty(...).fill(%s)' % (name, val))
        else:
            ctx.violated('R7', f, name + '()', '%s() must return empty(...) filled with %s' % (name, val))


def rule_env(ctx):
    ctx.rule('R8', 'NumPy API valid under the pinned NumPy', 2)
    info = npapi.numpy_info()
    init = ctx.fn(CLS + 'DimArray.__init__')
    n = 0
    bad = False
    for fi in ctx.P.functions.values():
        if fi.file.startswith('dimarray/io/') or fi.file.startswith('dimarray/convert/'):
            continue
        aliases = npapi.numpy_aliases(fi.module)
        for node in ast.walk(fi.node):
            if isinstance(node, ast.Call) and isinstance(node.func, ast.Attribute) and node.func.attr == 'array' \
                    and isinstance(node.func.value, ast.Name) and node.func.value.id in aliases:
                n += 1
                for k in node.keywords:
                    if k.arg == 'copy':
                        may_be_false = False
                        if isinstance(k.value, ast.Constant) and k.value.value is False:
                            may_be_false = True
                        if isinstance(k.value, ast.Name):
                            d = fi.defaults().get(k.value.id)
                            if d is not None and isinstance(d, ast.Constant) and d.value is False:
                                may_be_false = True
                        if may_be_false and info['major'] >= 2:
                            ctx.violated('R8', fi, node, 'np.array(x, copy=False) raises ValueError under NumPy %s whenever a copy is needed '
                                         '(lists, scalars, dtype conversion): the documented constructor forms fail' % info['version'], node=node)
                            bad = True
    if not bad:
        ctx.holds('R8', 'no np.array(copy=False) under NumPy %s (%d np.array sites)' % (info['version'], n))
    npapi.check_reachable(ctx, 'R8', [init, ctx.fn(AX + '_init_axes'), ctx.fn(AX + 'Axis.__init__')], depth=3)


RAW_LIST_SITES = {
    # (function, list.<method>) -> why the unchecked list primitive is fine there
    (AX + 'Axes.__init__', '__init__'): 'empty list, then checked append per element',
    (AX + 'Axes.append', 'append'): 'the checked append itself (after the duplicate-name test)',
    (AX + 'Axes.__setitem__', '__setitem__'): 'the checked replacement itself (after the size test)',
    (AX + 'Axes.insert', 'insert'): 'type-checked insert (callers check the name: C10)',
    (AX + 'Axes.pop', 'pop'): 'removal by resolved position',
    ('dimarray.dataset.DatasetAxes.__deepcopy__', 'append'): 'deep copy of an already checked DatasetAxes, element by element',
}


def rule_axes_growth(ctx):
    """R10: an Axes list grows only through Axes.append, which is where duplicate dimension names are rejected"""
    ctx.rule('R10', 'Axes grow only through the checked append (no extend / += / raw list primitives outside the wrappers)', 5)
    P = ctx.P
    axes_classes = set(q for q, c in P.classes.items() if any((m if isinstance(m, str) else m.qualname) == AX + 'Axes' for m in c.mro))
    n = 0
    for fi in sorted(P.functions.values(), key=lambda f: f.qualname):
        if fi.file.startswith(('dimarray/io/', 'dimarray/convert/')):
            continue
        in_axes_cls = fi.cls is not None and fi.cls.qualname in axes_classes
        typed = set()
        if in_axes_cls and fi.params and fi.params[0] == 'self':
            typed.add('self')
        for node in ast.walk(fi.node):
            if isinstance(node, ast.Assign) and isinstance(node.value, ast.Call) and isinstance(node.value.func, ast.Name):
                callee = node.value.func.id
                if (callee == 'cls' and in_axes_cls) or callee in ('Axes', 'DatasetAxes'):
                    for t in node.targets:
                        if isinstance(t, ast.Name):
                            typed.add(t.id)
        for node in ast.walk(fi.node):
            if isinstance(node, ast.Call) and isinstance(node.func, ast.Attribute):
                f = node.func
                if isinstance(f.value, ast.Name) and f.value.id == 'list' and f.attr in ('append', 'extend', 'insert', '__setitem__', '__iadd__', 'pop', 'remove', '__init__', '__delitem__'):
                    key = (fi.qualname, f.attr)
                    if key in RAW_LIST_SITES:
                        n += 1
                        ctx.holds('R10', 'list.%s in %s: %s' % (f.attr, fi.qualname.replace('dimarray.', ''), RAW_LIST_SITES[key]))
                    elif node.args and isinstance(node.args[0], ast.Name) and (node.args[0].id in typed or in_axes_cls):
                        ctx.violated('R10', fi, node, 'raw list.%s on an Axes object by-passes the checks of the Axes wrappers (duplicate names, sizes)' % f.attr, node=node)
                elif isinstance(f.value, ast.Name) and f.value.id in typed and f.attr in ('extend', '__iadd__'):
                    ctx.violated('R10', fi, node, '%s.%s(...) on an Axes object: list.extend is inherited unchecked, so duplicate dimension names are accepted '
                                 '(only Axes.append tests the name)' % (f.value.id, f.attr), node=node)
                elif isinstance(f.value, ast.Name) and f.value.id in typed and f.attr == 'append':
                    n += 1
            if isinstance(node, ast.AugAssign) and isinstance(node.target, ast.Name) and node.target.id in typed and isinstance(node.op, ast.Add):
                ctx.violated('R10', fi, node, '%s += ... on an Axes object extends the list without the duplicate-name test of Axes.append' % node.target.id, node=node)
    ctx.info('R10: %d checked growth sites' % n)


def unguarded_end_reads(t, known, is_read, fact):
    """first / last element reads inside the value term `t` that are evaluated without a preceding non-emptiness fact, following the short-circuit order of
    and / or / if-expressions. `known`: containers already known non-empty; is_read(sub_term) -> container or None; fact(atom, polarity) -> container or None."""
    out = []

    def walk(x, known):
        if not isinstance(x, tuple) or not x:
            return
        if x[0] == 'boolop':
            k = list(known)
            for op in x[2]:
                walk(op, k)
                f = fact(op, x[1] == 'and')
                if f is not None:
                    k.append(f)
            return
        if x[0] == 'ifexp':
            walk(x[1], known)
            ft, ff = fact(x[1], True), fact(x[1], False)
            walk(x[2], known + ([ft] if ft is not None else []))
            walk(x[3], known + ([ff] if ff is not None else []))
            return
        c = is_read(x)
        if c is not None and c not in known:
            out.append(x)
        for y in x[1:]:
            if isinstance(y, tuple):
                if y and isinstance(y[0], str):
                    walk(y, known)
                else:
                    for z in y:
                        if isinstance(z, tuple):
                            walk(z if (z and isinstance(z[0], str)) else (z[1] if len(z) == 2 and isinstance(z[1], tuple) else ()), known)
    walk(t, list(known))
    return out


def array1d_equiv_handles_empty(ctx):
    """is_array1d_equiv: are all first-element reads guarded (and is the answer for an empty 1-d sequence not forced to False)?"""
    from .c06 import _nonempty_fact
    fi = ctx.fn('dimarray.tools.is_array1d_equiv')
    A = P_('a')
    ARR = ('call', ('attr', ('name', 'np'), 'asarray'), (A,), ())

    def is_read(x):
        if x[0] == 'sub' and x[2] in (const(0), const(-1)) and x[1] in (ARR, A):
            return ARR
        return None

    def fact(atom, pol):
        f = _nonempty_fact(atom, pol)
        return ARR if f in (ARR, A) else None
    ev = run(ctx, fi, mode='fork')
    for p in ev.paths:
        known = [f for f in (fact(a, pol) for a, pol in p.guards) if f is not None]
        known_a = known + ([ARR] if any(a == T.mkcmp('==', ('call', ('name', 'len'), (A,), ()), const(1)) and pol for a, pol in p.guards) else [])
        for src in [p.value] + [a for a, pol in p.guards]:
            if src is not None and unguarded_end_reads(src, known_a, is_read, fact):
                return False
    return True


def rule_array1d_equiv(ctx):
    """R13: the (name, labels) / bare-labels shortcut forms are recognised by is_array1d_equiv, which looks at the first element of the candidate: an empty
    list of labels is a 1-d sequence too (first element only read where there is one)."""
    from .c06 import _nonempty_fact
    ctx.rule('R13', 'is_array1d_equiv: the first element is only inspected when there is one (an empty label list is 1-d array equivalent)', 1)
    fi = ctx.fn('dimarray.tools.is_array1d_equiv')
    A = P_('a')
    ARR = ('call', ('attr', ('name', 'np'), 'asarray'), (A,), ())

    def is_read(x):
        if x[0] == 'sub' and x[2] in (const(0), const(-1)) and x[1] in (ARR, A):
            return ARR
        return None

    def fact(atom, pol):
        f = _nonempty_fact(atom, pol)
        return ARR if f in (ARR, A) else None
    ev = run(ctx, fi, mode='fork')
    bad = None
    n = 0
    for p in ev.paths:
        known = [f for f in (fact(a, pol) for a, pol in p.guards) if f is not None]
        # recursion on the single element of a one-element list is guarded by len(a) == 1
        known_a = known + ([ARR] if any(a == T.mkcmp('==', ('call', ('name', 'len'), (A,), ()), const(1)) and pol for a, pol in p.guards) else [])
        for src in [p.value] + [a for a, pol in p.guards]:
            if src is None:
                continue
            n += 1
            r = unguarded_end_reads(src, known_a, is_read, fact)
            if r and bad is None:
                bad = (p, r[0])
    if bad is not None:
        ctx.violated('R13', fi, 'first element read ' + T.show(bad[1]), 'the candidate\'s first element (%s) is inspected without testing that there is one: for an empty list the IndexError is '
                     'swallowed by the bare except and the answer is False, so the documented shortcut forms fail for an empty axis (DimArray([], axes=(\'x\', [])) raises TypeError, '
                     'DimArray([], axes=[], dims=\'x\') a shape mismatch) although the reference form axes=[(\'x\', [])] works' % T.show(bad[1]), node=bad[0].node)
    else:
        ctx.holds('R13', 'is_array1d_equiv: first-element reads are guarded (%d terms inspected)' % n)


def rule_from_shape(ctx):
    """R12: "data whose shape disagrees with the axes ... are rejected with an exception" - the default-label form (values + dims only): Axes.from_shape builds one
    axis per shape entry and picks dims[i]; a list of dimension names of another length than the shape disagrees with the data and must be refused
    (surplus names were silently dropped)."""
    ctx.rule('R12', 'Axes.from_shape: number of dimension names equals the number of dimensions', 2)
    fi = ctx.fn(AX + 'Axes.from_shape')
    DIMS, SHAPE = P_('dims'), P_('shape')

    def lens(a):
        """polarity-normalised: does atom a compare len(dims) with len(shape) (or len(axes built so far))? returns '==' / '!=' / None"""
        if a[0] == 'cmp' and a[1] in ('==', '!='):
            pair = {T.show(a[2]), T.show(a[3])}
            if pair == {'len(dims)', 'len(shape)'} or pair == {'len(dims)', 'np.ndim(shape)'}:
                return a[1]
        return None
    ev = run(ctx, fi, mode='fork', facts={T.mkcmp('is', DIMS, T.CONST_NONE): False})
    named = [p for p in ret_paths(ev)]
    ctx.require('R12', named, 'from_shape: no returning path with dims given')
    bad = None
    for p in named:
        eq = [(lens(a) == '==') == pol for a, pol in p.guards if lens(a)]
        if eq != [True] and True not in eq:
            bad = p
    rej = [p for p in raise_paths(ev) if any(lens(a) and ((lens(a) == '==') != pol) for a, pol in p.guards)]
    if bad is not None:
        ctx.violated('R12', fi, 'dims[i] for i in range(len(shape))', 'the dimension names are picked by position for each entry of the shape without comparing their number with the number '
                     'of dimensions: DimArray(np.zeros((2, 3)), dims=[\'x\', \'y\', \'z\']) and zeros(shape=(2, 3), dims=[...three...]) silently drop the surplus name '
                     'instead of rejecting data that disagree with the axes', node=(bad.node if bad is not None else fi.node))
    else:
        ctx.holds('R12', 'from_shape: returns only when len(dims) == len(shape)')
        ctx.holds('R12', 'from_shape: %s otherwise' % ('raises ' + exc_name(rej[0].value) if rej else 'no normal return (assert)'))


def check(ctx):
    rule_from_shape(ctx)
    rule_array1d_equiv(ctx)
    rule_constructor(ctx)
    rule_who_may_write(ctx)
    rule_setter_guards(ctx)
    rule_axis_setitem(ctx, 'R3')
    rule_names(ctx)
    rule_rename_routes(ctx, 'R4')
    rule_axis_shape(ctx)
    rule_cache(ctx)
    rule_forms(ctx)
    rule_env(ctx)
    rule_subclass_fields(ctx)
    rule_axes_growth(ctx)
    # the dims setter renames in bulk: swaps must not collapse (shared with C13)
    from . import c13
    c13.rule_rename_loop(ctx, 'R4', ctx.fn('dimarray.core.bases.AbstractHasAxes._set_dims'), '_set_dims (dims setter)')
    # from_json / from_jsondict are constructor forms too: values are laid out by the recorded shape, so that a values / labels mismatch still reaches
    # the constructor's shape check (writer / reader tables shared with C19)
    from . import c19 as _c19
    from ..report import Renamed as _RenJ
    ctx.rule('R11', 'JSON constructor form: reader lays the values out by the recorded shape (shared with C19)', 5)
    _c19.rule_json(_RenJ(ctx, {'*': 'R11'}))
    ctx.not_decided += ['equality of arrays built from different argument forms (value level)',
                        'staleness of a MultiAxis label cache caused by another array mutating a shared member axis',
                        'Axes.from_dict ordering by shape (value level)']
    ctx.trusted += ['list / ndarray builtin method semantics', 'NumPy >= 2 copy=False semantics (documented)']
    return EXPLANATION
