"""C09 - cumulative, difference and arg-extremum bookkeeping (structural clauses).

  R1 cumulative     cumsum / cumprod default to axis=-1, bind their own NumPy name and reach the branch of apply_along_axis that copies all axes
  R2 diff table     scheme x keepaxis -> (axis slice / pad side); np.diff(obj.values, axis=idx) and the replaced axis share the resolution;
                    order n recurses with n-1 forwarding axis, scheme and keepaxis; unknown scheme / centered+keepaxis raise ValueError
  R3 arg-extrema    argmin and argmax are identical up to the function name; positions are mapped to labels through obj.axes[idx] of the
                    resolution the reduction used, via the values setter (dtype of the labels); the flattened case unravels on obj.shape
"""
from .. import terms as T
from ..terms import const
from ..rules import P_, run, ret_paths, raise_paths, exc_name, bind_call_args, default_of
from ..loader import AnalysisError

EXPLANATION = (
    "Structural clauses of C09: a finite decision table of diff over scheme x keepaxis (slice bounds of the shortened axis, pad side, midpoint "
    "weights, recursion on n with all options forwarded), plumbing of cumsum/cumprod into the axes-copying branch, and sibling agreement of "
    "argmin/argmax plus the position-to-label mapping. Tie/NaN behaviour of NumPy's argmin and the numerical differences are not decided.")

SELF = P_('self')
TR = 'dimarray.core.transform.'


def rule_cumulative(ctx):
    ctx.rule('R1', 'cumsum / cumprod', 3)
    aaa = ctx.fn(TR + 'apply_along_axis')
    for name in ('cumsum', 'cumprod'):
        fi = ctx.fn(TR + name)
        d = default_of(fi, 'axis')
        if d != const(-1):
            ctx.violated('R1', fi, 'def %s(axis=%s)' % (name, T.show(d) if d else '?'), '%s defaults to the last axis (axis=-1)' % name)
        ev = run(ctx, fi)
        for p in ev.paths:
            v = p.value
            ok = False
            if p.kind == 'return' and v[0] == 'call' and T.call_name(v) == 'apply_along_axis':
                b = bind_call_args(v, aaa)
                ok = b.get('self') == P_('a') and b.get('func') == const(name) and b.get('axis') == P_('axis') and b.get('skipna') == P_('skipna')
            if not ok:
                ctx.violated('R1', fi, 'return ' + T.show(v)[:120], '%s must be apply_along_axis(a, %r, axis=axis, skipna=skipna)' % (name, name), node=p.node)
            else:
                ctx.holds('R1', '%s -> apply_along_axis(a, %r, axis=axis)' % (name, name))
        m = ctx.P.lookup(ctx.P.cls('dimarray.core.dimarraycls.DimArray'), name)
        r = ctx.P.resolve_member(m)
        if r[0] != 'func' or r[1] is not fi:
            ctx.violated('R1', 'dimarray.core.dimarraycls.DimArray', 'DimArray.' + name, 'DimArray.%s must be transform.%s' % (name, name))
    # the 'cum' branch copies all axes
    AXIS = P_('axis')
    dwa = ('call', ('name', '_deal_with_axis'), (SELF, AXIS), ())
    OBJ = ('item', dwa, 0)

    def oracle(atom, st):
        s = T.show(atom)
        if atom[0] == 'cmp' and atom[1] == '==' and 'ndim' in s:
            return False
        if atom[0] == 'cmp' and atom[1] == 'is' and atom[3] == ('name', 'str'):
            return True
        fname = ('attr', ('call', ('name', '_get_func'), (const('cumsum'), P_('skipna')), ()), '__name__')
        if T.contains(atom, fname):
            # the scenario of this rule: the function found for 'cumsum' is called cumsum (any test on its name is evaluated for that name)
            from ..rules import val_eval, UNKNOWN
            r = val_eval(atom, {fname: 'cumsum'})
            if r is not UNKNOWN:
                return bool(r)
        return None
    ev = run(ctx, aaa, bind={'func': const('cumsum')}, oracle=oracle)
    good = False
    for p in ret_paths(ev):
        v = p.value
        if v[0] == 'call' and T.call_name(v) == '_constructor':
            ax = v[2][1]
            if ax == ('call', ('attr', ('attr', OBJ, 'axes'), 'copy'), (), ()):
                good = True
            else:
                ctx.violated('R1', aaa, 'cumulative branch: ' + T.show(ax)[:120], 'cumulative results keep all axes (obj.axes.copy())', node=p.node)
    if good:
        ctx.holds('R1', 'apply_along_axis cumulative branch: axes copied unchanged')
    else:
        ctx.violated('R1', aaa, 'cumulative branch', 'no path builds a cumulative result with all axes')


def rule_diff(ctx):
    ctx.rule('R2', 'diff table (6 entries), recursion, padding', 9)
    fi = ctx.fn(TR + 'diff')
    AXIS = P_('axis')
    dwa = ('call', ('name', '_deal_with_axis'), (SELF, AXIS), ())
    OBJ, IDX, NAME = ('item', dwa, 0), ('item', dwa, 1), ('item', dwa, 2)
    OLD = ('sub', ('attr', OBJ, 'axes'), IDX)
    raw = ('call', ('attr', ('name', 'np'), 'diff'), (('attr', OBJ, 'values'),), (('axis', IDX),))

    def sl(lo, hi):
        return ('slice', const(lo) if lo is not None else T.CONST_NONE, const(hi) if hi is not None else T.CONST_NONE, T.CONST_NONE)
    table = {
        ('forward', False): ('slice', sl(None, -1)), ('forward', True): ('pad', 'last'),
        ('backward', False): ('slice', sl(1, None)), ('backward', True): ('pad', 'first'),
        ('centered', False): ('mid', None), ('centered', True): ('raise', 'ValueError'),
        ('sideways', False): ('raise', 'ValueError'),
    }
    not_none = {T.mkcmp('is', AXIS, T.CONST_NONE): False}
    # the rule reads one shape: the first difference np.diff(values, axis=idx), padded / relabelled, and higher orders by recursion.  A function that hands the order to
    # NumPy (np.diff(values, n=...)) computes the same numbers another way; whether its padding and labels agree for every n is an arithmetic question out of reach here
    evj = run(ctx, fi, mode='join', facts=not_none)
    recursion = any(T.dotted(e.a[1]) not in ('np.diff', 'numpy.diff') for p in evj.paths for e in p.calls('diff'))
    for p in evj.paths if not recursion else []:
        for e in p.calls('diff'):
            if T.dotted(e.a[1]) in ('np.diff', 'numpy.diff'):
                n_arg = T.arg(e.a, 1, 'n')
                if n_arg is not None and n_arg != const(1):
                    ctx.undecide('R2', 'diff hands the order to NumPy (np.diff(..., n=%s)): a form the rule does not know (it reads the first difference plus recursion)' % T.show(n_arg)[:40])
                    return
    for (scheme, keep), (kind, arg) in table.items():
        ev = run(ctx, fi, bind={'scheme': const(scheme), 'keepaxis': const(keep), 'n': const(1)}, facts=not_none)
        inst = 'scheme=%s keepaxis=%s' % (scheme, keep)
        if kind == 'raise':
            bad = [p for p in ev.paths if not (p.kind == 'raise' and exc_name(p.value) == arg)]
            if bad or not ev.paths:
                ctx.violated('R2', fi, inst, '%s must raise %s' % (inst, arg), node=bad[0].node if bad else None)
            else:
                ctx.holds('R2', inst + ' -> ' + arg)
            continue
        rets = ret_paths(ev)
        if not rets or raise_paths(ev):
            ctx.violated('R2', fi, inst, '%s must return a DimArray' % inst)
            continue
        ok = True
        for p in rets:
            v = p.value
            if not (v[0] == 'call' and T.call_name(v) == '_constructor' and T.call_receiver(v) == OBJ and len(v[2]) == 2):
                ctx.violated('R2', fi, 'return ' + T.show(v)[:120], 'diff must build obj._constructor(result, newaxes, **obj.attrs)', node=p.node)
                ok = False
                continue
            res, newaxes = v[2]
            if dict(v[3]).get('**') != ('attr', OBJ, 'attrs'):
                ctx.violated('R2', fi, 'return ' + T.show(v)[:100], 'diff carries the metadata (**obj.attrs)', node=p.node)
                ok = False
            if not (newaxes[0] == 'comp' and newaxes[3][0][1] == ('attr', OBJ, 'axes') and newaxes[2][0] == 'ifexp'):
                ctx.violated('R2', fi, 'newaxes = ' + T.show(newaxes)[:140], 'all axes but the differenced one are copied in order', node=p.node)
                ok = False
                continue
            el = ('elem', ('attr', OBJ, 'axes'), newaxes[3][0][0])
            cond, a_else, a_then = newaxes[2][1], newaxes[2][2], newaxes[2][3]        # canonical: ifexp(name == NAME, replaced axis, copy of the other)
            if cond != T.mkcmp('==', ('attr', el, 'name'), NAME) or a_then != ('call', ('attr', el, 'copy'), (), ()):
                ctx.violated('R2', fi, 'newaxes = ' + T.show(newaxes)[:140], 'the replaced axis is selected by the name of the same resolution; the others are copies', node=p.node)
                ok = False
                continue
            newaxis = a_else
            if kind == 'slice':
                if res != raw:
                    ctx.violated('R2', fi, 'result = ' + T.show(res)[:140], '%s: the values are np.diff(obj.values, axis=idx) unpadded' % inst, node=p.node)
                    ok = False
                elif newaxis != ('sub', OLD, arg):
                    ctx.violated('R2', fi, 'newaxis = ' + T.show(newaxis)[:140], '%s: the differenced axis must be oldaxis[%s] (%s differences drop the %s label)'
                                 % (inst, T.show(arg), scheme, 'last' if scheme == 'forward' else 'first'), node=p.node)
                    ok = False
            elif kind == 'pad':
                want_first = arg == 'first'
                good = res[0] == 'call' and T.call_name(res) == '_append_nans' and res[2][:1] == (raw,) and T.kw(res, 'axis') == IDX \
                    and (T.kw(res, 'first', T.CONST_FALSE) == const(want_first))
                if not good:
                    ctx.violated('R2', fi, 'result = ' + T.show(res)[:140], '%s: NaN must be padded on the %s side along the same axis' % (inst, arg), node=p.node)
                    ok = False
                elif newaxis != ('call', ('attr', OLD, 'copy'), (), ()):
                    ctx.violated('R2', fi, 'newaxis = ' + T.show(newaxis)[:140], '%s: the original axis is kept' % inst, node=p.node)
                    ok = False
            elif kind == 'mid':
                v0 = ('attr', OLD, 'values')
                a, b = ('sub', v0, sl(None, -1)), ('sub', v0, sl(1, None))
                mids = [('binop', '*', const(0.5), ('binop', '+', a, b)), ('binop', '*', const(0.5), ('binop', '+', b, a)),
                        ('binop', '/', ('binop', '+', a, b), const(2)), ('binop', '/', ('binop', '+', a, b), const(2.0)),
                        ('binop', '*', ('binop', '+', a, b), const(0.5))]
                good = res == raw and newaxis[0] == 'call' and T.call_name(newaxis) == 'Axis' and newaxis[2][0] in mids and newaxis[2][1] in (NAME, ('attr', OLD, 'name'))
                if not good:
                    ctx.violated('R2', fi, 'newaxis = ' + T.show(newaxis)[:160], 'centered differences are labelled by the midpoints 0.5*(v[:-1] + v[1:]) '
                                 'under the same name', node=p.node)
                    ok = False
        if ok:
            ctx.holds('R2', inst + ' -> ' + (T.show(arg) if kind == 'slice' else kind + ' ' + str(arg)))
    # recursion
    facts_rec = dict(not_none)
    facts_rec[T.mkcmp('<', const(1), P_('n'))] = True
    ev = run(ctx, fi, facts=facts_rec, bind={'scheme': const('backward'), 'keepaxis': T.CONST_FALSE})
    rec = [e for p in ev.paths for e in p.calls('diff') if T.call_receiver(e.a) is not None and T.call_receiver(e.a) == OBJ]
    if not rec:
        ctx.violated('R2', fi, 'n > 1', 'higher orders must recurse on the already resolved object')
    else:
        c = rec[0].a
        kws = dict(c[3])
        want = {'n': ('binop', '-', P_('n'), const(1)), 'axis': IDX, 'scheme': const('backward'), 'keepaxis': T.CONST_FALSE}
        bad = [k for k, w in want.items() if kws.get(k) != w]
        if bad:
            ctx.violated('R2', fi, rec[0].node, 'the recursive call for n > 1 must forward n-1, axis=idx, scheme and keepaxis; wrong or missing: %s '
                         '(the inner differences would use the default scheme / padding)' % bad, node=rec[0].node)
        else:
            ctx.holds('R2', 'recursion: obj.diff(n=n-1, axis=idx, scheme=scheme, keepaxis=keepaxis)')
    # every result for n > 1 is built from the (n-1)-th difference of the same array: a one-shot np.diff(n=n) path labels centered differences with
    # the centre of the (n+1)-point stencil, which differs from the successive midpoints for non-uniform labels
    for scheme, keep in (('forward', False), ('forward', True), ('backward', False), ('backward', True), ('centered', False)):
        evn = run(ctx, fi, facts=facts_rec, bind={'scheme': const(scheme), 'keepaxis': const(keep)})
        for p in ret_paths(evn):
            if not any(T.call_receiver(e.a) == OBJ for e in p.calls('diff')):
                ctx.violated('R2', fi, 'n > 1 without recursion', 'scheme=%s keepaxis=%s: a result for n > 1 is returned without going through obj.diff(n=n-1, ...): the n-th difference and '
                             'its labels must be the first difference of the (n-1)-th (got %s)' % (scheme, keep, T.show(p.value)[:80]), node=p.node)
                break
    ev2 = run(ctx, fi, facts=not_none)
    for p in ev2.paths:
        for e in p.calls('diff'):
            if T.call_receiver(e.a) == OBJ:
                kws = dict(e.a[3])
                if kws.get('scheme') != P_('scheme') or kws.get('keepaxis') != P_('keepaxis'):
                    ctx.violated('R2', fi, e.node, 'the recursive call must forward the caller\'s scheme and keepaxis', node=e.node)
    # _append_nans
    ap = ctx.fn(TR + '_append_nans')
    RES, AX = P_('result'), P_('axis')
    for first in (True, False):
        ev = run(ctx, ap, bind={'first': const(first)})
        for p in ret_paths(ev):
            v = p.value
            ok = v[0] == 'call' and T.dotted(v[1]) == 'np.concatenate' and v[2] and v[2][0][0] in ('tuple', 'list') and len(v[2][0][1]) == 2 \
                and T.kw(v, 'axis') == AX
            if ok:
                parts = v[2][0][1]
                pos = 1 if first else 0
                ok = strip(parts[pos]) == RES and strip(parts[1 - pos]) != RES
                nanpart = parts[1 - pos]
                fills = [e.a for e in p.calls('fill')]
                # (filled after allocation, or allocated full of NaN in one go: np.full(shape, np.nan, ...))
                nb = strip(nanpart)
                full_nan = nb[0] == 'call' and T.dotted(nb[1]) == 'np.full' and T.dotted((nb[2][1:2] or (T.kw(nb, 'fill_value') or ('none',),))[0]) == 'np.nan'
                ok = ok and (any(T.dotted(f[2][0]) == 'np.nan' for f in fills if f[2]) or full_nan)
            if ok:
                # the slice has to be able to hold NaN and to exist even when there is no difference at all (size-1 axis): a slice made like
                # result.take([0]) inherits an integer dtype (ValueError: cannot convert float NaN to integer) and fails on an empty result (IndexError)
                base = nanpart
                while base[0] == 'mut':
                    base = base[1]
                taken = any(x[0] == 'call' and T.call_name(x) == 'take' and T.call_receiver(x) == RES for x in T.subterms(base))
                like = base[0] == 'call' and T.dotted(base[1]) in ('np.empty_like', 'np.zeros_like', 'np.ones_like', 'np.full_like') and T.kw(base, 'dtype') is None
                if taken or like:
                    ctx.violated('R2', ap, 'NaN slice made like the result', 'the padding slice is built as %s: it inherits the dtype of the differences (integer data: "cannot convert float NaN to '
                                 'integer") %s' % (T.show(base)[:60], 'and is taken from the result itself, which is empty for a size-1 axis (IndexError)' if taken else ''), node=p.node)
                    continue
            if not ok:
                ctx.violated('R2', ap, 'return ' + T.show(v)[:140], '_append_nans(first=%s) must put the NaN slice %s the differences along `axis`'
                             % (first, 'before' if first else 'after'), node=p.node)
            else:
                ctx.holds('R2', '_append_nans first=%s' % first)
    ctx.exhaustive = True


def strip(t):
    while t[0] == 'mut':
        t = t[1]
    return t


def normalise(t, name):
    """replace the function-name constant so that argmin / argmax terms can be compared"""
    if not isinstance(t, tuple) or not t:
        return t
    if t == ('const', name):
        return ('const', '<ARG>')
    return tuple(normalise(x, name) if isinstance(x, tuple) else x for x in t)


def _obj_is_self_without_axis(ctx):
    """_deal_with_axis(obj, None) returns obj itself as its first result (nothing is grouped when no axis is given)"""
    fi = ctx.P.functions.get(TR + '_deal_with_axis')
    if fi is None or not fi.params:
        return False
    try:
        ev = run(ctx, fi, bind={fi.params[1]: T.CONST_NONE}, oracle=lambda a, st: False if 'type(' in T.show(a) or 'isinstance' in T.show(a) else None)
    except Exception:
        return False
    rets = ret_paths(ev)
    return bool(rets) and all(p.value[0] == 'tuple' and p.value[1] and p.value[1][0] == P_(fi.params[0]) for p in rets)


def rule_arg(ctx):
    ctx.rule('R3', 'argmin / argmax', 4)
    sigs = {}
    AXIS = P_('axis')
    dwa = ('call', ('name', '_deal_with_axis'), (SELF, AXIS), ())
    OBJ, IDX = ('item', dwa, 0), ('item', dwa, 1)
    for name in ('argmin', 'argmax'):
        fi = ctx.fn(TR + name)
        ev = run(ctx, fi)
        sig = []
        for p in ev.paths:
            evs = tuple((e.kind, normalise(e.a, name) if isinstance(e.a, tuple) else e.a, e.b if not isinstance(e.b, tuple) else normalise(e.b, name),
                         normalise(e.c, name) if isinstance(e.c, tuple) else e.c) for e in p.events if e.kind in ('call', 'store_attr', 'store_sub', 'return', 'raise'))
            sig.append((p.kind, normalise(p.value, name), tuple((normalise(a, name), pol) for a, pol in p.guards), evs))
        sigs[name] = (fi, sorted(sig, key=repr))
        # direct rule: labels via the reduction's own axis, through the values setter
        res = ('call', ('name', 'apply_along_axis'), (OBJ, const(name)), (('axis', IDX), ('skipna', P_('skipna'))))
        okd = False
        scalar_case = False
        labels_of = ('attr', ('sub', ('attr', OBJ, 'axes'), IDX), 'values')
        if not any(True for p in ev.paths for e in p.calls('apply_along_axis')):
            # the positions do not come from apply_along_axis(obj, name, axis=idx): the reduction and its result array are built some other way, which this clause cannot
            # follow (what the result's axes and dtype are is then decided inside the new code, not by the rules on apply_along_axis)
            ctx.undecide('R3', '%s no longer reduces through apply_along_axis: the label mapping is written in a form the rule does not know' % name)
            continue
        for p in ret_paths(ev):
            along = [pol for a, pol in p.guards if a == T.mkcmp('is', AXIS, T.CONST_NONE)]
            # the reduction of a 1-D array along its only axis is a NumPy scalar (apply_along_axis hands non-array results back as they are, C08-R6):
            # that case has to be told apart and answered with the single label
            sc = [pol for a, pol in p.guards if T.contains(a, res) and any(x[0] == 'call' and T.dotted(x[1]) in ('np.ndim', 'np.isscalar', 'isinstance', 'np.size', 'hasattr')
                                                                            for x in T.subterms(a))] + \
                 [pol for a, pol in p.guards if a[0] == 'cmp' and a[1] == '==' and a[3] == const(1) and a[2] in (('attr', OBJ, 'ndim'), ('attr', SELF, 'ndim'))]
            if along == [False] and sc and p.value == ('sub', labels_of, res):
                scalar_case = True
                continue
            if along == [False]:
                st = [e for e in p.events if e.kind in ('store_attr', 'store_sub')]
                want_val = ('sub', ('attr', ('sub', ('attr', OBJ, 'axes'), IDX), 'values'), ('attr', res, 'values'))
                if len(st) == 1 and st[0].kind == 'store_attr' and st[0].a == res and st[0].b == 'values' and st[0].c == want_val and p.value == res:
                    okd = True
                else:
                    e = st[0] if st else None
                    why = 'positions must be replaced by labels with `res.values = obj.axes[idx].values[res.values]`'
                    if e is not None and e.kind == 'store_sub':
                        why += ' - writing into res.values[...] keeps the integer dtype of the positions: float labels are truncated, str labels fail'
                    ctx.violated('R3', fi, e.node if e is not None else 'label mapping', why, node=e.node if e is not None else p.node)
            elif along == [True]:
                v = p.value
                if _obj_is_self_without_axis(ctx):
                    # with axis=None _deal_with_axis hands back the array itself: `self.axes` / `self.shape` are `obj.axes` / `obj.shape` on this path
                    for fld in ('axes', 'shape'):
                        v = T.replace(v, ('attr', SELF, fld), ('attr', OBJ, fld))
                unr = ('call', ('attr', ('name', 'np'), 'unravel_index'), (res, ('attr', OBJ, 'shape')), ())
                good = v[0] == 'call' and T.dotted(v[1]) == 'tuple' and v[2][0][0] == 'comp' \
                    and v[2][0][3][0][1] == ('call', ('name', 'enumerate'), (unr,), ())
                if good:
                    lid = v[2][0][3][0][0]
                    good = v[2][0][2] == ('sub', ('attr', ('sub', ('attr', OBJ, 'axes'), ('idx', unr, lid)), 'values'), ('elem', unr, lid))
                if not good and v[0] == 'call' and T.dotted(v[1]) == 'tuple' and v[2][0][0] == 'comp' and len(v[2][0][3]) == 1:
                    # other spelling of the pairing: zip(obj.axes, indices) -> ax.values[index]
                    src, lid = v[2][0][3][0][1], v[2][0][3][0][0]
                    axes_t = ('attr', OBJ, 'axes')
                    if src[0] == 'call' and T.dotted(src[1]) == 'zip' and not src[3] and sorted(src[2], key=repr) == sorted((axes_t, unr), key=repr):
                        good = v[2][0][2] == ('sub', ('attr', ('elem', axes_t, lid), 'values'), ('elem', unr, lid))
                if not good:
                    ctx.violated('R3', fi, 'return ' + T.show(v)[:140], 'flattened case: unravel the position on obj.shape and pair the i-th index with '
                                 'obj.axes[i]', node=p.node)
                else:
                    ctx.holds('R3', name + ' flattened: unravel_index + per-axis labels')
        if okd and not scalar_case:
            ctx.violated('R3', fi, name + ' of a 1-d array along its axis', '%s(axis=...) always treats the reduction as a DimArray (`res.values`): for a 1-d array the result of '
                         'apply_along_axis is a NumPy integer and the call raises AttributeError instead of returning the label of the extremum' % name, node=fi.node)
        elif okd:
            ctx.holds('R3', name + ' along axis: labels of the reduced axis through the values setter; scalar result answered with the single label')
    (fa, sa), (fb, sb) = sigs['argmin'], sigs['argmax']
    if sa != sb:
        diff = [x for x in sb if x not in sa][:1] or [x for x in sa if x not in sb][:1]
        ctx.violated('R3', fb, 'argmin / argmax differ', 'argmin and argmax must be the same algorithm up to the function name; they differ: %s'
                     % (T.show(diff[0][1])[:120] if diff else ''))
    else:
        ctx.holds('R3', 'argmin and argmax identical up to the function name (%d paths)' % len(sa))


def rule_values_setter(ctx, rid='R4'):
    """argmin / argmax along an axis replace positions by labels through `res.values = labels`: the DimArray.values setter must store the
    (dtype-widened) buffer it writes into"""
    ctx.rule(rid, 'DimArray.values setter: the widened buffer is stored in _values and receives the new values', 1)
    fi = ctx.P.functions.get('dimarray.core.dimarraycls.DimArray.values.setter')
    if fi is None:
        ctx.undecide(rid, 'DimArray.values has no setter')
        return
    SELF_, NEW = P_('self'), P_(fi.params[1])
    ev = run(ctx, fi)
    ok = True
    for p in ev.paths:
        if p.kind != 'return':
            continue
        stores = [e for e in p.events if e.kind == 'store_attr' and e.a == SELF_ and e.b == '_values']
        writes = [e for e in p.events if e.kind == 'store_sub']
        if len(stores) != 1 or not (stores[0].c[0] == 'call' and T.call_name(stores[0].c) == '_maybe_cast_type'
                                    and stores[0].c[2][:2] == (('attr', SELF_, '_values'), NEW)):
            ctx.violated(rid, fi, 'store of _values', 'the setter must keep the array returned by _maybe_cast_type(self._values, newvalues) in self._values: '
                         'when the dtype has to be widened (labels of another kind than the positions) that array is a new buffer, and writing into '
                         'it without storing it discards the new values', node=fi.node)
            ok = False
            continue
        good = [w for w in writes if w.a == ('attr', SELF_, '_values') and w.c == NEW and w.b[0] == 'slice' and w.b[1:] == (T.CONST_NONE,) * 3
                and p.events.index(w) > p.events.index(stores[0])]
        if len(good) != 1 or len(writes) != 1:
            ctx.violated(rid, fi, 'write of the new values', 'after the store, the new values are written in place into self._values[:] (and nowhere else)', node=fi.node)
            ok = False
    if ok:
        ctx.holds(rid, 'values setter: self._values = _maybe_cast_type(self._values, new); self._values[:] = new')


def check(ctx):
    rule_cumulative(ctx)
    rule_diff(ctx)
    rule_arg(ctx)
    rule_values_setter(ctx, rid='R4')
    # cumsum / cumprod / argmin / argmax all run through apply_along_axis: its reduce / drop coherence rules (C08)
    from . import c08
    from ..report import Renamed as _Ren
    ctx.rule('R5', 'apply_along_axis: the position handed to NumPy and the axis dropped / kept come from one resolution (shared with C08)', 5)
    c08.rule_apply(_Ren(ctx, {'*': 'R5'}))
    # a tuple of dimensions is grouped by flatten(dims, insert=0) before the function is applied: flatten's order / splice / progress rules (C11)
    from . import c11
    from ..report import Renamed
    ctx.rule('R8', 'flatten (grouping of a tuple of dimensions): contiguity guard, shared insertion point, C-order reshape', 2)
    c11.rule_flatten(Renamed(ctx, {'*': 'R8'}))
    # a tuple / list of dimensions given to a transform is grouped by _deal_with_axis in the listed order (shared with C08)
    from . import c08 as _c08
    from ..report import Renamed as _Ren2
    _c08.rule_deal_with_axis(_Ren2(ctx, {'*': 'R6'}))
    ctx.not_decided += ["tie and NaN behaviour of NumPy's argmin/argmax", 'numerical differences', 'np.diff semantics']
    ctx.trusted += ['np.diff / np.concatenate / np.unravel_index semantics']
    return EXPLANATION
