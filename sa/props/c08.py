"""C08 - reductions equal NumPy's along the named axis and drop only that axis (structural clauses).

  R1 resolution primitive   _get_axis_info: str -> dims.index, int -> itself, name = self.axes[idx].name of that same idx, None -> (None, None)
  R2 reduce/drop coherence  apply_along_axis: the axis= given to the NumPy function and the name excluded from the surviving axes come from the
                            same _deal_with_axis result; surviving axes are a filter (by name) of the source axes; descriptors bind their own name
  R3 tuple axis             _deal_with_axis flattens with insert=k, returns idx=k and the name of newobj.axes[k] for the same constant k
  R4 NaN policy             _get_func: skipna=True only NaN-ignoring callables, skipna=False only NaN-propagating ones; the masked-array
                            fallback fills masked results with NaN; _median_with_nan re-inserts NaN
  R5 metadata               the reduced array carries obj.attrs; percentile carries a.attrs
  R6 scalar / None          axis is None or a non-array result is returned as is
  R7 percentile             np.percentile(a.values, pct, axis=pos); surviving axes filtered by the name of the same resolution; new axis
                            '<name>_percentile' labelled by pct, stacked first
"""
from .. import terms as T
from ..terms import const
from ..rules import P_, run, ret_paths, raise_paths, exc_name, bind_call_args, default_of, alternatives
from ..loader import AnalysisError

EXPLANATION = (
    "Structural clauses of C08: value numbering of _get_axis_info, _deal_with_axis, apply_along_axis, _get_func, _MaskedArrayFunc.__call__, "
    "_median_with_nan and percentile; dimension-identity coherence (the position handed to NumPy and the name dropped from the axes come from one "
    "resolution; the filter is by name so that negative positions work), the registry of _NumpyDesc descriptors bound on DimArray, the NaN-policy "
    "decision table of _get_func, metadata provenance of the results. Numerical equality with NumPy, all-NaN slices and size-1 results are not decided.")

SELF = P_('self')
TR = 'dimarray.core.transform.'
REDUCTIONS = ['sum', 'prod', 'mean', 'var', 'std', 'min', 'max', 'ptp', 'all', 'any', 'median']


def rule_axis_info(ctx):
    ctx.rule('R1', '_get_axis_info', 3)
    fi = ctx.fn('dimarray.core.bases.AbstractHasAxes._get_axis_info')
    AXIS = P_('axis')
    ev = run(ctx, fi)
    seen = set()
    for p in ev.paths:
        if p.kind == 'raise':
            continue
        v = p.value
        g = dict((T.show(a), pol) for a, pol in p.guards)
        if any(a == T.mkcmp('is', AXIS, T.CONST_NONE) and pol for a, pol in p.guards):
            if v != ('tuple', (T.CONST_NONE, T.CONST_NONE)):
                ctx.violated('R1', fi, 'return ' + T.show(v), 'axis=None resolves to (None, None)', node=p.node)
            else:
                seen.add('none')
            continue
        if not (v[0] == 'tuple' and len(v[1]) == 2):
            ctx.undecide('R1', '_get_axis_info returns %s' % T.show(v))
            continue
        idx, name = v[1]
        isstr = any(a[0] == 'call' and T.dotted(a[1]) == 'isinstance' and a[2] == (AXIS, ('name', 'str')) and pol for a, pol in p.guards)
        if isstr:
            want = ('call', ('attr', ('attr', SELF, 'dims'), 'index'), (AXIS,), ())
            if idx != want:
                ctx.violated('R1', fi, 'return ' + T.show(v), 'a dimension name resolves to self.dims.index(name)', node=p.node)
                continue
            seen.add('str')
        else:
            if idx != AXIS:
                ctx.violated('R1', fi, 'return ' + T.show(v), 'an integer position resolves to itself', node=p.node)
                continue
            seen.add('int')
        if name != ('attr', ('sub', ('attr', SELF, 'axes'), idx), 'name'):
            ctx.violated('R1', fi, 'return ' + T.show(v), 'the returned name must be the name of the axis at the returned position (self.axes[idx].name)',
                         node=p.node)
            continue
    for k in ('none', 'str', 'int'):
        if k in seen:
            ctx.holds('R1', '_get_axis_info: ' + k)
        else:
            ctx.violated('R1', fi, '_get_axis_info ' + k, 'no path resolves an axis given as %s' % k)
    if not any(exc_name(p.value) == 'TypeError' for p in raise_paths(ev)):
        ctx.violated('R1', fi, 'TypeError', 'other axis specifications raise TypeError')


def rule_deal_with_axis(ctx):
    ctx.rule('R3', '_deal_with_axis', 2)
    fi = ctx.fn(TR + '_deal_with_axis')
    OBJ, AXIS = P_('obj'), P_('axis')
    ev = run(ctx, fi)
    from ..rules import val_eval, UNKNOWN
    TYPE = ('call', ('name', 'type'), (AXIS,), ())
    names = {('name', n): t for n, t in (('tuple', tuple), ('list', list), ('int', int), ('str', str), ('set', set))}

    def kinds_of(p):
        # the kinds of `axis` argument a returning path serves: its guards evaluated for each type of the argument
        out = []
        for kind in (tuple, list, int, str):
            env = dict(names)
            env[TYPE] = kind
            env[('call', ('name', 'isinstance'), (AXIS, ('tuple', (('name', 'tuple'), ('name', 'list')))), ())] = kind in (tuple, list)
            env[('call', ('name', 'isinstance'), (AXIS, ('tuple', (('name', 'list'), ('name', 'tuple')))), ())] = kind in (tuple, list)
            res = [(val_eval(a, env), pol) for a, pol in p.guards]
            if all(r is UNKNOWN or bool(r) == pol for r, pol in res):
                out.append(kind)
        return out
    for p in ret_paths(ev):
        v = p.value
        if v[0] == 'binop' and v[1] == '+' and v[2][0] == 'tuple' and len(v[2][1]) == 1 and v[3][0] == 'call' and T.call_name(v[3]) == '_get_axis_info':
            # (obj,) + obj._get_axis_info(axis): the pair (position, name) of _get_axis_info appended to the object - the triple spelled as a concatenation
            v = ('tuple', (v[2][1][0], ('item', v[3], 0), ('item', v[3], 1)))
        if not (v[0] == 'tuple' and len(v[1]) == 3):
            ctx.undecide('R3', '_deal_with_axis returns %s' % T.show(v)[:100])
            continue
        newobj, idx, name = v[1]
        kinds = kinds_of(p)
        if set(kinds) & {tuple, list} and set(kinds) & {int, str}:
            ctx.undecide('R3', '_deal_with_axis: the path returning %s serves both a tuple and a single axis' % T.show(v)[:100])
            continue
        tup = bool(set(kinds) & {tuple, list})
        if tup:
            ok = newobj[0] == 'call' and T.call_name(newobj) == 'flatten' and T.call_receiver(newobj) == OBJ and newobj[2][:1] == (AXIS,) \
                and idx[0] == 'const' and isinstance(idx[1], int) and T.kw(newobj, 'insert') == idx \
                and name == ('attr', ('sub', ('attr', newobj, 'axes'), idx), 'name')
            if not ok:
                ctx.violated('R3', fi, 'return ' + T.show(v)[:160], 'a tuple of dimensions must be flattened to one grouped axis inserted at position k, '
                             'and (idx, name) must be k and the name of newobj.axes[k] for the same k', node=p.node)
            else:
                ctx.holds('R3', '_deal_with_axis: tuple -> flatten(axis, insert=k), idx=k, name=newobj.axes[k].name')
        else:
            gai = ('call', ('attr', OBJ, '_get_axis_info'), (AXIS,), ())
            if (newobj, idx, name) != (OBJ, ('item', gai, 0), ('item', gai, 1)):
                ctx.violated('R3', fi, 'return ' + T.show(v)[:160], 'a single axis resolves through obj._get_axis_info(axis), position and name from the '
                             'same call', node=p.node)
            else:
                ctx.holds('R3', '_deal_with_axis: single axis -> _get_axis_info')


def rule_apply(ctx):
    ctx.rule('R2', 'apply_along_axis reduce/drop coherence + descriptor registry', 13)
    ctx.rule('R5', 'metadata carried', 2)
    ctx.rule('R6', 'scalar / None passthrough', 1)
    fi = ctx.fn(TR + 'apply_along_axis')
    AXIS = P_('axis')
    dwa = ('call', ('name', '_deal_with_axis'), (SELF, AXIS), ())
    OBJ, IDX, NAME = ('item', dwa, 0), ('item', dwa, 1), ('item', dwa, 2)

    def oracle(atom, st):
        if atom[0] == 'cmp' and atom[1] == 'is' and atom[3] == ('name', 'str'):
            return True
        return None
    ev = run(ctx, fi, oracle=oracle)
    n_collapse = 0
    for p in ev.paths:
        if p.kind == 'raise':
            continue
        v = p.value
        calls = [e.a for e in p.calls() if e.a[1][0] == 'call' and T.call_name(e.a[1]) == '_get_func']
        if len(calls) != 1:
            ctx.violated('R2', fi, 'function call', 'the resolved function must be applied exactly once', node=p.node)
            continue
        fc = calls[0]
        if fc[1] != ('call', ('name', '_get_func'), (P_('func'), P_('skipna')), ()):
            ctx.violated('R2', fi, T.show(fc[1]), '_get_func must receive the function name and skipna', node=p.node)
            continue
        # the keyword arguments handed to NumPy are the caller's own plus axis=idx: nothing else is injected (an added dtype= / out= changes NumPy's promotion rules)
        kwt = dict(fc[3]).get('**')
        injected = []
        b = kwt
        while b is not None and b[0] in ('setitem', 'mut', 'phi'):
            if b[0] == 'setitem':
                if b[2] != const('axis'):
                    injected.append(T.show(b[2]))
                b = b[1]
            elif b[0] == 'mut':
                b = b[1]
            else:
                for alt in b[1]:
                    for x in T.subterms(alt):
                        if x[0] == 'setitem' and x[2] != const('axis'):
                            injected.append(T.show(x[2]))
                b = None
        if injected:
            ctx.violated('R2', fi, 'keyword injected into the NumPy call: %s' % ', '.join(sorted(set(injected))), 'apply_along_axis adds %s to the keyword arguments of the NumPy function: '
                         'the result is no longer NumPy\'s f over .values along that dimension (e.g. dtype= disables the promotion of small integers in cumsum / cumprod / sum)'
                         % ', '.join(sorted(set(injected))), node=p.node)
            continue
        if fc[2][:1] != (('attr', OBJ, 'values'),) or T.kw(fc, 'axis') != IDX:
            ctx.violated('R2', fi, T.show(fc)[:160], 'the function must be applied to obj.values along axis=idx, both from the same _deal_with_axis result',
                         node=p.node)
            continue
        if v == fc:
            none = [pol for a, pol in p.guards if a == T.mkcmp('is', AXIS, T.CONST_NONE)]
            nonarr = [pol for a, pol in p.guards if a[0] == 'call' and T.dotted(a[1]) == 'isinstance' and a[2][0] == fc]
            if none == [True] or nonarr == [False]:
                ctx.holds('R6', 'axis None / non-array result returned as is')
            continue
        if not (v[0] == 'call' and T.call_name(v) == '_constructor' and T.call_receiver(v) == OBJ and v[2][:1] == (fc,)):
            ctx.violated('R2', fi, 'return ' + T.show(v)[:160], 'the result must be obj._constructor(result, newaxes, **obj.attrs)', node=p.node)
            continue
        if dict(v[3]).get('**') != ('attr', OBJ, 'attrs'):
            ctx.violated('R5', fi, 'return ' + T.show(v)[:120], 'the reduced array must carry the metadata of the array (**obj.attrs)', node=p.node)
            continue
        newaxes = v[2][1]
        collapsed = [pol for a, pol in p.guards if a[0] == 'cmp' and a[1] == '==' and 'ndim' in T.show(a)]
        if collapsed == [True]:
            n_collapse += 1
            ok = newaxes[0] == 'comp' and newaxes[3][0][1] == ('attr', OBJ, 'axes') and newaxes[2] == ('elem', ('attr', OBJ, 'axes'), newaxes[3][0][0]) \
                and len(newaxes[3][0][2]) == 1
            if not ok:
                ctx.violated('R2', fi, 'newaxes = ' + T.show(newaxes)[:160], 'the surviving axes must be a filter of obj.axes (same objects, source order)', node=p.node)
                continue
            cond = newaxes[3][0][2][0]
            el = newaxes[2]
            if cond in (T.mkcmp('!=', ('attr', el, 'name'), NAME), T.mkcmp('!=', NAME, ('attr', el, 'name'))):
                ctx.holds('R2', 'collapsed axis dropped by the name of the same resolution')
                ctx.holds('R5', 'apply_along_axis carries obj.attrs')
            elif T.contains(cond, IDX):
                ctx.violated('R2', fi, 'newaxes = ' + T.show(newaxes)[:160], 'the reduced axis is dropped by comparing positions with the raw `idx`: a negative '
                             'position (axis=-1) never matches an enumerate index, so no axis is dropped; filter by the resolved name instead', node=p.node)
            else:
                ctx.violated('R2', fi, 'newaxes = ' + T.show(newaxes)[:160], 'the axis dropped from the result must be the one that was reduced '
                             '(name from the same _deal_with_axis result as idx)', node=p.node)
    if not n_collapse:
        ctx.violated('R2', fi, 'collapsed case', 'no path handles a reduced (ndim - 1) result')
    # descriptor registry
    P = ctx.P
    D = P.cls('dimarray.core.dimarraycls.DimArray')
    for name in REDUCTIONS:
        m = P.lookup(D, name)
        r = P.resolve_member(m) if m is not None else None
        if r is None or r[0] != 'numpydesc':
            ctx.violated('R2', D.qualname, 'DimArray.' + name, 'DimArray.%s must be the _NumpyDesc descriptor' % name)
        elif r[1] != name:
            ctx.violated('R2', D.qualname, 'DimArray.%s = _NumpyDesc(%r)' % (name, r[1]), 'DimArray.%s computes numpy.%s' % (name, r[1]))
        else:
            ctx.holds('R2', 'DimArray.%s -> apply_along_axis(self, %r)' % (name, name))
    g = ctx.fn(TR + '_NumpyDesc.__get__')
    evg = run(ctx, g)
    okg = False
    for p in ret_paths(evg):
        for x in T.subterms(p.value):
            if x[0] == 'call' and T.dotted(x[1]) == 'partial' and x[2] == (('name', 'apply_along_axis'), P_('obj'), ('attr', SELF, 'numpy_method')):
                okg = True
            # (functools.partial applications are 'partial' terms: function, bound positional arguments, bound keywords)
            if x[0] == 'partial' and x[1] == ('name', 'apply_along_axis') and tuple(x[2]) == (P_('obj'), ('attr', SELF, 'numpy_method')) and not x[3]:
                okg = True
    init = ctx.fn(TR + '_NumpyDesc.__init__')
    evi = run(ctx, init)
    oki = any(e.kind == 'store_attr' and e.b == 'numpy_method' and e.c == P_('numpy_method') for p in evi.paths for e in p.events)
    if okg and oki:
        ctx.holds('R2', '_NumpyDesc binds partial(apply_along_axis, obj, name)')
    else:
        ctx.violated('R2', g, '_NumpyDesc.__get__', 'the descriptor must bind apply_along_axis to the instance and its own function name')


def classify_callable(t, FN):
    """NaN behaviour of a callable term returned by _get_func"""
    if t == ('name', '_median_with_nan'):
        return 'propagate'
    if t[0] == 'call' and T.call_name(t) == '_MaskedArrayFunc':
        return 'ignore'
    if t[0] == 'call' and T.dotted(t[1]) == 'getattr' and len(t[2]) == 2:
        name = t[2][1]
        if name == FN:
            return 'propagate'
        s = T.show(name)
        alts = [v for v, _ in alternatives(name)]
        if alts and all(v[0] == 'binop' and v[1] == '+' and v[2][0] == 'const' and 'nan' in str(v[2][1]) for v in alts):
            return 'ignore'
        return 'unknown:' + s
    return 'unknown:' + T.show(t)


def rule_nan_policy(ctx):
    ctx.rule('R4', 'NaN policy table', 4)
    fi = ctx.fn(TR + '_get_func')
    FN = P_('funcname')
    for skipna in (True, False):
        ev = run(ctx, fi, bind={'skipna': const(skipna)})
        rets = ret_paths(ev)
        if not rets:
            ctx.violated('R4', fi, '_get_func(skipna=%s)' % skipna, 'with skipna=%s _get_func never returns a function (every path raises: %s)'
                         % (skipna, sorted(set(exc_name(p.value) for p in raise_paths(ev)))))
            continue
        ok = True
        kinds = set()
        for p in rets:
            k = classify_callable(p.value, FN)
            kinds.add(k)
            want = 'ignore' if skipna else 'propagate'
            if k.startswith('unknown:'):
                ctx.undecide('R4', '_get_func(skipna=%s) returns %s: neither a known NaN-ignoring nor a known NaN-propagating callable' % (skipna, k[8:120]))
                ok = False
            elif k != want:
                ctx.violated('R4', fi, 'return %s [skipna=%s]' % (T.show(p.value)[:100], skipna),
                             'with skipna=%s _get_func must return a NaN-%s function, returns %s' % (skipna, 'ignoring' if skipna else 'propagating', k), node=p.node)
                ok = False
            if not skipna and p.value == ('name', '_median_with_nan'):
                g = [pol for a, pol in p.guards if a == T.mkcmp('==', FN, const('median'))]
                if g != [True]:
                    ctx.violated('R4', fi, 'median dispatch', '_median_with_nan is for median only', node=p.node)
                    ok = False
        if not skipna:
            # median must not reach plain np.median (which ignores NaN below 50%)
            for p in rets:
                g = [pol for a, pol in p.guards if a == T.mkcmp('==', FN, const('median'))]
                if g == [True] and p.value != ('name', '_median_with_nan'):
                    ctx.violated('R4', fi, 'median [skipna=False]', 'median with skipna=False must use the NaN-propagating _median_with_nan', node=p.node)
                    ok = False
            if not any(p.value == ('name', '_median_with_nan') for p in rets):
                ctx.violated('R4', fi, 'median [skipna=False]', 'median with skipna=False must use the NaN-propagating _median_with_nan')
                ok = False
        if ok:
            ctx.holds('R4', '_get_func skipna=%s -> %s' % (skipna, sorted(kinds)))
    # masked-array fallback
    fi = ctx.fn(TR + '_MaskedArrayFunc.__call__')
    VALUES = P_('values')
    ev = run(ctx, fi)
    okm = True
    nmask = 0
    bool_paths = []
    masked_paths = []
    for p in ret_paths(ev):
        has_nan = [pol for a, pol in p.guards if a[0] == 'call' and T.call_name(a) == 'anynan']
        masked = [pol for a, pol in p.guards if a[0] == 'call' and T.call_name(a) == 'isMaskedArray']
        v = p.value
        if has_nan == [True]:
            # values masked where NaN, np.ma function
            cands = [x for x in T.subterms(v) if x[0] == 'call' and x[1][0] == 'call' and T.dotted(x[1][1]) == 'getattr' and x[1][2] and T.dotted(x[1][2][0]) in ('np.ma', 'np')]
            inner = cands[0] if cands else v
            if not (inner[0] == 'call' and inner[1][0] == 'call' and T.dotted(inner[1][1]) == 'getattr' and T.dotted(inner[1][2][0]) == 'np.ma'):
                ctx.violated('R4', fi, 'NaN present', 'with NaNs present the numpy.ma variant of the function must be used', node=p.node)
                okm = False
                continue
            arg = inner[2][0]
            if not (arg[0] == 'call' and T.dotted(arg[1]) == 'np.ma.array' and arg[2][:1] == (VALUES,) and
                    T.kw(arg, 'mask') == ('call', ('attr', ('name', 'np'), 'isnan'), (VALUES,), ())):
                ctx.violated('R4', fi, T.show(arg)[:120], 'NaNs must be masked: np.ma.array(values, mask=np.isnan(values))', node=p.node)
                okm = False
                continue
        if masked == [True]:
            nmask += 1
            masked_paths.append(p)
    # masked results: a scenario table over (function name, dtype kind of the masked result). np.ma returns a boolean masked array for all / any along an
    # axis, but the *float64* constant np.ma.masked when everything is masked and the result is a scalar - the identity fill must not depend on the dtype
    from ..rules import val_eval, UNKNOWN
    NAME_T, KIND_TS = ('attr', SELF, '__name__'), set()
    for p in masked_paths:
        for a, pol in p.guards:
            for x in T.subterms(a):
                if x[0] == 'attr' and x[2] == 'kind' and x[1][0] == 'attr' and x[1][2] == 'dtype':
                    KIND_TS.add(x)
    table_bad = None
    undecided_fill = None
    ntab = 0
    for fname, kind, want in (('all', 'b', True), ('any', 'b', False), ('all', 'f', True), ('any', 'f', False), ('ptp', 'f', 'nan'), ('ptp', 'i', 'nan')):
        env = {NAME_T: fname}
        for kt in KIND_TS:
            env[kt] = kind
        live = []

        def lookups(p):
            # look-ups of the function name in a literal table ({'all': True, 'any': False}[name]): (found?) per look-up, under this scenario
            out = []
            for x in T.subterms(p.value):
                if x[0] == 'sub' and x[1][0] == 'dict' and T.contains(x[2], NAME_T):
                    k = val_eval(x[2], env)
                    keys = [val_eval(kk, env) for kk, _ in x[1][1]]
                    if k is not UNKNOWN and UNKNOWN not in keys:
                        out.append(k in keys)
            return out
        all_lookups = [f for p in masked_paths for f in lookups(p)]
        for p in masked_paths:
            dec = [(val_eval(a, env), pol) for a, pol in p.guards if T.contains(a, NAME_T) or any(T.contains(a, kt) for kt in KIND_TS)]
            # (guards that mention the name only inside a larger, unevaluable term - the ndim test of the filled result - do not constrain the scenario)
            if not all(bool(r) == pol for r, pol in dec if r is not UNKNOWN):
                continue
            # `try: v = TABLE[name] / except KeyError: ...`: the path through the table is the scenario's only when the name is in it, the handler's only when it is not
            if any(f is False for f in lookups(p)):
                continue
            if any(a[0] == 'tryfail' and 'KeyError' in T.show(a) and pol is True for a, pol in p.guards) and all_lookups and all(all_lookups):
                continue
            live.append(p)
        for p in live:
            fills = [x for x in T.subterms(p.value) if x[0] == 'call' and T.call_name(x) == 'filled' and x[2]]
            if not fills:
                table_bad = table_bad or (p, fname, kind, 'the masked result is returned without .filled(...)')
                continue
            fv = fills[0][2][0]
            got = 'nan' if T.dotted(fv) in ('np.nan', 'nan') else val_eval(fv, env)
            ntab += 1
            if got is UNKNOWN:
                undecided_fill = undecided_fill or (fname, kind, T.show(fv)[:100])
            elif got != want or (isinstance(want, bool) and not isinstance(got, bool)):
                table_bad = table_bad or (p, fname, kind, 'it is filled with %s instead of %s' % (got, want))
        if not live and masked_paths:
            table_bad = table_bad or (masked_paths[0], fname, kind, 'no returning path')
    if table_bad is not None:
        p, fname, kind, what = table_bad
        ctx.violated('R4', fi, 'masked result of %s (dtype kind %r)' % (fname, kind), 'a masked result stands for a slice that is entirely NaN: with skipna=True it must become the identity of '
                     'the reduction for all / any (True / False: bool(NaN) is True, so any() would report True for a slice without a true element) and NaN otherwise, whatever '
                     'the dtype of the masked result (np.ma returns the float64 constant np.ma.masked when a scalar result is fully masked); for %s with a result of kind %r %s'
                     % (fname, kind, what), node=p.node)
        okm = False
    elif undecided_fill is not None:
        ctx.undecide('R4', 'masked result of %s (dtype kind %r): the fill value %s cannot be evaluated' % undecided_fill)
    elif okm and nmask:
        ctx.holds('R4', '_MaskedArrayFunc: mask NaNs, np.ma function, masked results filled with NaN, all / any with the identity of the reduction (%d table entries)' % ntab)
    # _median_with_nan
    fi = ctx.fn(TR + '_median_with_nan')
    rule_median_with_nan(ctx, fi)


def rule_median_with_nan(ctx, fi):
    """skipna=False for median: NumPy's median may ignore a NaN, so NaN is re-inserted - into the scalar result, and per slice where the slice *along the
    axis the median was taken* holds a NaN (path-wise; the axis is compared for positions 0, 1, 2, -1 and None)"""
    from ..rules import val_eval, UNKNOWN
    VALUES, KW = P_('values'), P_('**kwargs')
    ev = run(ctx, fi, mode='fork')
    okm = True
    n = 0

    def is_median(t):
        return t[0] == 'call' and T.call_name(t) == 'median' and t[2][:1] == (VALUES,) and any(k == '**' for k, v in t[3])

    def axis_leaves(t):
        out = []
        for x in T.subterms(t):
            if x[0] == 'call' and T.call_name(x) in ('pop', 'get') and x[1][0] == 'attr' and T.contains(x[1][1], KW) and x[2][:1] == (const('axis'),):
                out.append(x)
            if x[0] == 'sub' and T.contains(x[1], KW) and x[2] == const('axis'):
                out.append(x)
        return out

    for p in ret_paths(ev):
        has_nan = [pol for a, pol in p.guards if a[0] == 'call' and T.call_name(a) == 'anynan' and a[2] == (VALUES,) and not a[3]]
        scalar = [pol for a, pol in p.guards if (a[0] == 'cmp' and a[1] == '==' and a[3] == const(0) and T.call_name(a[2]) == 'ndim') or
                  (a[0] == 'call' and T.call_name(a) == 'isscalar')]
        scalar = [True] if True in scalar else scalar[:1]
        v = p.value
        n += 1
        if has_nan in ([False], []):
            if has_nan == [] or not is_median(v):
                ctx.violated('R4', fi, 'return ' + T.show(v)[:120], 'without NaN the result is the plain median of the values (and the NaN test must be anynan(values))', node=p.node)
                okm = False
            continue
        if scalar == [True]:
            if T.dotted(v) not in ('np.nan', 'nan'):
                ctx.violated('R4', fi, 'return ' + T.show(v)[:120], 'a scalar median of values containing NaN must be NaN', node=p.node)
                okm = False
            continue
        if not (v[0] == 'setitem' and is_median(v[1]) and T.dotted(v[3]) in ('np.nan', 'nan')):
            ctx.violated('R4', fi, 'return ' + T.show(v)[:160], 'the NaN-propagating median must set NaN where the reduced slice contains NaN', node=p.node)
            okm = False
            continue
        key = v[2]
        if not (key[0] == 'call' and T.call_name(key) == 'anynan' and key[2][:1] == (VALUES,)):
            ctx.violated('R4', fi, 'mask ' + T.show(key)[:120], 'the slices to blank are those where anynan(values, axis=<axis of the median>) is true', node=p.node)
            okm = False
            continue
        ax = T.kw(key, 'axis') if T.kw(key, 'axis') is not None else (key[2][1] if len(key[2]) > 1 else None)
        leaves = axis_leaves(ax) if ax is not None else []
        bad = None
        if ax is None or not leaves:
            bad = 'it does not read the axis= keyword the median was called with'
        else:
            for val in (0, 1, 2, -1, None):
                got = val_eval(ax, dict((x, val) for x in leaves))
                if got is UNKNOWN or got != val or (got is None) != (val is None) or isinstance(got, bool):
                    bad = 'for axis=%r the NaN test runs along %s' % (val, 'an undecided axis' if got is UNKNOWN else repr(got))
                    break
        if bad:
            ctx.violated('R4', fi, 'anynan(values, axis=%s)' % (T.show(ax)[:100] if ax else '<missing>'), 'the NaN test must run along the axis the median was taken along: %s '
                         '(median(axis=0, skipna=False) would blank every slice as soon as one holds a NaN)' % bad, node=p.node)
            okm = False
    if n < 3:
        ctx.undecide('R4', '_median_with_nan: expected the three cases (no NaN / scalar / per slice), found %d returning paths' % n)
    elif okm:
        ctx.holds('R4', '_median_with_nan re-inserts NaN (scalar, and per slice along the axis of the median for axis in 0, 1, 2, -1, None)')


def rule_percentile(ctx):
    ctx.rule('R7', 'percentile', 2)
    fi = ctx.fn('dimarray.lib.stats.percentile')
    A, PCT, AXIS = P_('a'), P_('pct'), P_('axis')
    # "a tuple of dimensions reduces over all of them at once" - for percentile too: the axis goes through the shared _deal_with_axis (which groups a tuple
    # with flatten and is decided by R6), and values / position / name / surviving axes all come from its result
    dwa = ('call', ('name', '_deal_with_axis'), (A, AXIS), ())
    OBJ, pos, nm = ('item', dwa, 0), ('item', dwa, 1), ('item', dwa, 2)
    A0 = A
    ev = run(ctx, fi, oracle=lambda a, st: (True if (a[0] == 'call' and T.dotted(a[1]) == 'isinstance' and a[2][0] == A) else None))
    n = 0
    for p in ret_paths(ev):
        v = p.value
        pc = [e.a for e in p.calls('percentile')]
        if len(pc) == 1 and T.contains(pc[0], ('call', ('attr', A0, '_get_axis_info'), (AXIS,), ())) and not list(p.calls('_deal_with_axis')):
            ctx.violated('R7', fi, 'axis resolved by _get_axis_info only', 'percentile resolves `axis` with a._get_axis_info(axis) alone: a tuple of dimensions raises TypeError '
                         '(percentile(d, 50, axis=(\'x\', \'y\'))) although every reduction promises "a tuple of dimensions reduces over all of them at once" and the others group '
                         'the dimensions through _deal_with_axis', node=p.node)
            break
        A = OBJ
        if len(pc) != 1 or pc[0][2][:2] != (('attr', A, 'values'), PCT) or T.kw(pc[0], 'axis') != pos:
            ctx.violated('R7', fi, 'np.percentile call', 'np.percentile(obj.values, pct, axis=pos) with obj, pos, name = _deal_with_axis(a, axis)', node=p.node)
            continue
        if v == pc[0]:
            continue     # scalar result
        # result construction
        das = [e.a for e in p.calls('DimArray')]
        if not das:
            ctx.violated('R7', fi, 'result', 'array results must be DimArrays', node=p.node)
            continue
        okax = True
        for d in das:
            ax = T.kw(d, 'axes')
            if not (ax is not None and ax[0] == 'comp' and ax[3][0][1] == ('attr', A, 'axes') and len(ax[3][0][2]) == 1
                    and ax[3][0][2][0] == T.mkcmp('!=', ('attr', ax[2], 'name'), nm)):
                ctx.violated('R7', fi, T.show(d)[:140], 'the surviving axes are a.axes without the axis of the same resolution (by name)', node=p.node)
                okax = False
        if not okax:
            continue
        # attrs
        upd = [e.a for e in p.calls('update') if e.a[2] in ((('attr', A, 'attrs'),), (('attr', A0, 'attrs'),))]
        if not upd:
            ctx.violated('R5', fi, 'return ' + T.show(v)[:120], 'percentile must carry the metadata of the array (results.attrs.update(a.attrs)), like the other '
                         'along-axis reductions', node=p.node)
            continue
        st = [e.a for e in p.calls('stack')]
        if st:
            c = st[0]
            keys, axn = T.kw(c, 'keys'), T.kw(c, 'axis')
            none = [pol for a, pol in p.guards if a == T.mkcmp('is', P_('newaxis'), T.CONST_NONE)]
            want_ax = ('binop', '+', nm, const('_percentile')) if none == [True] else P_('newaxis')
            isnone = T.mkcmp('is', P_('newaxis'), T.CONST_NONE)
            if axn is not None and axn[0] == 'ifexp' and not none and axn[1] in (isnone, ('unop', 'not', isnone), T.mkcmp('is not', P_('newaxis'), T.CONST_NONE)):
                # the default name chosen by a conditional expression instead of a statement: both alternatives as they must be
                then_, else_ = (axn[2], axn[3]) if axn[1] == isnone else (axn[3], axn[2])
                if then_ == ('binop', '+', nm, const('_percentile')) and else_ == P_('newaxis'):
                    axn = want_ax
            if keys != PCT or axn != want_ax:
                ctx.violated('R7', fi, T.show(c)[:160], "several percentiles are stacked along a new first axis named '<axis>_percentile' and labelled by pct",
                             node=p.node)
                continue
        n += 1
    if n:
        ctx.holds('R7', 'percentile: %d array-result paths coherent' % n)
        ctx.holds('R7', 'percentile carries a.attrs')
        ctx.holds('R5', 'percentile carries a.attrs')


def rule_scalar_dispatch(ctx):
    """R9: whether a reduction result is handed back as a bare scalar (axis=None) or as a labelled array is a question of its
    *dimensionality*; a size test (np.size(result) == 1) also matches the 1-element arrays of a size-1 remaining dimension and
    strips their axes ("every shape with sizes 1-4, so that single-element and single-slice results occur")."""
    import ast
    ctx.rule('R9', 'scalar-vs-array dispatch of reduction results uses dimensionality, never size == 1', 1)
    sites = 0
    for q in (TR + 'apply_along_axis', TR + '_median_with_nan', 'dimarray.lib.stats.percentile', TR + '_MaskedArrayFunc.__call__', TR + '_NumpyDesc.__get__'):
        fi = ctx.P.functions.get(q)
        if fi is None:
            continue
        results = set()
        for n in ast.walk(fi.node):
            if isinstance(n, ast.Assign) and isinstance(n.value, ast.Call):
                for t in n.targets:
                    if isinstance(t, ast.Name):
                        results.add(t.id)
        for n in ast.walk(fi.node):
            if not isinstance(n, (ast.If, ast.IfExp)):
                continue
            for c in ast.walk(n.test):
                if isinstance(c, ast.Compare) and len(c.ops) == 1 and isinstance(c.ops[0], ast.Eq):
                    sides = [c.left, c.comparators[0]]
                    one = [x for x in sides if isinstance(x, ast.Constant) and x.value == 1 and not isinstance(x.value, bool)]
                    sized = None
                    for x in sides:
                        if isinstance(x, ast.Call) and ast.unparse(x.func) in ('np.size', 'numpy.size', 'len') and x.args and isinstance(x.args[0], ast.Name):
                            sized = x.args[0].id
                        if isinstance(x, ast.Attribute) and x.attr == 'size' and isinstance(x.value, ast.Name):
                            sized = x.value.id
                    if one and sized in results:
                        ctx.violated('R9', fi, 'size test on `%s`' % sized, '`%s` decides between a bare scalar and an array result by size: a 1-element array (the remaining '
                                     'dimension has size 1) is treated like the axis=None scalar and loses its axes' % ast.unparse(c), node=n)
                elif isinstance(c, ast.Call) and ast.unparse(c.func) in ('np.isscalar', 'isscalar', 'np.ndim', 'numpy.ndim'):
                    sites += 1
                elif isinstance(c, ast.Attribute) and c.attr == 'ndim':
                    sites += 1
    ctx.holds('R9', '%d dimensionality tests (np.isscalar / np.ndim / .ndim) on reduction results, no size == 1 dispatch' % sites)
    if sites < 2:
        ctx.undecide('R9', 'expected at least 2 dimensionality tests on the reduction path (apply_along_axis, percentile), found %d' % sites)


def check(ctx):
    rule_axis_info(ctx)
    rule_deal_with_axis(ctx)
    rule_apply(ctx)
    rule_nan_policy(ctx)
    rule_percentile(ctx)
    rule_scalar_dispatch(ctx)
    # a tuple of dimensions is grouped by flatten(dims, insert=0) before the function is applied: flatten's order / splice / progress rules (C11)
    from . import c11
    from ..report import Renamed
    ctx.rule('R8', 'flatten (grouping of a tuple of dimensions): contiguity guard, shared insertion point, C-order reshape', 2)
    c11.rule_flatten(Renamed(ctx, {'*': 'R8'}))
    ctx.not_decided += ['numerical equality with NumPy', 'all-NaN slices under nan* functions']
    ctx.trusted += ['NumPy reduction semantics along axis=', 'numpy.ma masks are honoured by np.ma.<func>']
    return EXPLANATION
