"""C18 - interp_axis is per-fibre linear interpolation (thin structural clauses).

  R1 sortedness precondition  np.interp's xp derives from an object that passed _interp_internal_maybe_sort, which sorts unless the labels are
                              known non-decreasing (test `all(v[1:] >= v[:-1])`, not mere monotonicity)
  R2 axis bookkeeping         the interpolation runs along the position of the same resolution whose name labels the new axis; other axes are
                              copied; metadata carried; swapaxes(axis, 0) is undone
  R3 option plumbing          left / right reach both the 1-D and the N-d variant, default NaN; interp_like accumulates over the shared
                              dimensions, pairs labels with axis= by name and forwards keywords
  R4 out-of-range separation  the left and right fill masks are disjoint and exact for every axis length >= 1 (coordinate comparison, or
                              sentinels that differ from each other and from every valid index)
  R5 weight formula           vleft + frac * (vright - vleft) with frac = idx - floor(idx), lhs = int(idx), rhs = ceil(idx)
  R6 Dataset twin             Dataset.interp_axis uses the same three internal functions (decided under C14-R1)
"""
from .. import terms as T
from ..terms import const
from ..rules import P_, run, ret_paths, raise_paths, exc_name, bind_call_args, default_of, int_eval
from ..loader import AnalysisError

EXPLANATION = (
    "Thin structural clauses of C18: the sortedness precondition of numpy.interp is established by _interp_internal_maybe_sort (guard form checked), the "
    "interpolated position and the relabelled axis come from one resolution, left/right are plumbed into both variants, the out-of-range masks are exact and "
    "disjoint for every axis length, the weight formula has the linear normal form, interp_like accumulates. Numerical agreement with numpy.interp and "
    "exactness at the nodes are not decided.")

SELF = P_('self')
TR = 'dimarray.core.transform.'


def rule_sort(ctx):
    ctx.rule('R1', 'sortedness precondition', 2)
    fi = ctx.fn(TR + '_interp_internal_maybe_sort')
    OBJ, AXIS, ISS = P_('obj'), P_('axis'), P_('issorted')
    v = ('attr', ('sub', ('attr', OBJ, 'axes'), AXIS), 'values')
    hi, lo = ('sub', v, ('slice', const(1), T.CONST_NONE, T.CONST_NONE)), ('sub', v, ('slice', T.CONST_NONE, const(-1), T.CONST_NONE))
    good_tests = [('call', ('attr', ('name', 'np'), 'all'), (T.mkcmp('>=', hi, lo),), ()), ('call', ('attr', ('name', 'np'), 'all'), (T.mkcmp('<=', lo, hi),), ())]
    ev = run(ctx, fi, facts={T.mkcmp('is', ISS, T.CONST_NONE): True})
    ok = True
    for p in ev.paths:
        tests = [(a, pol) for a, pol in p.guards if a != T.mkcmp('is', ISS, T.CONST_NONE)]
        if len(tests) == 0:
            if p.kind == 'return' and p.value == OBJ:
                ctx.violated('R1', fi, 'return obj (no test)', 'with issorted=None the object is returned without testing whether its labels are non-decreasing: '
                             'numpy.interp needs increasing nodes', node=p.node)
                ok = False
            continue
        if len(tests) != 1:
            ctx.undecide('R1', '_interp_internal_maybe_sort: expected one sortedness test, found %d' % len(tests))
            ok = False
            continue
        a, pol = tests[0]
        if a not in good_tests:
            ctx.violated('R1', fi, T.show(a)[:140], 'the labels may only be used unsorted when they are non-decreasing (np.all(v[1:] >= v[:-1])); %s also accepts '
                         'other orders (a strictly decreasing axis is "monotonic" but numpy.interp needs increasing xp)' % T.show(a)[:60], node=p.node)
            ok = False
            continue
        if pol and p.value != OBJ:
            ctx.violated('R1', fi, 'return ' + T.show(p.value)[:100], 'sorted labels: the object is returned unchanged', node=p.node)
            ok = False
        if not pol and p.value != ('call', ('attr', OBJ, 'sort_axis'), (), (('axis', AXIS),)):
            ctx.violated('R1', fi, 'return ' + T.show(p.value)[:100], 'unsorted labels: the object must be sorted along that axis (obj.sort_axis(axis=axis))', node=p.node)
            ok = False
    if ok:
        ctx.holds('R1', '_interp_internal_maybe_sort: sort unless all(v[1:] >= v[:-1])')
    # np.interp receives the axis of the sorted object
    fi = ctx.fn(TR + 'interp_axis')
    ev = run(ctx, fi)
    obj = ('call', ('name', '_interp_internal_maybe_sort'), (SELF, P_('axis'), P_('issorted')), ())
    xp = ('attr', ('sub', ('attr', obj, 'axes'), P_('axis')), 'values')
    okx = True
    for p in ret_paths(ev):
        used = [e.a for e in p.calls('_numpy_interp')] + [e.a for e in p.calls('_interp_internal_get_weights')]
        for c in used:
            arg = c[2][1] if T.call_name(c) == '_numpy_interp' else c[2][0]
            same = _canon_axis_addressing(arg, obj, p.guards) == xp
            if arg != xp and not same:
                ctx.violated('R1', fi, T.show(c)[:140], 'the interpolation nodes must be the labels of the object returned by _interp_internal_maybe_sort', node=p.node)
                okx = False
    if okx:
        ctx.holds('R1', 'interp_axis interpolates against the labels of the sorted object')
    f = ctx.fn(TR + '_numpy_interp')
    ev = run(ctx, f, mode='join')
    if not any(T.dotted(e.a[1]) == 'np.interp' and e.a[2][:3] == (P_('x'), P_('xp'), P_('yp')) and T.kw(e.a, 'left') == P_('left') and T.kw(e.a, 'right') == P_('right')
               for p in ev.paths for e in p.calls('interp')):
        ctx.violated('R3', f, '_numpy_interp', '_numpy_interp must call np.interp(x, xp, yp, left=left, right=right)')


def _canon_axis_addressing(t, obj, guards):
    """t with obj.axes[<the interpolated axis>] written the one way the clauses read it (obj.axes[axis]): the same axis may be addressed by the caller's `axis`, by its
    resolved position or name, or - on a path where the array is known to be 1-d - as the only one (position 0 / -1)"""
    AXIS = P_('axis')
    axes_t = ('attr', obj, 'axes')
    gais = [('call', ('attr', r, '_get_axis_info'), (AXIS,), ()) for r in (SELF, obj)]
    idx = [('item', g, k) for g in gais for k in (0, 1)]
    one_d = any(a[0] == 'cmp' and a[2][0] == 'attr' and a[2][2] == 'ndim' and a[1] == '==' and a[3] == T.const(1) and pol is True for a, pol in guards) or \
        any(a[0] == 'cmp' and a[1] == '<' and a[2] == T.const(1) and a[3][0] == 'attr' and a[3][2] == 'ndim' and pol is False for a, pol in guards)
    if one_d:
        idx += [T.const(0), T.const(-1)]
    for i in idx:
        t = T.replace(t, ('sub', axes_t, i), ('sub', axes_t, AXIS))
    return t


def rule_bookkeeping(ctx):
    ctx.rule('R2', 'axis bookkeeping', 2)
    ctx.rule('R3', 'option plumbing', 3)
    fi = ctx.fn(TR + 'interp_axis')
    AXIS, VALUES, LEFT, RIGHT = P_('axis'), P_('values'), P_('left'), P_('right')
    gai = ('call', ('attr', SELF, '_get_axis_info'), (AXIS,), ())
    pos, name = ('item', gai, 0), ('item', gai, 1)
    newaxis = ('call', ('name', 'Axis'), (VALUES, name), ())
    obj = ('call', ('name', '_interp_internal_maybe_sort'), (SELF, AXIS, P_('issorted')), ())
    ev = run(ctx, fi)
    from ..rules import alternatives

    class _Case(object):
        # one resolution of the conditional expressions of a returned value: the path with the variant as its value and the variant's tests as guards
        def __init__(self, p, value, guards):
            self.value, self.guards, self.node, self._p = value, tuple(p.guards) + tuple(guards), p.node, p

        def calls(self, name=None):
            return self._p.calls(name)
    cases = [_Case(p, v_, g_) for p in ret_paths(ev) for v_, g_ in alternatives(strip(p.value), into_comps=False)]
    for p in cases:
        v = _canon_axis_addressing(strip(p.value), obj, p.guards)
        cons = v if (v[0] == 'call' and T.call_name(v) == '_constructor') else None
        if cons is None or T.call_receiver(cons) != obj:
            ctx.violated('R2', fi, 'return ' + T.show(v)[:120], 'the result is built by obj._constructor(newval, newaxes)', node=p.node)
            continue
        upd = [e for e in p.calls('update') if e.a[2] == (('attr', obj, 'attrs'),)]
        meta = dict(cons[3]).get('**') == ('attr', obj, 'attrs')
        if not upd and not meta:
            ctx.violated('R2', fi, 'metadata', 'interp_axis carries the metadata (dima.attrs.update(obj.attrs))', node=p.node)
            continue
        newval, newaxes = cons[2]
        nd = [pol for a, pol in p.guards if 'ndim' in T.show(a)]
        if newval[0] == 'call' and T.call_name(newval) == '_numpy_interp':
            # arguments compared by parameter, so that positional and keyword spellings of the internal call read the same
            b = bind_call_args(newval, ctx.fn(TR + '_numpy_interp'))
            want_b = {'x': ('attr', newaxis, 'values'), 'xp': ('attr', ('sub', ('attr', obj, 'axes'), AXIS), 'values'), 'yp': ('attr', obj, 'values'), 'left': LEFT, 'right': RIGHT}
            if b != want_b:
                ctx.violated('R3' if 'left' not in T.show(newval) or 'right' not in T.show(newval) else 'R2', fi, 'newval = ' + T.show(newval)[:160],
                             '1-D: np.interp(new labels, old labels, values, left=left, right=right)', node=p.node)
                continue
            if newaxes != ('call', ('name', 'Axes'), (('list', (newaxis,)),), ()):
                ctx.violated('R2', fi, 'newaxes = ' + T.show(newaxes)[:120], '1-D: the single axis is Axis(values, name)', node=p.node)
                continue
            ctx.holds('R2', 'interp_axis 1-D')
            ctx.holds('R3', 'left/right reach np.interp')
        elif newval[0] == 'call' and T.call_name(newval) == '_interp_internal_from_weight':
            w = ('call', ('name', '_interp_internal_get_weights'), (('attr', ('sub', ('attr', obj, 'axes'), AXIS), 'values'), ('attr', newaxis, 'values')), ())
            kws = bind_call_args(newval, ctx.fn(TR + '_interp_internal_from_weight'))
            # the weights either as **w or item by item (lhs_idx=w['lhs_idx'], ...)
            wkeys = ('lhs_idx', 'rhs_idx', 'frac', 'left_idx', 'right_idx')
            if '**' not in kws and all(kws.get(k) == ('sub', w, const(k)) for k in wkeys):
                kws['**'] = w
            if kws.get('arr') != ('attr', obj, 'values') or kws.get('axis') != pos or kws.get('**') != w:
                ctx.violated('R2', fi, 'newval = ' + T.show(newval)[:160], 'N-d: weights computed once from (old labels, new labels) and applied along the position '
                             'resolved from `axis`', node=p.node)
                continue
            if kws.get('left') != LEFT or kws.get('right') != RIGHT:
                ctx.violated('R3', fi, 'newval = ' + T.show(newval)[:160], 'left / right must reach the N-d variant', node=p.node)
                continue
            ok = newaxes[0] == 'comp' and newaxes[3][0][1] == ('attr', obj, 'axes') and newaxes[2][0] == 'ifexp' and newaxes[2][2] == newaxis \
                and newaxes[2][3] == ('call', ('attr', ('elem', ('attr', obj, 'axes'), newaxes[3][0][0]), 'copy'), (), ()) \
                and newaxes[2][1] in (T.mkcmp('==', ('attr', ('elem', ('attr', obj, 'axes'), newaxes[3][0][0]), 'name'), ('attr', newaxis, 'name')),
                                      T.mkcmp('==', ('attr', ('elem', ('attr', obj, 'axes'), newaxes[3][0][0]), 'name'), name))        # canonical ifexp polarity
            if not ok:
                ctx.violated('R2', fi, 'newaxes = ' + T.show(newaxes)[:160], 'N-d: the axis of the same name becomes Axis(values, name), the others are copied', node=p.node)
                continue
            ctx.holds('R2', 'interp_axis N-d')
            ctx.holds('R3', 'left/right reach the N-d variant')
        else:
            ctx.undecide('R2', 'interp_axis: unrecognised interpolation variant newval = ' + T.show(newval)[:120])
    for k in ('left', 'right'):
        d = default_of(fi, k)
        if d != ('expr', 'np.nan'):
            ctx.violated('R3', fi, 'default %s' % k, 'the default fill outside the label range is NaN')
    # interp_like
    il = ctx.fn(TR + 'interp_like')
    OTHER = P_('other')
    ev = run(ctx, il, mode='join', oracle=lambda a, st: True if (a[0] == 'call' and T.dotted(a[1]) == 'hasattr') else None)
    okl = False
    for p in ret_paths(ev):
        calls = [e for e in p.calls('interp_axis')]
        if len(calls) != 1:
            ctx.violated('R3', il, 'interp_like', 'one interp_axis call per shared dimension expected', node=p.node)
            continue
        e = calls[0]
        c = e.a
        recv = T.call_receiver(c)
        alts = T.value_alts(recv)
        if not any(x[0] == 'carried' for x in alts) or SELF not in alts:
            ctx.violated('R3', il, e.node, 'each dimension must be interpolated starting from the result of the previous one (obj = obj.interp_axis(...)); every iteration '
                         'restarts from %s, so only the last shared dimension ends up interpolated' % T.show(recv)[:60], node=e.node)
            continue
        from .c07 import own_shared_dim
        nm = T.kw(c, 'axis')
        if nm is None or own_shared_dim(nm, e) != 'ok' or (c[2][0] if c[2] else None) != ('attr', ('sub', ('attr', OTHER, 'axes'), nm), 'values') \
                or dict(c[3]).get('**') != P_('**kwargs'):
            ctx.violated('R3', il, e.node, 'labels and axis= must refer to the same dimension name, keywords forwarded', node=e.node)
            continue
        okl = True
    if okl:
        from .c07 import skip_guard_check
        if skip_guard_check(ctx, 'R3', il, 'interp_axis', 'interp_like'):
            ctx.holds('R3', 'interp_like: obj = obj.interp_axis(other.axes[name].values, axis=name, **kwargs)')


def strip(t):
    while t[0] in ('mut', 'setitem'):
        t = t[1]
    return t


def rule_weights(ctx):
    ctx.rule('R4', 'out-of-range separation', 1)
    ctx.rule('R5', 'weight formula', 2)
    fi = ctx.fn(TR + '_interp_internal_get_weights')
    OLDX, NEWX = P_('oldx'), P_('newx')
    ev = run(ctx, fi)
    for p in ret_paths(ev):
        v = p.value
        if v[0] != 'dict':
            ctx.undecide('R4', '_interp_internal_get_weights does not return a dict literal')
            continue
        d = {k[1]: x for k, x in v[1]}
        need = {'lhs_idx', 'rhs_idx', 'frac', 'left_idx', 'right_idx'}
        if set(d) != need:
            ctx.violated('R5', fi, 'return keys %s' % sorted(d), 'the weights are lhs_idx, rhs_idx, frac, left_idx, right_idx', node=p.node)
            continue
        idxs = [c for c in T.calls_in(v, '_numpy_interp')] or [c for c in T.calls_in(v, 'interp')]
        if len(set(idxs)) != 1:
            ctx.undecide('R4', 'expected one fractional-index interpolation')
            continue
        ni = idxs[0]
        size = ('attr', OLDX, 'size')
        if ni[2][:3] != (NEWX, OLDX, ('call', ('attr', ('name', 'np'), 'arange'), (size,), ())):
            ctx.violated('R5', fi, T.show(ni)[:140], 'fractional positions: interp(newx, oldx, arange(oldx.size))', node=p.node)
            continue
        L, R = T.kw(ni, 'left'), T.kw(ni, 'right')
        li, ri = d['left_idx'], d['right_idx']
        # form A: coordinate comparison
        formA = li in (T.mkcmp('<', NEWX, ('sub', OLDX, const(0))), T.mkcmp('>', ('sub', OLDX, const(0)), NEWX)) and \
            ri in (T.mkcmp('>', NEWX, ('sub', OLDX, const(-1))), T.mkcmp('<', ('sub', OLDX, const(-1)), NEWX))
        if formA:
            # the sentinels only need to be valid positions
            okA = True
            for n in range(1, 7):
                for s in (L, R):
                    val = int_eval(s, {size: n}) if s is not None else None
                    if val is None or not (-n <= val <= n - 1):
                        okA = False
            if okA:
                ctx.holds('R4', 'out-of-range masks by coordinate comparison (newx < oldx[0], newx > oldx[-1]); fills are valid positions')
            else:
                ctx.violated('R4', fi, T.show(ni)[:140], 'the fill positions given to interp must be valid indices for every axis length >= 1', node=p.node)
        else:
            # form B: sentinel comparison  left_idx = newindices == L ; right_idx = newindices == R
            okB = li == T.mkcmp('==', ni, L) and ri == T.mkcmp('==', ni, R)
            bad = None
            if okB:
                for n in range(1, 7):
                    lv, rv = int_eval(L, {size: n}), int_eval(R, {size: n})
                    if lv is None or rv is None:
                        okB = False
                        break
                    if lv == rv or 0 <= lv <= n - 1 or 0 <= rv <= n - 1 or lv < -n or rv < -n:
                        bad = (n, lv, rv)
                        break
            if not okB:
                ctx.violated('R4', fi, 'left_idx / right_idx', 'the out-of-range masks must be newx < oldx[0] / newx > oldx[-1] or sentinel comparisons', node=p.node)
            elif bad:
                ctx.violated('R4', fi, 'sentinels %s / %s' % (T.show(L), T.show(R)), 'for an axis of %d label(s) the left and right sentinels are %s and %s: they must differ from '
                             'each other and from every valid position (points left of a single-node axis get the right fill)' % bad, node=p.node)
            else:
                ctx.holds('R4', 'sentinels separate for every axis length')
        lhs = ('call', ('attr', ('name', 'np'), 'asarray'), (ni,), (('dtype', ('name', 'int')),))
        rhs = ('call', ('attr', ('name', 'np'), 'asarray'), (('call', ('attr', ('name', 'np'), 'ceil'), (ni,), ()),), (('dtype', ('name', 'int')),))
        def as_int(x):
            # np.asarray(y, dtype=int) / y.astype(int): the integer cast of y
            if x[0] == 'call' and T.dotted(x[1]) in ('np.asarray', 'np.array') and len(x[2]) == 1 and T.kw(x, 'dtype') == ('name', 'int'):
                return x[2][0]
            if x[0] == 'call' and T.call_name(x) == 'astype' and x[1][0] == 'attr' and x[2] == (('name', 'int'),):
                return x[1][1]
            return None
        npf = lambda f, y: ('call', ('attr', ('name', 'np'), f), (y,), ())
        # (the positions are >= 0: truncation and floor are the same cast)
        lhs_ok = as_int(d['lhs_idx']) in (ni, npf('floor', ni), npf('trunc', ni))
        rhs_ok = as_int(d['rhs_idx']) == npf('ceil', ni)
        if not (lhs_ok and rhs_ok and d['frac'] == ('binop', '-', ni, d['lhs_idx'])):
            ctx.violated('R5', fi, 'lhs/rhs/frac', 'lhs = int(idx), rhs = ceil(idx), frac = idx - lhs', node=p.node)
        else:
            ctx.holds('R5', 'lhs = int(idx), rhs = ceil(idx), frac = idx - lhs')
    fw = ctx.fn(TR + '_interp_internal_from_weight')
    ARR = P_('arr')
    promoted = []
    for nd in (True, False):
        ev = run(ctx, fw, oracle=lambda a, st, nd=nd: (nd if (a[0] == 'cmp' and a[1] == '<' and a[2] == const(1) and a[3][0] == 'attr' and a[3][2] == 'ndim') else None))
        from ..rules import alternatives as _alts

        class _Alt(object):
            # one resolution of the conditional expressions of a returned value (`x.astype(float) if <integer kind> else x`), read like the two branches of an if
            def __init__(self, p_, value, guards):
                self.value, self.guards, self.node = value, tuple(p_.guards) + tuple(guards), p_.node
        for p in [_Alt(p_, v_, g_) for p_ in ret_paths(ev) for v_, g_ in _alts(p_.value, into_comps=False)]:
            a = ('call', ('attr', ARR, 'swapaxes'), (P_('axis'), const(0)), ()) if nd else ARR
            vl, vr = ('sub', a, P_('lhs_idx')), ('sub', a, P_('rhs_idx'))
            base = None
            v = p.value
            # strip the fill stores and the back-swap
            core = v
            if nd:
                if not (core[0] == 'call' and T.call_name(core) == 'swapaxes' and core[2] == (P_('axis'), const(0))):
                    ctx.violated('R2', fw, 'return ' + T.show(v)[:120], 'N-d: the interpolation axis is swapped to the front and back (swapaxes(axis, 0) twice)', node=p.node)
                    continue
                core = T.call_receiver(core)
            fills = []
            while core[0] == 'setitem':
                fills.append((core[2], core[3]))
                core = core[1]
            if sorted(fills, key=repr) != sorted([(P_('left_idx'), P_('left')), (P_('right_idx'), P_('right'))], key=repr):
                ctx.violated('R3', fw, 'fill stores', 'newval[left_idx] = left and newval[right_idx] = right', node=p.node)
                continue
            fr = None
            # the fibre values entering the difference: arr itself, or arr promoted to float (integer data)
            if core[0] == 'binop' and core[1] == '+' and core[2][0] == 'sub' and core[2][2] == P_('lhs_idx'):
                X = core[2][1]
                base = T.call_receiver(X) if (nd and X[0] == 'call' and T.call_name(X) == 'swapaxes') else X
                floats = (('call', ('attr', ARR, 'astype'), (('name', 'float'),), ()), ('call', ('attr', ('name', 'np'), 'asarray'), (ARR,), (('dtype', ('name', 'float')),)))
                if base == ARR or base in floats:
                    vl, vr = ('sub', X, P_('lhs_idx')), ('sub', X, P_('rhs_idx'))
                    intg = [pol for a_, pol in p.guards if (a_[0] == 'cmp' and a_[1] in ('in', '==') and 'dtype' in T.show(a_[2]) and 'kind' in T.show(a_[2]))]
                    promoted.append((base in floats, intg))
            if core[0] == 'binop' and core[1] == '+' and core[2] == vl and core[3][0] == 'binop' and core[3][1] == '*':
                f, dlt = core[3][2], core[3][3]
                if dlt != ('binop', '-', vr, vl):
                    f, dlt = dlt, f
                if dlt == ('binop', '-', vr, vl) and T.contains(f, P_('frac')):
                    fr = f
            if fr is None:
                ctx.violated('R5', fw, 'newval = ' + T.show(core)[:140], 'linear interpolation: vleft + frac * (vright - vleft) with vleft = arr[lhs_idx], vright = arr[rhs_idx]', node=p.node)
                continue
            ctx.holds('R5', 'from_weight %s: vleft + frac*(vright - vleft), fills, %s' % ('N-d' if nd else '1-D', 'swapaxes undone' if nd else ''))

    # "float/int arrays": vright - vleft is computed in the dtype of the data; for unsigned (and narrow signed) integers a decreasing step wraps around, so
    # the N-d / Dataset variants disagree with numpy.interp (which works in float).  The integer case has to be promoted before the difference.
    if promoted and not any(is_f and True in intg for is_f, intg in promoted):
        ctx.violated('R5', fw, 'integer fibres not promoted', 'the linear combination vleft + frac * (vright - vleft) is evaluated in the dtype of the array: for unsigned integer data every '
                     'decreasing step wraps around (uint8 [200, 100] at the midpoint gives 278 - 256... instead of 150), unlike the 1-D path through numpy.interp', node=fw.node)
    elif promoted:
        ctx.holds('R5', 'from_weight: integer data promoted to float before the difference')


def check(ctx):
    rule_sort(ctx)
    rule_bookkeeping(ctx)
    rule_weights(ctx)
    ctx.rule('R6', 'Dataset twin (see C14-R1)', 1)
    from . import c14
    before = len(ctx.findings)
    # only the interp part of the delegation registry matters here; reuse the rule and keep its interp findings
    sub = type(ctx)(ctx.prop, ctx.P, ctx.tier, ctx.seed)
    c14.rule_delegation(sub)
    c14.rule_reduce_axis(sub)
    for f in sub.findings:
        if 'interp' in f.qualname or 'reduce_axis' in f.qualname:
            ctx.violated('R6', f.qualname, f.construct, f.message)
    if len(ctx.findings) == before:
        ctx.holds('R6', 'Dataset.interp_axis: maybe_sort -> get_weights -> reduce_axis(from_weight, newaxis=requested axis)')
    ctx.functions |= sub.functions
    ctx.not_decided += ['numerical agreement with numpy.interp', 'exactness at the nodes', 'behaviour for repeated labels']
    ctx.trusted += ['numpy.interp semantics for increasing xp', 'ndarray.swapaxes is an involution']
    return EXPLANATION
