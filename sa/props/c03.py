"""C03 - assignment writes exactly the addressed cells (structural clauses).

  R1 copy before write   inplace=False: every write goes to self.copy(), which is returned; inplace=True: self, returns None
  R2 read/write twins    _setitem resolves indices like _getitem; _setvalues_ortho subscripts self.values with the
                         same orthogonal_indexer(indices, self.shape) term as _getvalues_ortho; the N-d boolean case
                         is tested by the same predicate on both sides
  R3 cast discipline     with cast=True the store is preceded by self._values = _maybe_cast_type(self._values, new);
                         fillna / setna / reindex_axis pass cast=True
  R4 widening table      _maybe_cast_type over all (array kind, assigned kind) pairs is loss-free
  R5 nothing else moves  the write path stores to _values only (never axes / attrs / names)
"""
import itertools

from .. import terms as T
from ..terms import const
from ..rules import P_, run, ret_paths, raise_paths, bind_call_args
from ..loader import AnalysisError

EXPLANATION = (
    "Structural clauses of C03: path-sensitive value numbering of AbstractDimArray._setitem under inplace in {True, False} "
    "(receiver of every write, returned object), read/write twin comparison of the indexer terms, cast discipline of the "
    "three DimArray._setvalues_* writers and the values setter (order of the widening store and the cell store), and an "
    "exhaustive decision table of _maybe_cast_type over 10x10 dtype-kind pairs compared with the loss-free relation. "
    "Which cells NumPy writes for a given fancy index and the broadcasting of the right-hand side are not decided.")

SELF = P_('self')
BASES = 'dimarray.core.bases.'
CLS = 'dimarray.core.dimarraycls.DimArray.'
KINDS = ['b', 'i', 'u', 'f', 'c', 'S', 'U', 'O', 'M', 'm']


def setitem_oracle(bc, boolnd):
    def oracle(atom, st):
        # the array's own broadcast flag, read from the array or from the copy that is written (the copy carries the same flag)
        for recv in (SELF, ('call', ('attr', SELF, 'copy'), (), ())):
            B = ('attr', recv, '_broadcast')
            if atom == T.mkcmp('is', B, T.CONST_NONE):
                return False
            if atom == B:
                return bc
        if atom[0] == 'call' and T.call_name(atom) == '_is_boolean_index_nd':
            return boolnd
        return None
    return oracle


def rule_setitem(ctx):
    ctx.rule('R1', 'copy before write', 4)
    ctx.rule('R2', 'read/write twins', 3)
    # the structural reading of _setitem on trial: when it does not recognise how the writer is chosen and called, the dispatch scenarios of _setitem decide (which
    # worker receives which resolved index, on the array or on its copy, what is returned)
    from ..report import on_trial
    on_trial(ctx, _setitem_structural, [BASES + 'AbstractDimArray._setitem'], ('R1', 'R2'), '_setitem')
    _copy_is_whole(ctx)


def _setitem_structural(ctx):
    fi = ctx.fn(BASES + 'AbstractDimArray._setitem')
    gi = ctx.fn(BASES + 'AbstractHasAxes._get_indices')
    for inplace, boolnd in itertools.product([False, True], [False, True]):
        orc = setitem_oracle(False, boolnd)
        ev = run(ctx, fi, bind={'inplace': const(inplace), 'broadcast': T.CONST_NONE}, oracle=orc)
        inst = 'inplace=%s, N-d boolean index=%s' % (inplace, boolnd)
        ok = True
        for p in ev.paths:
            # (a call made through `w = a if c else b; w(...)` is recorded once per alternative, under the alternative's own guard)
            writers = [e for e in p.calls() if (T.call_name(e.a) or '').startswith('_setvalues_')
                       and all(orc(a, None) in (None, pol) for a, pol in e.guards)]
            if p.kind != 'return' or len(writers) != 1:
                ctx.violated('R1', fi, 'write path [%s]' % inst, 'expected exactly one _setvalues_* call on every path, found %d (%s)'
                             % (len(writers), p.kind), node=p.node)
                ok = False
                continue
            w = writers[0]
            recv = T.call_receiver(w.a)
            # DimArray.copy() is deep by default; copy(shallow=True) shares the buffer
            is_copy = recv[0] == 'call' and T.call_name(recv) == 'copy' and T.call_receiver(recv) == SELF \
                and not recv[2] and T.kw(recv, 'shallow', T.CONST_FALSE) == T.CONST_FALSE
            if inplace:
                if recv != SELF:
                    ctx.violated('R1', fi, w.node, 'inplace=True must write into the array itself', node=w.node)
                    ok = False
                elif p.value != T.CONST_NONE:
                    ctx.violated('R1', fi, 'return ' + T.show(p.value), 'inplace=True returns None', node=p.node)
                    ok = False
            else:
                if not is_copy:
                    ctx.violated('R1', fi, w.node, 'inplace=False: the write goes to %s instead of a copy of the array: the original '
                                 'is modified' % T.show(recv), node=w.node)
                    ok = False
                elif p.value != recv:
                    ctx.violated('R1', fi, 'return ' + T.show(p.value), 'inplace=False must return the modified copy', node=p.node)
                    ok = False
            # which writer
            wn = T.call_name(w.a)
            if boolnd and wn != '_setvalues_bool':
                ctx.violated('R2', fi, w.node, 'a full-shape boolean index must be written with _setvalues_bool', node=w.node)
                ok = False
            if not boolnd and wn != '_setvalues_ortho':
                ctx.violated('R2', fi, w.node, 'default (orthogonal) indexing must be written with _setvalues_ortho, like reads use '
                             '_getvalues_ortho', node=w.node)
                ok = False
            if T.kw(w.a, 'cast') != P_('cast') and (len(w.a[2]) < 3 or w.a[2][2] != P_('cast')):
                ctx.violated('R3', fi, w.node, 'the cast option must be forwarded to the writer', node=w.node)
                ok = False
            if not boolnd:
                gic = [e.a for e in p.calls('_get_indices')]
                if len(gic) != 1 or T.call_receiver(gic[0]) != recv:
                    ctx.violated('R2', fi, w.node, 'indices must be resolved by _get_indices on the written object', node=w.node)
                    ok = False
                    continue
                b = bind_call_args(gic[0], gi, method=True)
                wrong = [k for k in ('indices', 'axis', 'indexing', 'tol') if b.get(k) != P_(k)]
                if wrong:
                    ctx.violated('R2', fi, T.show(gic[0]), 'the write path must resolve the index exactly like the read path: %s not '
                                 'forwarded' % ', '.join(wrong), node=w.node)
                    ok = False
                if w.a[2][:2] != (gic[0], P_('values')):
                    ctx.violated('R2', fi, w.node, 'writer must receive (resolved indexer, values)', node=w.node)
                    ok = False
            else:
                if w.a[2][:2] != (P_('indices'), P_('values')):
                    ctx.violated('R2', fi, w.node, 'boolean writer must receive (mask, values)', node=w.node)
                    ok = False
            # R5: no other store on the receiver
            for e in p.events:
                if e.kind in ('store_attr', 'store_sub', 'del') and e.frame == fi.qualname:
                    ctx.violated('R5', fi, e.node, '_setitem itself must not store anything besides the cell values', node=e.node)
                    ok = False
        if ok:
            ctx.holds('R1', inst)
            ctx.holds('R2', 'index resolution shared with reads: ' + inst)
    _same_predicate(ctx, fi)


def _copy_is_whole(ctx):
    # the copy that is written into must be the whole array: values, axes, metadata *and* the per-instance indexing mode (an array created while indexing.by was
    # 'position' keeps resolving indices by position; a copy that falls back to the current option would write other cells than a[idx] reads)
    cp = ctx.fn(CLS + 'copy')
    evc = run(ctx, cp, bind={'shallow': T.CONST_FALSE})
    for p in ret_paths(evc):
        v = p.value
        whole = v[0] == 'call' and T.dotted(v[1]) in ('copy.deepcopy', 'deepcopy') and v[2][:1] == (SELF,)
        carried = v[0] == 'call' and all(T.kw(v, k) in (('attr', SELF, k), ('call', ('attr', ('name', 'copy'), 'deepcopy'), (('attr', SELF, k),), ())) for k in ('_indexing', '_indexing_broadcast'))
        if whole or carried:
            ctx.holds('R1', 'DimArray.copy(): the whole object is copied (per-instance indexing mode included)')
        else:
            ctx.violated('R1', cp, 'return ' + T.show(v)[:140], 'DimArray.copy() rebuilds the array from values, axes and attrs only: the per-instance indexing mode (_indexing, '
                         '_indexing_broadcast) falls back to the current global option, so put(..., inplace=False) / a[idx] = v on the copy resolves the index differently from '
                         'the read a[idx] on the original (copy.deepcopy(self), or hand _indexing= / _indexing_broadcast= on)', node=p.node)


def _same_predicate(ctx, fi):
    # same N-d boolean predicate on both sides
    g = ctx.fn(BASES + 'AbstractDimArray._getitem')
    evg = run(ctx, g, bind={'broadcast': T.CONST_NONE, 'broadcast_arrays': T.CONST_NONE}, mode='join')
    names_g = set(T.call_name(e.a) for p in evg.paths for e in p.calls())
    evs = run(ctx, fi, mode='join')
    names_s = set(T.call_name(e.a) for p in evs.paths for e in p.calls())
    if '_is_boolean_index_nd' in names_g and '_is_boolean_index_nd' in names_s:
        ctx.holds('R2', 'same N-d boolean predicate in _getitem and _setitem')
    else:
        ctx.violated('R2', fi, '_is_boolean_index_nd', 'reads and writes must recognise a full-shape boolean index with the same predicate')


def rule_writers(ctx):
    ctx.rule('R3', 'cast discipline', 6)
    ctx.rule('R5', 'writers store to _values only', 3)
    gv = ctx.fn(CLS + '_getvalues_ortho')
    evg = run(ctx, gv)
    read_idx = None
    for p in ret_paths(evg):
        if p.value[0] == 'sub':
            read_idx = p.value[2]
    specs = [('_setvalues_ortho', 'indices', 'newvalues', 'ortho'), ('_setvalues_broadcast', 'indices', 'newvalues', 'plain'),
             ('_setvalues_bool', 'mask', 'newvalues', 'mask')]
    for name, pidx, pval, kind in specs:
        fi = ctx.fn(CLS + name)
        IDXP, VALP = P_(fi.params[1]), P_(fi.params[2])
        for cast in (True, False):
            ev = run(ctx, fi, bind={'cast': const(cast)})
            for p in ev.paths:
                stale = [e for e in p.events if e.kind == 'stale']
                if stale:
                    ctx.violated('R3', fi, stale[0].node, 'the cells are written through the local name `%s`, bound to %s before that attribute was replaced (the widened copy of '
                                 'cast=True): the write lands in the old, discarded array and the array keeps its previous content'
                                 % (stale[0].b, T.show(stale[0].a)), node=stale[0].node)
                    continue
                stores = [e for e in p.events if e.kind in ('store_attr', 'store_sub', 'del')]
                cells = [e for e in stores if e.kind == 'store_sub']
                casts = [e for e in stores if e.kind == 'store_attr']
                def _is_cells(e):
                    # self.values / self._values, or the very object that was last stored into self._values (a local name shared with the attribute:
                    # `self._values = values = _maybe_cast_type(...)`; the stale-alias events above cover a name bound before the attribute was replaced)
                    if e.a in (('attr', SELF, 'values'), ('attr', SELF, '_values')):
                        return True
                    before = [c for c in casts if p.events.index(c) < p.events.index(e)]
                    return bool(before) and before[-1].a == SELF and before[-1].b == '_values' and before[-1].c == e.a
                other = [e for e in stores if e.kind == 'del' or (e.kind == 'store_attr' and (e.a != SELF or e.b != '_values'))
                         or (e.kind == 'store_sub' and not _is_cells(e))]
                if other:
                    ctx.violated('R5', fi, other[0].node, 'a cell writer may only store into self._values / self.values[...]', node=other[0].node)
                    continue
                if len(cells) != 1 or cells[0].c != VALP:
                    ctx.violated('R5', fi, 'cell store', 'expected exactly one store self.values[index] = <assigned values>', node=p.node)
                    continue
                cell = cells[0]
                idx = cell.b
                if kind == 'ortho':
                    want = ('call', ('name', 'orthogonal_indexer'), (IDXP, ('attr', SELF, 'shape')), ())
                    if idx != want:
                        ctx.violated('R2', fi, cell.node, 'the write must use orthogonal_indexer(indices, self.shape), the same indexer '
                                     'as the read path', node=cell.node)
                        continue
                    if read_idx is not None and T.show(read_idx) != T.show(want).replace(fi.params[1], gv.params[1]):
                        ctx.violated('R2', fi, cell.node, 'read path indexes with %s, write path with %s' % (T.show(read_idx), T.show(idx)),
                                     node=cell.node)
                        continue
                elif kind == 'plain':
                    if idx != IDXP:
                        ctx.violated('R2', fi, cell.node, 'broadcast writer must index with the given indices', node=cell.node)
                        continue
                else:
                    from ..rules import strip_trivial
                    if strip_trivial(idx) != IDXP:
                        ctx.violated('R2', fi, cell.node, 'boolean writer must index with the given mask', node=cell.node)
                        continue
                if cast:
                    good = (len(casts) == 1 and casts[0].c[0] == 'call' and T.call_name(casts[0].c) == '_maybe_cast_type'
                            and casts[0].c[2] in ((('attr', SELF, '_values'), VALP), (('attr', SELF, 'values'), VALP)))
                    if not good:
                        ctx.violated('R3', fi, 'cast=True path', 'with cast=True the array must first be widened: '
                                     'self._values = _maybe_cast_type(self._values, newvalues)', node=p.node)
                        continue
                    if p.events.index(casts[0]) > p.events.index(cell):
                        ctx.violated('R3', fi, casts[0].node, 'the dtype must be widened before the cells are written (truncation otherwise)',
                                     node=casts[0].node)
                        continue
                else:
                    if casts:
                        ctx.violated('R3', fi, casts[0].node, 'with cast=False the dtype must not change', node=casts[0].node)
                        continue
                ctx.holds('R3', '%s cast=%s' % (name, cast))
        ctx.holds('R5', name + ' stores into _values only')
    # values setter
    m = ctx.P.lookup(ctx.P.cls('dimarray.core.dimarraycls.DimArray'), 'values')
    fi = m.value['fset']
    ctx.require('R3', fi is not None, 'DimArray.values setter vanished')
    ctx.functions.add(fi.qualname)
    ev = run(ctx, fi)
    NV = P_(fi.params[1])
    for p in ev.paths:
        stores = [e for e in p.events if e.kind in ('store_attr', 'store_sub')]
        ok = (len(stores) == 2 and stores[0].kind == 'store_attr' and stores[0].a == SELF and stores[0].b == '_values'
              and stores[0].c[0] == 'call' and T.call_name(stores[0].c) == '_maybe_cast_type' and stores[0].c[2] == (('attr', SELF, '_values'), NV)
              and stores[1].kind == 'store_sub' and stores[1].a in (('attr', SELF, '_values'), ('attr', SELF, 'values')) and stores[1].c == NV
              and stores[1].b == ('slice', T.CONST_NONE, T.CONST_NONE, T.CONST_NONE))
        if not ok:
            ctx.violated('R3', fi, 'values setter', 'a.values = v must widen (_maybe_cast_type) and then overwrite in place (self._values[:] = v)',
                         node=p.node)
        else:
            ctx.holds('R3', 'values setter: widen then overwrite in place')
    # callers that promise promotion pass cast=True
    for q, what in (('dimarray.core.missingvalues.fillna', 'fillna'), ('dimarray.core.missingvalues.setna', 'setna'),
                    ('dimarray.core.align.reindex_axis', 'reindex_axis')):
        fi = ctx.fn(q)
        ev = run(ctx, fi, mode='join')
        puts = [e for p in ev.paths for e in p.calls('put')]
        if not puts:
            # no put() at all: the cells are written some other way (raw array assignment, another helper) - the widening is then not visible to this clause
            ctx.undecide('R3', '%s no longer writes through put(): the dtype promotion of the fill is done in a form the rule does not know' % what)
            continue
        bad = [e for e in puts if T.kw(e.a, 'cast') != T.CONST_TRUE]
        if bad:
            ctx.violated('R3', fi, bad[0].node, '%s promises dtype promotion (int -> float): put needs cast=True' % what, node=bad[0].node)
        else:
            ctx.holds('R3', what + ' passes cast=True')


def holds(R, k):
    return R == k or R == 'O' or (R == 'f' and k in 'iu') or (R == 'U' and k == 'S') or (R == 'c' and k in 'fiu')


def rule_widening(ctx):
    ctx.rule('R4', '_maybe_cast_type widening table (100 kind pairs)', 100)
    fi = ctx.fn('dimarray.core.indexing._maybe_cast_type')
    VALUES, NEWVAL = P_('values'), P_('newval')
    KV = ('attr', ('attr', VALUES, 'dtype'), 'kind')

    def is_kd(t):
        # np.asarray(newval).dtype.kind
        return t[0] == 'attr' and t[2] == 'kind' and t[1][0] == 'attr' and t[1][2] == 'dtype' and T.derives_from(t[1][1], NEWVAL) \
            and not T.derives_from(t[1][1], VALUES)

    def interpreted(a, b):
        """result kind of _maybe_cast_type for an array of kind a receiving a value of kind b, by interpreting the function (and whatever tables / helpers
        it uses) on abstract arrays that only know their dtype kind; None when the interpreter cannot decide (the symbolic path below is used then)"""
        from .. import absint
        from ..absint import Interp, Closure, AbsObj, Undecided, Raised, TypeTok
        mod = fi.module

        def kind_of(d):
            if isinstance(d, TypeTok):
                return {'float': 'f', 'object': 'O', 'str': 'U', 'complex': 'c', 'int': 'i', 'bool': 'b'}.get(d.name)
            if isinstance(d, str):
                return d if d in KINDS else {'float': 'f', 'object': 'O', 'float64': 'f'}.get(d)
            if isinstance(d, AbsObj) and 'kind' in d.attrs:
                return 'same-as-new' if d.name == 'newdtype' else d.attrs['kind']
            return None

        def mkarr(name, kind):
            dt = AbsObj(name + 'dtype' if name == 'new' else 'dtype_' + name, attrs={'kind': kind})
            o = AbsObj(name, attrs={'dtype': dt})
            o.methods = {'astype': lambda obj, args, kw: ('CAST', kind_of(args[0] if args else kw.get('dtype')))}
            return o
        values, newval = mkarr('values', a), mkarr('new', b)

        def asarray(args, kw):
            x = args[0]
            d = kw.get('dtype', args[1] if len(args) > 1 else None)
            if x is values:
                return values if d is None else ('CAST', kind_of(d))
            if x is newval and d is None:
                return newval
            raise Undecided('np.asarray(%r, dtype=%r)' % (x, d))
        ext = {'np.asarray': asarray, 'np.array': asarray, 'np.asanyarray': asarray}
        interp = Interp(ext, {})
        env = {}
        for name, f in mod.functions.items():
            env[name] = Closure(f.node, env, interp)
        interp.with_module(mod, env)
        try:
            out = interp.call_function(fi.node, [values, newval], env)
        except (Undecided, Raised):
            return None
        if out is values:
            return a
        if isinstance(out, tuple) and len(out) == 2 and out[0] == 'CAST':
            return out[1]
        return None

    n_interp = 0
    for a, b in itertools.product(KINDS, KINDS):
        R = interpreted(a, b)
        if R == 'same-as-new':
            if a != b:
                ctx.violated('R4', fi, 'array kind %s <- assigned kind %s' % (a, b),
                             'the array is converted to the dtype of the assigned value, whose width is unknown (float16/32, int8...): existing %s-kind cells may be '
                             'truncated; the widening must target a dtype that holds both (float / object)' % a)
                continue
            R = a
        if R is not None:
            n_interp += 1
            if (a, b) in (('i', 'f'), ('u', 'f'), ('f', 'i'), ('f', 'u')) and R != 'f':
                ctx.violated('R4', fi, 'array kind %s <- assigned kind %s' % (a, b), 'integer data receiving float values (NaN fill of reindex_axis / setna / fillna) must be promoted to float: '
                             'kind %s <- %s yields %s (an object array: np.isnan and every later reduction fail on it)' % (a, b, R))
            elif holds(R, a) and holds(R, b):
                ctx.holds('R4', '%s <- %s : %s' % (a, b, R))
            else:
                ctx.violated('R4', fi, 'array kind %s <- assigned kind %s' % (a, b),
                             'assigning %s-kind values into a %s-kind array with cast=True yields kind %s, which cannot hold %s without loss'
                             % (b, a, R, b if not holds(R, b) else a))
            continue

        def oracle(atom, st, a=a, b=b):
            if atom[0] == 'cmp' and atom[1] == '==':
                x, y = atom[2], atom[3]

                def val(t):
                    if t == KV:
                        return a
                    if is_kd(t):
                        return b
                    if t[0] == 'const':
                        return t[1]
                    return None
                vx, vy = val(x), val(y)
                if vx is not None and vy is not None:
                    return vx == vy
            if atom[0] == 'cmp' and atom[1] == 'in' and atom[3][0] in ('tuple', 'list', 'set'):
                v = a if atom[2] == KV else b if is_kd(atom[2]) else None
                if v is not None and all(x[0] == 'const' for x in atom[3][1]):
                    return any(x[1] == v for x in atom[3][1])
            # any other test over the two kinds (pairs of kinds in a table of pairs, negations, ...): concrete evaluation
            from ..rules import val_eval, UNKNOWN
            env = {KV: a}
            for x in T.subterms(atom):
                if is_kd(x):
                    env[x] = b
            if len(env) > 1 or T.contains(atom, KV):
                r = val_eval(atom, env)
                if r is not UNKNOWN:
                    return bool(r)
            return None
        ev = run(ctx, fi, oracle=oracle)
        if len(ev.paths) != 1 or ev.paths[0].kind != 'return' or ev.paths[0].guards:
            ctx.undecide('R4', '_maybe_cast_type: kind pair (%s, %s) is not decided by the dtype kinds alone (%d paths)' % (a, b, len(ev.paths)))
            continue
        v = ev.paths[0].value
        if v == VALUES:
            R = a
        elif v[0] == 'call' and T.dotted(v[1]) in ('np.asarray', 'np.array') and v[2][:1] == (VALUES,):
            d = T.kw(v, 'dtype') or (v[2][1] if len(v[2]) > 1 else None)
            R = {('name', 'float'): 'f', ('name', 'object'): 'O', ('const', 'U'): 'U', ('name', 'str'): 'U', ('name', 'complex'): 'c',
                 ('name', 'int'): 'i', ('const', 'O'): 'O', ('const', 'f'): 'f'}.get(d)
            if R is None and d is not None and d[0] == 'attr' and d[2] == 'dtype' and T.derives_from(d[1], NEWVAL):
                # the dtype of the assigned value itself: same kind as b but of unknown (possibly narrower) width,
                # e.g. float16/float32: it can hold the assigned values, not necessarily the array's own
                if a != b:
                    ctx.violated('R4', fi, 'array kind %s <- assigned kind %s' % (a, b),
                                 'the array is converted to the dtype of the assigned value (%s), whose width is unknown (float16/32, int8...): '
                                 'existing %s-kind cells may be truncated; the widening must target a dtype that holds both (float / object)'
                                 % (T.show(d), a), node=ev.paths[0].node)
                    continue
                R = a
            if R is None:
                ctx.undecide('R4', 'unknown target dtype %s' % T.show(d))
                continue
        elif v[0] == 'call' and T.call_name(v) == 'astype' and T.call_receiver(v) == VALUES:
            d = v[2][0] if v[2] else None
            R = {('name', 'float'): 'f', ('name', 'object'): 'O', ('const', 'U'): 'U'}.get(d)
            if R is None:
                ctx.undecide('R4', 'unknown target dtype %s' % T.show(d))
                continue
        else:
            ctx.undecide('R4', 'unrecognised result %s' % T.show(v))
            continue
        if (a, b) in (('i', 'f'), ('u', 'f'), ('f', 'i'), ('f', 'u')) and R != 'f':
            ctx.violated('R4', fi, 'array kind %s <- assigned kind %s' % (a, b), 'integer data receiving float values (NaN fill of reindex_axis / setna / fillna) must be promoted to float: '
                         'kind %s <- %s yields %s (an object array: np.isnan and every later reduction fail on it)' % (a, b, R), node=ev.paths[0].node)
        elif holds(R, a) and holds(R, b):
            ctx.holds('R4', '%s <- %s : %s' % (a, b, R))
        else:
            ctx.violated('R4', fi, 'array kind %s <- assigned kind %s' % (a, b),
                         'assigning %s-kind values into a %s-kind array with cast=True yields kind %s, which cannot hold %s without loss'
                         % (b, a, R, b if not holds(R, b) else a), node=ev.paths[0].node)
    ctx.exhaustive = True


def check(ctx):
    rule_setitem(ctx)
    rule_writers(ctx)
    rule_widening(ctx)
    # put(values, indices, axis=k): the (index, axis) form and the orthogonal conversion shared with reads (C01)
    from . import c01
    c01.rule_axis_argument(ctx, rid='R6')
    c01.rule_orthogonal_indexer(ctx, rid='R7')
    from . import c09
    c09.rule_values_setter(ctx, rid='R8')
    # the index handed to _setitem is resolved by _get_indices: its per-dimension bookkeeping (shared with C01) - a write through a mis-resolved
    # index changes other cells than the ones the same index reads
    from . import c01 as _c01b
    from ..report import Renamed as _RenB
    ctx.rule('R9', '_get_indices per-dimension bookkeeping (shared with C01)', 4)
    _c01b.rule_bookkeeping(_RenB(ctx, {'*': 'R9'}))
    ctx.not_decided += ['which cells NumPy writes for a given fancy index', 'broadcasting of the right-hand side',
                        'read-back equality (value level)']
    ctx.trusted += ['numpy.asarray(x, dtype=) converts without changing shape', 'CPython ast module']
    return EXPLANATION
