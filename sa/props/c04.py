"""C04 - arithmetic aligns operands by dimension name and by label (structural clauses).

  R1 operator table    + - * / // ** forward -> matching ufunc through _binary_op; reflected, non-commutative ones
                       through _rbinary_op, which calls operation(func, other, self) (operand order preserved)
  R2 pipeline order    both-DimArray path with default options: align (outer) -> align_dims -> func(values, values)
  R3 result axes       taken from the aligned first operand, singleton placeholders replaced from the second operand by name
  R4 scalar / ndarray  func(o1.values, np.array(o2)) with o1.axes, mirrored with operand order preserved
  R5 defaults          align join defaults to 'outer'; op.reindex / op.broadcast default True; get_dims is the ordered union
  R6 environment       every NumPy name reachable from operation() exists in the pinned NumPy
"""
import ast

from .. import terms as T
from ..terms import const
from ..rules import P_, run, ret_paths, raise_paths, bind_call_args, default_of, resolve_under
from ..loader import AnalysisError
from .. import npapi

EXPLANATION = (
    "Structural clauses of C04: the operator table of OpMixin (12 special methods) resolved to ufuncs and operand order by value "
    "numbering; the both-DimArray path of operation() under the default options evaluated path-sensitively (align -> align_dims -> "
    "func on the aligned values, result axes copied from the aligned operands with singleton placeholders replaced by name); scalar and "
    "ndarray short-cuts; option defaults read from config.py; NumPy names reachable from operation() resolved against the pinned stubs. "
    "The per-coordinate numerical result and NaN placement are not decided here (see C06/C07 clauses).")

SELF, OTHER = P_('self'), P_('other')
OPM = 'dimarray.core.bases.OpMixin.'
AL = 'dimarray.core.align.'
UFUNC = {'add': 'np.add', 'sub': 'np.subtract', 'mul': 'np.multiply', 'truediv': 'np.true_divide',
         'floordiv': 'np.floor_divide', 'pow': 'np.power'}


def rule_operator_table(ctx):
    ctx.rule('R1', 'operator table (6 operators x 2 orders) and DimArray._binary_op/_rbinary_op', 14)
    P = ctx.P
    opm = P.cls('dimarray.core.bases.OpMixin')
    for op, uf in UFUNC.items():
        # forward
        name = '__%s__' % op
        m = opm.members.get(name)
        if m is None or m.kind != 'func':
            ctx.violated('R1', opm.qualname, 'missing ' + name, 'a %s b needs OpMixin.%s' % (op, name))
        else:
            ev = run(ctx, m.value)
            for p in ev.paths:
                v = p.value
                ok = p.kind == 'return' and v[0] == 'call' and v[1] == ('attr', SELF, '_binary_op') and len(v[2]) == 2 \
                    and T.dotted(v[2][0]) == uf and v[2][1] == OTHER
                if not ok:
                    ctx.violated('R1', m.value, 'return ' + T.show(v), '%s must compute self._binary_op(%s, other)' % (name, uf), node=p.node)
                else:
                    ctx.holds('R1', '%s -> %s' % (name, uf))
        # reflected
        rname = '__r%s__' % op
        m = P.lookup(opm, rname)
        if m is None or m.kind != 'func':
            ctx.violated('R1', opm.qualname, 'missing ' + rname, 'scalar %s array (reflected operand order) raises TypeError: OpMixin has no %s'
                         % ({'add': '+', 'sub': '-', 'mul': '*', 'truediv': '/', 'floordiv': '//', 'pow': '**'}[op], rname))
            continue
        ev = run(ctx, m.value)
        for p in ev.paths:
            v = p.value
            commutative = op in ('add', 'mul')
            ok_r = p.kind == 'return' and v[0] == 'call' and v[1] == ('attr', SELF, '_rbinary_op') and len(v[2]) == 2 \
                and T.dotted(v[2][0]) == uf and v[2][1] == OTHER
            ok_c = commutative and p.kind == 'return' and ((v[0] == 'binop' and v[1] == {'add': '+', 'mul': '*'}[op] and {v[2], v[3]} == {SELF, OTHER})
                                                           or (v[0] == 'call' and v[1] == ('attr', SELF, '_binary_op') and T.dotted(v[2][0]) == uf and v[2][1] == OTHER))
            if not (ok_r or ok_c):
                ctx.violated('R1', m.value, 'return ' + T.show(v), '%s must compute other <op> self: self._rbinary_op(%s, other)' % (rname, uf),
                             node=p.node)
            else:
                ctx.holds('R1', '%s -> %s (reflected)' % (rname, uf))
    # DimArray._binary_op / _rbinary_op
    opfn = ctx.fn('dimarray.core.operation.operation')
    for name, order in (('_binary_op', (SELF, OTHER)), ('_rbinary_op', (OTHER, SELF))):
        fi = ctx.method('dimarray.core.dimarraycls.DimArray', name)
        ev = run(ctx, fi)
        for p in ev.paths:
            v = p.value
            good = False
            if p.kind == 'return' and v[0] == 'call' and T.call_name(v) == 'operation':
                b = bind_call_args(v, opfn)
                good = (b.get('func') == P_('func') and (b.get('o1'), b.get('o2')) == order
                        and b.get('reindex') == ('call', ('name', 'get_option'), (const('op.reindex'),), ())
                        and b.get('broadcast') == ('call', ('name', 'get_option'), (const('op.broadcast'),), ()))
            if not good:
                ctx.violated('R1', fi, 'return ' + T.show(v), 'DimArray.%s must call operation(func, %s, %s) with the op.reindex / op.broadcast options'
                             % (name, T.show(order[0]), T.show(order[1])), node=p.node)
            else:
                ctx.holds('R1', 'DimArray.%s: operation(func, %s, %s)' % (name, T.show(order[0]), T.show(order[1])))
    # default OpMixin._rbinary_op
    fi = ctx.fn(OPM + '_rbinary_op')
    ev = run(ctx, fi)
    for p in ev.paths:
        v = p.value
        if not (p.kind == 'return' and v == ('call', ('attr', OTHER, '_binary_op'), (P_('func'), SELF), ())):
            ctx.violated('R1', fi, 'return ' + T.show(v), 'default reflected operation must be other._binary_op(func, self)', node=p.node)
        else:
            ctx.holds('R1', 'OpMixin._rbinary_op default')


def dimarray_oracle(o1_is, o2_is):
    O1, O2 = P_('o1'), P_('o2')

    def oracle(atom, st):
        if atom[0] == 'call' and T.call_name(atom) == 'is_DimArray' and len(atom[2]) == 1:
            if atom[2][0] == O1:
                return o1_is
            if atom[2][0] == O2:
                return o2_is
        if atom[0] == 'call' and T.dotted(atom[1]) == 'isinstance' and atom[2][0] in (O1, O2) and 'DimArray' in T.show(atom[2][1]):
            return o1_is if atom[2][0] == O1 else o2_is
        if atom[0] == 'call' and T.dotted(atom[1]) == 'hasattr' and atom[2][1] == const('grid_mapping'):
            return False
        if atom[0] == 'cmp' and atom[1] == '<' and 'ndim' in T.show(atom):
            return False
        if atom == T.mkcmp('is', P_('constructor'), T.CONST_NONE):
            return False
        return None
    return oracle


def rule_pipeline(ctx):
    ctx.rule('R2', 'align -> align_dims -> func on aligned values', 1)
    ctx.rule('R3', 'result axes by name, copied', 2)
    ctx.rule('R4', 'scalar / ndarray short-cuts', 2)
    fi = ctx.fn('dimarray.core.operation.operation')
    O1, O2, FUNC, CONS = P_('o1'), P_('o2'), P_('func'), P_('constructor')
    # ---- both DimArrays, default options
    ev = run(ctx, fi, bind={'reindex': T.CONST_TRUE, 'broadcast': T.CONST_TRUE}, oracle=dimarray_oracle(True, True))
    rets = ret_paths(ev)
    ctx.require('R2', len(rets) >= 1, 'operation(): no returning path for two DimArrays')
    for p in rets:
        v = p.value
        if not (v[0] == 'call' and v[1] == CONS and len(v[2]) == 2):
            ctx.violated('R2', fi, 'return ' + T.show(v)[:150], 'result must be constructor(values, axes) without metadata', node=p.node)
            continue
        res, newaxes = v[2]
        if v[3]:
            ctx.violated('R3', fi, 'return ' + T.show(v)[:150], 'arithmetic must not pass metadata to the result', node=p.node)
        al = [e.a for e in p.calls('align_axes')] + [e.a for e in p.calls('align')]
        ad = [e.a for e in p.calls('align_dims')]
        if len(al) != 1:
            ctx.violated('R2', fi, 'align step', 'with op.reindex=True the operands must be aligned (align) exactly once; found %d call(s)' % len(al), node=p.node)
            continue
        if len(ad) != 1:
            ctx.violated('R2', fi, 'align_dims step', 'with op.broadcast=True the operands must go through align_dims exactly once; found %d' % len(ad), node=p.node)
            continue
        al, ad = al[0], ad[0]
        arg0 = al[2][0] if al[2] else None
        if arg0 not in (('tuple', (O1, O2)), ('list', (O1, O2))) or T.kw(al, 'join', const('outer')) != const('outer') or T.kw(al, 'axis') not in (None, T.CONST_NONE):
            ctx.violated('R2', fi, T.show(al), 'align must receive both operands, in order, with the default outer join over all dimensions', node=p.node)
            continue
        if ad[2] != (('item', al, 0), ('item', al, 1)):
            ctx.violated('R2', fi, T.show(ad)[:150], 'align_dims must receive the two *aligned* operands in order', node=p.node)
            continue
        A, B = ('item', ad, 0), ('item', ad, 1)
        want = ('call', FUNC, (('attr', A, 'values'), ('attr', B, 'values')), ())
        if res != want:
            ctx.violated('R2', fi, 'res = ' + T.show(res)[:150], 'the function must be applied to the values of the aligned, dimension-matched operands '
                         '(in operand order)', node=p.node)
            continue
        ctx.holds('R2', 'operation(): align -> align_dims -> func(o1.values, o2.values)')
        # R3: axes
        from ..rules import alternatives

        class _VE(object):           # an append event with one resolution of the conditional expressions of its argument
            def __init__(self, e, arg, extra):
                self.a = ('call', e.a[1], (arg,) + tuple(e.a[2][1:]), e.a[3])
                self.guards = tuple(e.guards) + tuple(extra)
                self.node = e.node
                self.loops = e.loops
        appends = [_VE(e, arg, extra) for e in p.calls('append') if e.loops and e.a[2] for arg, extra in alternatives(e.a[2][0])]
        ok = bool(appends)
        unguarded = {}
        for e in appends:
            a = e.a[2][0]
            # (whether the axis is copied or shared with the operand is not C04's business: the labels are the same either way)
            src = T.call_receiver(a) if (a[0] == 'call' and T.call_name(a) in ('copy', 'deepcopy') and not a[2]) else \
                a[2][0] if (a[0] == 'call' and T.dotted(a[1]) in ('copy.copy', 'copy.deepcopy') and a[2]) else a
            ax = None
            for x in T.subterms(src):
                if x[0] == 'elem' and x[1] == ('attr', A, 'axes'):
                    ax = x
            placeholder = [pol for g, pol in e.guards if 'None' in T.show(g) and 'values' in T.show(g)]
            # "for all pairs of DimArrays" includes operands with an empty axis: the first label is only read where the axis is known non-empty
            from .c06 import _nonempty_fact
            nonempty = []
            for g, pol in e.guards:
                x = _nonempty_fact(g, pol)
                if x is not None:
                    nonempty.append(x)
                for t in T.subterms(g):
                    if t[0] == 'sub' and t[2] == const(0) and t[1][0] == 'attr' and t[1][2] == 'values' and t[1][1][0] == 'elem':
                        if t[1][1] not in nonempty and t[1] not in nonempty and e.node.lineno not in unguarded:
                            unguarded[e.node.lineno] = T.show(t)
            if src[0] == 'elem' and placeholder == [] and any(_nonempty_fact(g, not pol) is not None for g, pol in e.guards):
                placeholder = [False]      # an empty axis cannot be the size-1 placeholder
            if src[0] == 'elem':
                if src[1] != ('attr', A, 'axes'):
                    ctx.violated('R3', fi, e.node, 'result axes must be taken from the aligned first operand', node=e.node)
                    ok = False
                elif placeholder != [False]:
                    ctx.violated('R3', fi, e.node, 'an axis of the first operand may only be used when it is not a singleton placeholder', node=e.node)
                    ok = False
            else:
                good = src[0] == 'sub' and src[1] == ('attr', B, 'axes') and ax is not None and src[2] == ('attr', ax, 'name')
                if not good:
                    ctx.violated('R3', fi, e.node, 'a singleton placeholder must be replaced by the second operand\'s axis of the same *name* '
                                 '(o2.axes[ax.name]), found %s' % T.show(src)[:120], node=e.node)
                    ok = False
                elif placeholder != [True]:
                    ctx.violated('R3', fi, e.node, 'the second operand\'s axis is only used for singleton placeholders', node=e.node)
                    ok = False
        for ln in sorted(unguarded):
            ctx.violated('R3', fi, 'label read %s' % unguarded[ln][:80], 'the first label of an operand axis is read (%s) on a path that has not established that the '
                         'axis is non-empty: arithmetic on arrays with an empty axis raises IndexError instead of returning the (empty) result' % unguarded[ln][:80], node=p.node)
            ok = False
            break
        if not appends:
            # the other way to the same axes: copies of the common axes chosen by _get_axes(o1', o2') - whose choice table (placeholder gives way to any real
            # axis; decided as C10-R3, re-run below) makes it pick o2's axis exactly for the placeholders of o1
            na = newaxes
            if na[0] == 'call' and T.dotted(na[1]) == 'Axes' and len(na[2]) == 1:
                na = na[2][0]
            via = na[0] == 'comp' and len(na[3]) == 1 and na[3][0][1] == ('call', ('name', '_get_axes'), (A, B), ()) \
                and na[2] in (('call', ('attr', ('elem', na[3][0][1], na[3][0][0]), 'copy'), (), ()), ('elem', na[3][0][1], na[3][0][0]))
            if via:
                from . import c10 as _c10
                from ..report import Renamed as _Ren
                _c10.rule_common_axis_choice(_Ren(ctx, {'*': 'R3'}), ctx.fn('dimarray.core.align._get_axes'))
                ctx.holds('R3', 'result axes: copies of _get_axes(o1, o2) (common-axis choice table)')
                ctx.holds('R3', 'result built without metadata')
            else:
                # any other way of building them: which axis each dimension of the result carries is read off the interpreted scenarios of operation() (placeholder
                # dimension of the left operand against a full / a single-label axis, a real single label, an empty dimension, operands of different dimensions)
                from ..scenario_rule import rule_scenarios
                rule_scenarios(ctx, 'R3', only='dimarray.core.operation.operation', title='result axes by name (interpreted scenarios of operation())')
            continue
        if len(appends) < 2:
            ctx.violated('R3', fi, 'newaxes loop', 'expected the two alternatives (own axis / replaced placeholder) in the result-axes loop', node=p.node)
            ok = False
        if ok:
            ctx.holds('R3', 'result axes: own axis copy or o2.axes[name] copy for placeholders')
            ctx.holds('R3', 'result built without metadata')
    # ---- options off: steps skipped but values still paired in order
    ev = run(ctx, fi, bind={'reindex': T.CONST_FALSE, 'broadcast': T.CONST_FALSE}, oracle=dimarray_oracle(True, True))
    for p in ret_paths(ev):
        if list(p.calls('align_axes')) or list(p.calls('align_dims')):
            ctx.violated('R2', fi, 'options off', 'reindex=False / broadcast=False must skip the alignment steps', node=p.node)
    # ---- short-cuts
    for o1_is, o2_is, arr, other, order in ((True, False, O1, O2, 0), (False, True, O2, O1, 1)):
        orc = dimarray_oracle(o1_is, o2_is)
        ev = run(ctx, fi, oracle=orc)
        for p in ret_paths(ev):
            v = resolve_under(p.value, orc, p.guards)
            conv = ('call', ('attr', ('name', 'np'), 'array'), (other,), ())
            conv2 = ('call', ('attr', ('name', 'np'), 'asarray'), (other,), ())
            args_ok = False
            if v[0] == 'call' and v[1] == CONS and len(v[2]) == 2 and v[2][0][0] == 'call' and v[2][0][1] == FUNC:
                fa = v[2][0][2]
                vals = ('attr', arr, 'values')
                args_ok = fa in (((vals, conv), (vals, conv2), (vals, other)) if order == 0 else ((conv, vals), (conv2, vals), (other, vals)))
            if not args_ok or v[2][1] != ('attr', arr, 'axes') or v[3]:
                ctx.violated('R4', fi, 'return ' + T.show(v)[:160], 'with a %s operand the result must be func(%s) on the DimArray\'s own axes'
                             % ('scalar/ndarray right' if order == 0 else 'scalar left', 'o1.values, o2' if order == 0 else 'o1, o2.values'), node=p.node)
            else:
                ctx.holds('R4', 'short-cut: %s' % ('array op scalar' if order == 0 else 'scalar op array'))


def rule_defaults(ctx):
    ctx.rule('R5', 'defaults: outer join, op.reindex/op.broadcast True, ordered union of dims', 4)
    fi = ctx.fn('dimarray.core.align.align')
    d = default_of(fi, 'join')
    if d != const('outer'):
        ctx.violated('R5', fi, 'def align(join=%s)' % (T.show(d) if d else '?'), "align must default to join='outer'")
    else:
        ctx.holds('R5', "align join default 'outer'")
    cfg = ctx.P.modules.get('dimarray.config')
    ctx.require('R5', cfg is not None, 'dimarray.config vanished')
    vals = {}
    for st in cfg.tree.body:
        if isinstance(st, ast.Assign) and len(st.targets) == 1 and isinstance(st.targets[0], ast.Subscript) \
                and isinstance(st.targets[0].value, ast.Name) and st.targets[0].value.id == 'rcParams':
            try:
                vals[ast.literal_eval(st.targets[0].slice)] = ast.literal_eval(st.value)
            except Exception:
                pass
    for k in ('op.reindex', 'op.broadcast'):
        if vals.get(k) is not True:
            ctx.violated('R5', 'dimarray.config', "rcParams['%s'] = %r" % (k, vals.get(k)), 'default option %s must be True' % k)
        else:
            ctx.holds('R5', 'rcParams[%s] = True' % k)
    if vals.get('align.join') != 'outer':
        ctx.violated('R5', 'dimarray.config', "rcParams['align.join'] = %r" % vals.get('align.join'), "default align.join must be 'outer'")
    # get_dims: ordered union
    # get_dims: the structural reading (two spellings) on trial, the scenario table of the function decides when neither is recognised
    from ..report import on_trial
    on_trial(ctx, _get_dims_structural, ['dimarray.core.align.get_dims'], ('R5',), 'get_dims')


def _get_dims_structural(ctx):
    fi = ctx.fn('dimarray.core.align.get_dims')
    ev = run(ctx, fi)
    ARR = P_('*arrays')
    good = False
    for p in ret_paths(ev):
        for e in p.calls('append'):
            a = e.a[2][0]
            # dims.append(ax.name) guarded by ax.name not in dims, ax iterating o.axes, o iterating arrays (in order)
            if a[0] == 'attr' and a[2] == 'name' and a[1][0] == 'elem' and a[1][1][0] == 'attr' and a[1][1][2] == 'axes' \
                    and a[1][1][1][0] == 'elem' and a[1][1][1][1] == ARR:
                g = [pol for x, pol in e.guards if x[0] == 'cmp' and x[1] == 'in' and x[2] == a]
                if g == [False]:
                    good = True
    seen_append = any(True for p in ret_paths(ev) for e in p.calls('append'))
    # other spelling: list(dict.fromkeys(<ax.name for o in arrays for ax in o.axes>)) - insertion-ordered, each key once
    for p in ret_paths(ev):
        v = p.value
        if v[0] == 'call' and T.dotted(v[1]) in ('list', 'tuple') and len(v[2]) == 1:
            v = v[2][0]
        if v[0] == 'call' and T.dotted(v[1]) in ('dict.fromkeys', 'OrderedDict.fromkeys', 'collections.OrderedDict.fromkeys') and len(v[2]) == 1:
            g = v[2][0]
            if g[0] == 'comp' and len(g[3]) == 2 and g[3][0][1] == ARR and not g[3][0][2] and not g[3][1][2]:
                o = ('elem', ARR, g[3][0][0])
                if g[3][1][1] == ('attr', o, 'axes') and g[2] == ('attr', ('elem', ('attr', o, 'axes'), g[3][1][0]), 'name'):
                    good = True
    if good:
        ctx.holds('R5', 'get_dims: ordered union (first operand first, each name once)')
    elif seen_append:
        ctx.violated('R5', fi, 'get_dims', 'get_dims must collect dimension names in operand order, each once')
    else:
        ctx.undecide('R5', 'get_dims: neither the append loop guarded by `name not in dims` nor list(dict.fromkeys(names in operand order)) was recognised')


def rule_numpy_scalar_left(ctx):
    """R13: "With a scalar operand (in either operand order) ... the result equals the NumPy result on .values with the DimArray's axes unchanged".
    A NumPy scalar on the left (np.float64(2) * a, a.mean() - a: reductions return NumPy scalars) is handled by the scalar's own operator unless the right
    operand asks NumPy to defer: a class attribute __array_priority__ above ndarray's (0.0), or __array_ufunc__ = None (NumPy's documented deferral
    protocol, trusted). Without it the reflected operators of OpMixin are never called and the result is a bare ndarray without axes."""
    ctx.rule('R13', 'NumPy scalars on the left defer to the reflected operators (__array_priority__ / __array_ufunc__)', 1)
    P = ctx.P
    cls = P.cls('dimarray.core.dimarraycls.DimArray')
    pr = P.lookup(cls, '__array_priority__')
    uf = P.lookup(cls, '__array_ufunc__')
    val = None
    if pr is not None and pr.kind == 'const':
        try:
            val = ast.literal_eval(pr.value)
        except Exception:
            val = None
    ok = (isinstance(val, (int, float)) and not isinstance(val, bool) and val > 0) or \
        (uf is not None and uf.kind == 'const' and isinstance(uf.value, ast.Constant) and uf.value.value is None)
    if ok:
        ctx.holds('R13', 'DimArray declares %s' % ('__array_priority__ = %r' % val if val is not None else '__array_ufunc__ = None'))
    else:
        ctx.violated('R13', 'dimarray.core.dimarraycls.DimArray', 'no __array_priority__ / __array_ufunc__ on DimArray or its bases',
                     'a NumPy scalar as left operand (np.float64(2) * a, a.mean() - a) never reaches DimArray.__rmul__ / __rsub__ ...: NumPy only defers to an operand '
                     'whose __array_priority__ exceeds its own (or that sets __array_ufunc__ = None); the result is a bare ndarray, the axes are lost')


def rule_env(ctx):
    ctx.rule('R6', 'NumPy names reachable from operation() resolve', 1)
    entries = [ctx.fn('dimarray.core.operation.operation'), ctx.fn('dimarray.core.align.align'),
               ctx.fn('dimarray.core.align.align_dims'), ctx.fn('dimarray.core.axes.Axis.union')]
    npapi.check_reachable(ctx, 'R6', entries, depth=4)


def rule_align_dims(ctx):
    """R10: the transposition / singleton-insertion step ahead of the element-wise function"""
    ctx.rule('R10', 'align_dims: inputs are returned untouched only when their ordered dims are identical; otherwise each is reshaped onto the common dims', 2)
    fi = ctx.fn(AL + 'align_dims')
    ARR = P_('*arrays')
    ev = run(ctx, fi)
    shortcut = [p for p in ret_paths(ev) if p.value == ARR]
    others = [p for p in ret_paths(ev) if p.value != ARR]
    for p in shortcut:
        ok = None
        for a, pol in p.guards:
            # len({o.dims for o in arrays}) == 1
            if a[0] == 'cmp' and a[1] == '==' and a[3] == const(1) and a[2][0] == 'call' and T.call_name(a[2]) == 'len' and pol is True:
                inner = a[2][2][0]
                if inner[0] == 'call' and T.dotted(inner[1]) in ('set', 'frozenset') and len(inner[2]) == 1 and inner[2][0][0] == 'comp':
                    inner = ('comp', 'set') + tuple(inner[2][0][2:])         # set(<generator / list>) == {... for ...}
                if inner[0] == 'comp' and inner[1] == 'set':
                    elt = inner[2]
                    ok = bool(elt[0] == 'attr' and elt[2] == 'dims' and elt[1][0] == 'elem' and elt[1][1] == ARR)
                    if not ok and any(x[0] == 'call' and T.call_name(x) in ('set', 'frozenset', 'sorted') for x in T.subterms(elt)):
                        ok = False
        if ok is True:
            ctx.holds('R10', 'short-cut only when all ordered dims tuples coincide')
        elif ok is False:
            ctx.violated('R10', fi, 'align_dims short-cut', 'the "dimensions already equal" short-cut compares the dimensions as unordered sets: operands with the same '
                         'dimensions in a different order are no longer transposed and are combined by position', node=fi.node)
        else:
            ctx.undecide('R10', 'align_dims returns its inputs unchanged under a guard that is not recognised: %s' % '; '.join('%s=%s' % (T.show(a)[:80], pol) for a, pol in p.guards))
    good = 0
    for p in others:
        calls = [c for c in T.subterms(p.value) if c[0] == 'call' and T.call_name(c) == 'reshape']
        if len(calls) == 1 and calls[0][1][0] == 'attr' and calls[0][1][1] == ('elem', ARR, calls[0][1][1][2] if calls[0][1][1][0] == 'elem' else None) \
                and calls[0][2] and calls[0][2][0][0] == 'call' and T.call_name(calls[0][2][0]) == 'get_dims' and T.contains(calls[0][2][0], ARR):
            good += 1
            ctx.holds('R10', 'every array reshaped onto get_dims(*arrays)')
        else:
            ctx.violated('R10', fi, 'align_dims reshape step', 'outside the short-cut every input must be returned as o.reshape(get_dims(*arrays)); got %s' % T.show(p.value)[:120], node=fi.node)
    if not others:
        ctx.violated('R10', fi, 'align_dims reshape step', 'align_dims never reshapes its inputs', node=fi.node)


def check(ctx):
    rule_operator_table(ctx)
    rule_pipeline(ctx)
    rule_defaults(ctx)
    rule_align_dims(ctx)
    # the labels of newly inserted positions are written through Axis.__setitem__ (shared with C05)
    from . import c05 as _c05
    ctx.rule('R11', 'Axis.__setitem__ keeps the widened label buffer it writes into', 1)
    _c05.rule_axis_setitem(ctx, 'R11')
    rule_env(ctx)
    rule_numpy_scalar_left(ctx)
    # the alignment step that operation() delegates to: reindex loop of align()
    from . import c06
    c06.rule_align(ctx, rid='R7')
    c06.rule_merge_cast(ctx, r8='R8', r9='R9')
    # the fold that builds each common axis (placeholder axes of broadcast dimensions are the only operands it may skip), and the permutation step
    from ..report import Renamed
    ctx.rule('R12', 'common-axis fold (shared with C06) and transpose (shared with C10)', 3)
    c06.rule_fold(Renamed(ctx, {'*': 'R12'}))
    from . import c10
    c10.rule_transpose(Renamed(ctx, {'*': 'R12'}))
    ctx.not_decided += ['per-coordinate numerical result', 'NaN placement for labels missing in one operand (C06/C07 clauses)']
    ctx.trusted += ['NumPy ufunc semantics', 'NumPy stub files list the public names of the pinned NumPy']
    return EXPLANATION
