"""C14 - Dataset-wide operations equal the per-variable operations (structural clauses).

  R1 delegation registry   mean/std/var/median/sum pass their own name; take_axis / sort_axis / interp_axis go through reduce_axis with the
                           primitive the DimArray twin uses; arithmetic delegates to the variable's _binary_op / _unary_op with the caller's
                           operand unchanged; stack_ds / concatenate_ds call stack / concatenate per variable with the same axis / keys
  R2 has-dimension guard   every per-variable loop that operates along a dimension skips variables lacking it, and resolves the position of
                           the dimension on the *variable* (not on the dataset)
  R3 index kinds           indices resolved on the dataset axes are passed to the variables with indexing='position'; reindex_axis passes
                           labels with indexing='label'
  R4 result construction   results are inserted through Dataset.__setitem__; the transformed axis of reduce_axis(keepdims) is the requested one
  R5 metadata              take, take_axis, sort_axis, reindex_axis, interp_axis carry the dataset attrs
  R6 twin agreement        Dataset.reindex_axis: locate/take -> mask -> relabel -> fill(cast=True), same option handling as DimArray's
"""
from .. import terms as T
from ..terms import const
from ..rules import P_, run, ret_paths, raise_paths, exc_name, bind_call_args, default_of, elem_of_comp, cond_paths
from ..loader import AnalysisError

EXPLANATION = (
    "Structural clauses of C14: registry / sibling checks of the one-line delegations, deviance rule over the per-variable loops (has-dimension guard, "
    "per-variable axis position), index-kind typing of positions vs labels handed to the variables, metadata provenance of the five operations that "
    "must carry dataset attrs, the requested-axis rule of reduce_axis and the twin comparison of Dataset.reindex_axis with DimArray.reindex_axis. "
    "Value equality with the per-variable results is not decided.")

SELF = P_('self')
DS = 'dimarray.dataset.Dataset.'


def rule_delegation(ctx):
    ctx.rule('R1', 'delegation registry', 9)
    for name in ('mean', 'std', 'var', 'median', 'sum'):
        fi = ctx.fn(DS + name)
        ev = run(ctx, fi)
        for p in ev.paths:
            v = p.value
            ok = p.kind == 'return' and v[0] == 'call' and v[1] == ('attr', SELF, '_apply_dimarray_axis') and v[2] == (const(name),) \
                and T.kw(v, 'axis') == P_('axis') and dict(v[3]).get('**') == P_('**kwargs')
            if not ok:
                ctx.violated('R1', fi, 'return ' + T.show(v)[:120], 'Dataset.%s must be _apply_dimarray_axis(%r, axis=axis, **kwargs)' % (name, name), node=p.node)
            else:
                ctx.holds('R1', 'Dataset.%s -> per-variable %s' % (name, name))
    # _apply_dimarray_axis: the structural reading (an accumulating loop over the keys) on trial; the function's scenario table decides when the loop is written otherwise
    from ..report import on_trial
    ctx.rule('R2', 'per-variable application skips the variables lacking the dimension', 1)
    on_trial(ctx, _apply_axis_structural, [DS + '_apply_dimarray_axis'], ('R2',), '_apply_dimarray_axis')
    _rule_delegation_rest(ctx)


def _apply_axis_structural(ctx):
    fi = ctx.fn(DS + '_apply_dimarray_axis')
    ev = run(ctx, fi, mode='fork', facts={T.mkcmp('is', ('call', ('attr', P_('**kwargs'), 'pop'), (const('axis'), T.CONST_NONE), ()), T.CONST_NONE): False})
    ok = False
    for p in ev.paths:
        for e in p.events:
            if e.kind == 'store_sub' and e.loops and e.c[0] == 'call' and e.c[1][0] == 'call' and T.dotted(e.c[1][1]) == 'getattr':
                g = e.c[1]
                if g[2] == (('sub', SELF, e.b), P_('funcname')) and e.c[2] == (('star', P_('*args')),):
                    has = [pol for a, pol in e.guards if a[0] == 'cmp' and a[1] == 'in' and a[3] == ('attr', ('sub', SELF, e.b), 'dims')]
                    isnone = [pol for a, pol in e.guards if a[0] == 'cmp' and a[1] == 'is' and a[3] == T.CONST_NONE and 'axis' in T.show(a[2])]
                    if has and has[-1] is True:
                        ok = True
                    elif isnone and isnone[-1] is True:
                        pass      # axis=None: whole-array reduction of every variable
                    else:
                        ctx.violated('R2', fi, e.node, 'the reduction along a dimension is applied to a variable without testing that the variable has it', node=e.node)
    if ok:
        ctx.holds('R1', '_apply_dimarray_axis: getattr(self[k], funcname)(*args, **kwargs) for variables having the axis')
        ctx.holds('R2', '_apply_dimarray_axis skips variables lacking the dimension')
    else:
        ctx.violated('R2', fi, '_apply_dimarray_axis', 'the named reduction must be applied to every variable that has the dimension, and only to those')


def _rule_delegation_rest(ctx):
    # take_axis / sort_axis
    ra = ctx.fn(DS + 'reduce_axis')
    fi = ctx.fn(DS + 'take_axis')
    ev = run(ctx, fi, bind={'indexing': const('position')}, oracle=lambda a, st: (True if (a[0] == 'call' and T.dotted(a[1]) == 'np.iterable') else None))
    for p in ret_paths(ev):
        v = p.value
        good = False
        if v[0] == 'call' and v[1] == ('attr', SELF, 'reduce_axis'):
            b = bind_call_args(v, ra, method=True)
            good = T.dotted(b.get('func')) == 'np.take' and b.get('indices') == P_('indices') and b.get('axis') == P_('axis') \
                and b.get('keepattrs') == T.CONST_TRUE and b.get('keepdims') == T.CONST_TRUE
        if not good:
            ctx.violated('R1', fi, 'return ' + T.show(v)[:140], 'Dataset.take_axis must be reduce_axis(np.take, indices=indices, axis=axis, keepdims=True, keepattrs=True)', node=p.node)
        else:
            ctx.holds('R1', 'Dataset.take_axis -> reduce_axis(np.take, ...)')
            ctx.holds('R5', 'take_axis keeps attrs (keepattrs=True)')
    ev = run(ctx, fi, bind={'indexing': const('label')}, oracle=lambda a, st: (True if (a[0] == 'call' and T.dotted(a[1]) == 'np.iterable') else None))
    for p in ret_paths(ev):
        v = p.value
        b = bind_call_args(v, ra, method=True) if v[0] == 'call' else {}
        want = ('call', ('attr', ('sub', ('attr', SELF, 'axes'), P_('axis')), 'loc'), (P_('indices'),), (('mode', P_('mode')),))
        if b.get('indices') != want:
            ctx.violated('R3', fi, 'label mode: ' + T.show(b.get('indices') or v)[:120], "labels must be translated to positions on the dataset axis: self.axes[axis].loc(indices, mode=mode)", node=p.node)
        else:
            ctx.holds('R3', 'take_axis: labels -> positions on the dataset axis')
    fi = ctx.fn(DS + 'sort_axis')
    ev = run(ctx, fi)
    for p in ev.paths:
        v = p.value
        ii = ('call', ('attr', ('attr', ('sub', ('attr', SELF, 'axes'), P_('axis')), 'values'), 'argsort'), (), (('kind', P_('kind')),))
        # (arguments read by parameter: positional and keyword spellings are the same call)
        ok = p.kind == 'return' and v[0] == 'call' and v[1] == ('attr', SELF, 'take_axis')
        if ok:
            b_ = bind_call_args(v, ctx.fn(DS + 'take_axis'), method=True)
            ok = b_.get('indices') == ii and b_.get('axis') == P_('axis') and b_.get('indexing') == const('position')
        if not ok:
            ctx.violated('R1' if 'position' in T.show(v) else 'R3', fi, 'return ' + T.show(v)[:140],
                         "Dataset.sort_axis must take the argsort of the labels of that axis with take_axis(ii, axis=axis, indexing='position')", node=p.node)
        else:
            ctx.holds('R1', 'Dataset.sort_axis -> take_axis(argsort(labels), indexing=position)')
            ctx.holds('R3', 'sort_axis passes positions')
    # interp_axis
    fi = ctx.fn(DS + 'interp_axis')
    ev = run(ctx, fi)
    for p in ret_paths(ev):
        v = p.value
        obj = ('call', ('name', '_interp_internal_maybe_sort'), (SELF, P_('axis'), P_('issorted')), ())
        newaxis = ('call', ('name', 'Axis'), (P_('values'), ('attr', ('sub', ('attr', SELF, 'axes'), P_('axis')), 'name')), ())
        w = ('call', ('name', '_interp_internal_get_weights'), (('attr', ('sub', ('attr', obj, 'axes'), P_('axis')), 'values'), ('attr', newaxis, 'values')), ())
        good = False
        if v[0] == 'call' and v[1] == ('attr', obj, 'reduce_axis'):
            b = bind_call_args(v, ra, method=True)
            good = b.get('func') == ('name', '_interp_internal_from_weight') and b.get('axis') == P_('axis') and b.get('keepdims') == T.CONST_TRUE \
                and b.get('keepattrs') == T.CONST_TRUE and b.get('left') == P_('left') and b.get('right') == P_('right') and b.get('**') == w
            if good and b.get('newaxis') != newaxis:
                ctx.violated('R4', fi, 'return ' + T.show(v)[:160], 'the axis of the result must be exactly the requested coordinates (newaxis=Axis(values, name)): '
                             'deriving it by interpolating the old labels gives the fill values (NaN) outside the label range', node=p.node)
                continue
        if not good:
            ctx.violated('R1', fi, 'return ' + T.show(v)[:160], 'Dataset.interp_axis: sort if needed, compute the weights once on the dataset axis, then '
                         'reduce_axis(_interp_internal_from_weight, axis, keepdims=True, keepattrs=True, left=, right=, **weights)', node=p.node)
        else:
            ctx.holds('R1', 'Dataset.interp_axis -> maybe_sort, get_weights, reduce_axis(from_weight)')
            ctx.holds('R4', 'interp_axis passes the requested axis')
            ctx.holds('R5', 'interp_axis keeps attrs')
    # arithmetic: which variable meets which operand (the variable of the same key of a Dataset operand, the operand itself otherwise; keys only one side has are
    # left out; the reflected form hands the same operand to every variable) is decided by interpreting the three methods on an abstract Dataset whose variables
    # answer _binary_op / _rbinary_op / _unary_op with a symbolic call - whatever loop or helper the methods are written with
    from ..scenario_rule import rule_scenarios
    for m in ('_binary_op', '_rbinary_op', '_unary_op'):
        rule_scenarios(ctx, 'R1', only=DS + m, title='per-variable delegation (Dataset.%s interpreted on an abstract Dataset)' % m)
    # stack_ds / concatenate_ds
    for name, callee, kws in (('stack_ds', 'stack', {'axis': None, 'keys': None, 'align': T.CONST_FALSE}), ('concatenate_ds', 'concatenate', {'axis': P_('axis'), 'align': T.CONST_FALSE})):
        fi = ctx.fn('dimarray.dataset.' + name)
        ev = run(ctx, fi, mode='join')
        good = False
        for p in ev.paths:
            for e in p.calls(callee):
                c = e.a
                arr = c[2][0] if c[2] else None
                if not (arr is not None and arr[0] == 'comp' and arr[2][0] == 'sub' and arr[2][1][0] == 'elem' and arr[2][2][0] == 'elem' and e.loops):
                    continue
                if T.kw(c, 'align') != T.CONST_FALSE:
                    ctx.violated('R1', fi, e.node, 'the datasets were aligned as a whole: the per-variable call must not align again', node=e.node)
                    continue
                if name == 'stack_ds':
                    a = T.kw(c, 'axis')
                    if not (a is not None and a[0] == 'call' and T.call_name(a) == '_check_stack_axis') or T.kw(c, 'keys') is None or 'keys' not in T.show(T.kw(c, 'keys')) and '_check_stack_args' not in T.show(T.kw(c, 'keys')):
                        ctx.violated('R1', fi, e.node, 'every variable is stacked along the same checked new axis with the same keys', node=e.node)
                        continue
                else:
                    axk = T.kw(c, 'axis')
                    if axk == P_('axis'):
                        ctx.violated('R1', fi, 'per-variable concatenate addressed by the raw axis', 'concatenate_ds hands its `axis` argument to the concatenate() of every variable: an integer '
                                     '(the default 0 included) is a position among the Dataset\'s dimensions, but each variable reads it against its own dims - variables whose '
                                     'dimension order differs are joined along another dimension or fail; the dimension name must be passed', node=e.node)
                        continue
                    if not (axk is not None and _is_dim_name(axk) and T.contains(axk, P_('axis'))):
                        ctx.undecide('R1', 'concatenate_ds: axis argument %s of the per-variable call is not recognisably the name of the requested dimension' % (T.show(axk)[:60] if axk else None))
                        continue
                    has = [pol for a, pol in e.guards if a[0] == 'cmp' and a[1] == 'in' and a[2] == axk and 'dims' in T.show(a[3])]
                    if has != [True] and True not in has:
                        ctx.violated('R2', fi, 'variables lacking the dimension', 'every variable is handed to concatenate() along the requested dimension, also those that do not have it '
                                     '(ValueError): variables without the affected dimension must be left unchanged', node=e.node)
                        continue
                good = True
        if good:
            ctx.holds('R1', '%s: %s([ds[v] for ds in datasets], ...) per variable' % (name, callee))
        else:
            ctx.violated('R1', fi, name, '%s must call %s on the list of the same variable across datasets' % (name, callee))


def rule_reduce_axis(ctx):
    ctx.rule('R2', 'has-dimension guard and per-variable position', 4)
    ctx.rule('R4', 'results through Dataset.__setitem__; requested axis', 2)
    fi = ctx.fn(DS + 'reduce_axis')
    FUNC, AXIS = P_('func'), P_('axis')
    gai = ('call', ('attr', SELF, '_get_axis_info'), (AXIS,), ())
    dpos, name = ('item', gai, 0), ('item', gai, 1)
    ev = run(ctx, fi, bind={'keepdims': T.CONST_TRUE}, mode='join')
    okp, okn, okg = False, False, False
    ok_order, n_rebuilt = False, 0
    for p in ret_paths(ev):
        for e in p.calls():
            c = e.a
            if c[1] == FUNC and e.loops:
                # func(item.values, axis=<position on the item>)
                arr = c[2][0] if c[2] else None
                if not (arr is not None and arr[0] == 'attr' and arr[2] == 'values' and arr[1][0] == 'sub' and arr[1][1] == SELF):
                    continue
                item = arr[1]
                ax = T.kw(c, 'axis')
                ipos = ('item', ('call', ('attr', item, '_get_axis_info'), (name,), ()), 0)
                alts = T.value_alts(ax)
                if ax == dpos or dpos in alts:
                    ctx.violated('R2', fi, e.node, 'the position of the dimension is taken from the *dataset* axes and applied to the variable\'s values: a variable that '
                                 'holds the dimension at another position is transformed along the wrong axis', node=e.node)
                elif ax == ipos:
                    okp = True
                else:
                    ctx.violated('R2', fi, e.node, 'func must run along the variable\'s own position of the dimension: item._get_axis_info(name)[0]', node=e.node)
                # guard: the try around _get_axis_info failing -> variable kept
        # the rebuilt variable lists its axes in the *variable's* dimension order (the values keep that order), not in the dataset's
        for e in p.calls('DimArray'):
            c = e.a
            if not e.loops or not c[2] or c[2][0][0] != 'call' or c[2][0][1] != FUNC:
                continue
            axarg = c[2][1] if len(c[2]) > 1 else T.kw(c, 'axes')
            item = c[2][0][2][0][1] if c[2][0][2] and c[2][0][2][0][0] == 'attr' else None
            n_rebuilt += 1
            if axarg is None or axarg[0] != 'comp' or len(axarg[3]) != 1 or item is None:
                ctx.undecide('R2', 'reduce_axis: axes of the rebuilt variable are not a single comprehension: %s' % T.show(axarg)[:100] if axarg else 'missing')
                continue
            lid, src, conds = axarg[3][0]
            own = src in (('attr', item, 'dims'), ('attr', item, 'axes'))
            if not own:
                ctx.violated('R2', fi, e.node, 'the axes of a rebuilt variable must follow the variable\'s own dimension order (iterate item.dims): the values keep '
                             'that order, so listing the axes in the dataset\'s order (%s) mislabels every variable stored in another order (u(x,y) and v(y,x))'
                             % T.show(src)[:60], node=e.node)
            elif not T.contains(axarg[2], ('elem', src, lid)) or axarg[2] == ('elem', src, lid):
                ctx.violated('R2', fi, e.node, 'each axis of a rebuilt variable must be the *new* axis looked up by the variable\'s dimension name', node=e.node)
            else:
                ok_order = True
        tf = [e for e in p.events if e.kind == 'tryfail']
        for e in p.events:
            if e.kind == 'store_sub' and e.loops and e.a[0] in ('call', 'mut', 'phi') and e.c[0] == 'sub' and e.c[1] == SELF:
                if any(a[0] == 'tryfail' for a, pol in e.guards) or any(a[0] == 'cmp' and a[1] == 'in' and pol is False for a, pol in e.guards):
                    okg = True
                # ... or one store for both cases, whose value is either the rebuilt variable or the variable itself (a helper that returns `item` when the
                # dimension is missing)
            if e.kind == 'store_sub' and e.loops and e.a[0] in ('call', 'mut', 'phi') and isinstance(e.c, tuple) and e.c[0] in ('phi', 'ifexp'):
                alts = T.value_alts(e.c)
                if any(x[0] == 'sub' and x[1] == SELF and x[2] == e.b for x in alts) and any(x[0] == 'call' and T.dotted(x[1]) == 'DimArray' for x in [strip(y) for y in alts]):
                    okg = True
    if okp:
        ctx.holds('R2', 'reduce_axis: func(item.values, axis=item._get_axis_info(name)[0])')
    if ok_order:
        ctx.holds('R2', 'reduce_axis: rebuilt variables list their axes in their own dimension order')
    elif not n_rebuilt:
        ctx.undecide('R2', 'reduce_axis: the DimArray(func(item.values, ...), axes) construction was not found')
    if okg:
        ctx.holds('R2', 'reduce_axis: variables lacking the dimension are kept unchanged')
    else:
        ctx.violated('R2', fi, 'reduce_axis guard', 'variables without the dimension must be carried over unchanged')
    # requested axis
    ev = run(ctx, fi, bind={'keepdims': T.CONST_TRUE}, facts={T.mkcmp('is', P_('newaxis'), T.CONST_NONE): False}, mode='join')
    good = False
    for p in ret_paths(ev):
        for e in p.events:
            if e.kind == 'store_attr' and e.b == 'axes' and e.c[0] == 'comp' and e.c[2][0] == 'ifexp' and e.c[2][2] == P_('newaxis') \
                    and e.c[2][1] == T.mkcmp('==', ('attr', ('elem', ('attr', SELF, 'axes'), e.c[3][0][0]), 'name'), name):   # canonical: ifexp(a == b, when equal, otherwise)
                good = True
    if not good:
        # the same list built by an accumulating loop with one append per branch: append(newaxis) where the name matches, append(copy) elsewhere
        evf = run(ctx, fi, bind={'keepdims': T.CONST_TRUE}, facts={T.mkcmp('is', P_('newaxis'), T.CONST_NONE): False}, mode='fork', max_paths=20000)
        req, oth, odd = False, False, False
        for p in ret_paths(evf):
            for e in p.calls('append'):
                if len(e.loops) != 1 or not e.a[2] or T.call_receiver(e.a)[0] not in ('list', 'mut', 'phi', 'carried', 'call'):
                    continue
                a = e.a[2][0]
                el = [x for x in T.subterms(a) if x[0] == 'elem' and x[1] == ('attr', SELF, 'axes')]
                same = [pol for g, pol in e.guards if g[0] == 'cmp' and g[1] == '==' and g[3] == name or (g[0] == 'cmp' and g[1] == '==' and g[2] == name)]
                if a == P_('newaxis'):
                    if same and same[-1] is True:
                        req = True
                    else:
                        odd = True
                elif a[0] == 'call' and T.call_name(a) == 'copy' and el and T.call_receiver(a) == el[0]:
                    if same and same[-1] is False:
                        oth = True
                    else:
                        odd = True
        good = req and oth and not odd
    if good:
        ctx.holds('R4', 'reduce_axis(keepdims, newaxis=): the axis of that name is the requested one, the others are copies')
    else:
        ctx.violated('R4', fi, 'reduce_axis newaxis', 'with keepdims=True and a requested axis, the result must carry that axis under the same name')
    # default new axis (take_axis / sort_axis / reindex_axis): func applied to the labels of the axis, *with the metadata of that axis* - the DimArray
    # operations keep it (Axis.take re-creates the axis with **self.attrs, C16-R5), so must the Dataset variants
    ev = run(ctx, fi, bind={'keepdims': T.CONST_TRUE}, facts={T.mkcmp('is', P_('newaxis'), T.CONST_NONE): True}, mode='join')
    dflt = None
    for p in ev.paths:
        for e in p.calls('Axis'):
            if e.a[2] and e.a[2][0][0] == 'call' and e.a[2][0][1] == P_('func'):
                dflt = e
    if dflt is None:
        ctx.undecide('R5', 'reduce_axis: the default new axis (Axis(func(labels, axis=0, **kwargs), name)) was not found')
    else:
        c = dflt.a
        kw = dict(c[3]).get('**')
        carried = kw is not None and kw[0] == 'attr' and kw[2] in ('attrs', '_attrs') and 'axes' in T.show(kw[1])
        updated = any(T.call_name(e.a) == 'update' and 'attrs' in T.show(e.a) and 'axes' in T.show(e.a[2][0] if e.a[2] else ('const', '')) for p in ev.paths for e in p.calls('update'))
        if carried or updated:
            ctx.holds('R5', 'reduce_axis: the transformed axis keeps the metadata of the axis it replaces')
        else:
            ctx.violated('R5', fi, 'axis metadata dropped by reduce_axis', 'the axis produced by Dataset.take_axis / sort_axis / reindex_axis is Axis(func(labels), name) without the attrs of the '
                         'axis it replaces: ds.take_axis(...).axes[d].attrs is {} where ds[k].take_axis(...).axes[d].attrs keeps units etc.', node=dflt.node)
    # insertion through __setitem__ of a Dataset
    ev = run(ctx, fi, mode='join')
    # (stores into a local dict / list display - a look-up table built on the way - are not insertions of results)
    ins = [e for p in ev.paths for e in p.events if e.kind == 'store_sub' and e.loops and strip(e.a)[0] not in ('dict', 'list')]
    if ins and all(strip(e.a) == ('call', ('attr', SELF, '__class__'), (), ()) for e in ins):
        ctx.holds('R4', 'reduce_axis inserts results with Dataset.__setitem__')
    else:
        ctx.violated('R4', fi, 'result insertion', 'results must be inserted with dataset[k] = ... (shared axes re-established)')
    att = [e for p in ev.paths for e in p.calls('update') if T.contains(e.a, ('attr', SELF, 'attrs'))]
    if att and any(a == P_('keepattrs') and pol for e in att for a, pol in e.guards):
        ctx.holds('R5', 'reduce_axis(keepattrs=True) copies dataset attrs')
    else:
        ctx.violated('R5', fi, 'keepattrs', 'with keepattrs=True the dataset attrs must be copied to the result')


def strip(t):
    while t[0] in ('mut', 'setitem'):
        t = t[1]
    if t[0] == 'phi':
        alts = set(strip(x) for x in t[1] if x[0] != 'carried')
        if len(alts) == 1:
            return alts.pop()
    return t


def rule_take(ctx):
    ctx.rule('R3', 'index kinds', 4)
    ctx.rule('R5', 'metadata carried', 5)
    fi = ctx.fn(DS + 'take')
    ev = run(ctx, fi, mode='join', oracle=lambda a, st: (True if a == T.mkcmp('is', P_('names'), T.CONST_NONE) else None))
    gi = ('call', ('attr', SELF, '_get_indices'), (P_('indices'),), (('axis', P_('axis')), ('tol', P_('tol')), ('keepdims', P_('keepdims')), ('indexing', P_('indexing'))))
    ok = False
    for p in ret_paths(ev):
        for e in p.events:
            if e.kind == 'store_sub' and e.loops and e.c[0] == 'call' and T.call_name(e.c) == 'take':
                c = e.c
                nm = e.b
                if T.call_receiver(c) != ('sub', SELF, nm):
                    ctx.violated('R1', fi, e.node, 'data[nm] must be self[nm].take(...)', node=e.node)
                    continue
                if T.kw(c, 'indexing') != const('position'):
                    ctx.violated('R3', fi, e.node, "indices were resolved to positions on the dataset axes: the per-variable take needs indexing='position'", node=e.node)
                    continue
                idx = T.kw(c, 'indices')
                good = idx is not None and idx[0] == 'comp' and idx[3][0][1] == ('attr', ('sub', SELF, nm), 'dims')
                if not good:
                    ctx.violated('R2', fi, e.node, 'each variable is indexed only along its own dimensions ({dim: ... for dim in self[nm].dims})', node=e.node)
                    continue
                # a 0-d variable has no dimension to index: DimArray.take hands back the bare scalar, which the insertion re-wraps without the variable's
                # metadata (and dtype): such variables must be carried over as they are
                zero_d = [pol for a, pol in e.guards if ('ndim' in T.show(a) or 'dims' in T.show(a)) and T.contains(a, ('sub', SELF, nm))]
                evf = run(ctx, fi, mode='fork', max_paths=20000, oracle=lambda a, st: (True if a == T.mkcmp('is', P_('names'), T.CONST_NONE) else None))
                guarded = any(any(('ndim' in T.show(a) or 'dims' in T.show(a) or 'shape' in T.show(a)) and T.contains(a, ('sub', SELF, e2.b)) for a, pol in e2.guards)
                              for q in evf.paths for e2 in q.events if e2.kind == 'store_sub' and e2.loops and isinstance(e2.c, tuple) and e2.c[0] == 'call' and T.call_name(e2.c) == 'take')
                if not guarded:
                    ctx.violated('R5', fi, '0-d variables re-wrapped', 'every variable goes through self[nm].take(...): for a 0-d variable that is a bare scalar, and data[nm] = <scalar> builds a '
                                 'new array without the variable\'s metadata (ds.ix[...][\'s\'].attrs is {}); 0-d variables must be left unchanged', node=e.node)
                    continue
                ok = True
        calls = [e.a for e in p.calls('_get_indices')]
        if calls:
            # (arguments compared by parameter: positional and keyword spellings of the internal call read the same)
            gi_ = ctx.P.functions.get('dimarray.core.bases.AbstractHasAxes._get_indices')
            b = bind_call_args(calls[0], gi_, method=True) if gi_ is not None else dict(calls[0][3], indices=calls[0][2][0] if calls[0][2] else None)
            if any(b.get(k) != P_(k) for k in ('indices', 'axis', 'tol', 'keepdims', 'indexing')):
                ctx.violated('R3', fi, T.show(calls[0])[:140], 'the dataset-level index resolution must receive indices, axis, tol, keepdims and indexing unchanged', node=p.node)
                ok = False
        upd = [e for e in p.calls('update') if e.a[2] == (('attr', SELF, 'attrs'),)]
        if not upd:
            ctx.violated('R5', fi, 'attrs', 'Dataset.take must carry the dataset metadata (data.attrs.update(self.attrs))', node=p.node)
        else:
            ctx.holds('R5', 'take carries dataset attrs')
    if ok:
        ctx.holds('R3', "take: positions resolved on the dataset axes, per-variable take(indexing='position') along the variable's own dims")
        ctx.holds('R2', 'take: variables indexed along their own dimensions only')
    if ctx.P.method('dimarray.dataset.Dataset', '_getitem') is not fi:
        ctx.violated('R1', 'dimarray.dataset.Dataset', 'Dataset._getitem', 'ix/loc/iloc/sel/isel of a Dataset must go through Dataset.take')
    else:
        ctx.holds('R1', 'Dataset._getitem = take (behind .ix/.loc/.sel/.isel)')


def _is_dim_name(t):
    """a term that denotes a dimension *name* (not a position that depends on who interprets it)"""
    if t[0] == 'attr' and t[2] == 'name':
        return True
    if t[0] == 'item' and t[1][0] == 'call' and T.call_name(t[1]) == '_get_axis_info' and t[2] == 1:
        return True
    if t[0] == 'sub' and t[1][0] == 'call' and T.call_name(t[1]) == '_get_axis_info' and t[2] == const(1):
        return True
    return False


def _is_position(t, AXIS):
    """the caller's raw axis argument, or a position computed at Dataset level"""
    if t == AXIS:
        return True
    if t[0] in ('item', 'sub') and t[1][0] == 'call' and T.call_name(t[1]) == '_get_axis_info' and t[2] in (0, const(0)):
        return True
    if t[0] == 'call' and T.call_name(t) == 'index':
        return True
    return False


def rule_reindex(ctx):
    """R6: Dataset.reindex_axis against its sibling DimArray.reindex_axis (the per-variable reference): same lookup call (so `method` means the
    same), same mismatch mask, raise_error raises, relabel, and a per-variable fill addressed by dimension *name*"""
    ctx.rule('R6', 'Dataset.reindex_axis twin of DimArray.reindex_axis', 1)
    fi = ctx.fn(DS + 'reindex_axis')
    fd = ctx.fn('dimarray.core.align.reindex_axis')
    VALUES, AXIS, FILL, METHOD, RAISE = P_('values'), P_('axis'), P_('fill_value'), P_('method'), P_('raise_error')

    def oracle(atom, st):
        if atom[0] == 'call' and T.dotted(atom[1]) == 'isinstance' and atom[2] == (VALUES, ('name', 'Axis')):
            return False
        if atom[0] == 'call' and T.call_name(atom) == 'isscalar':
            return False
        if atom[0] == 'cmp' and atom[1] == 'is' and atom[2][0] == 'call' and T.dotted(atom[2][1]) == 'type' and atom[3] == ('name', 'slice'):
            return False
        return None
    ev = run(ctx, fi, oracle=oracle, mode='join', values_as_items=True)
    evd = run(ctx, fd, oracle=oracle, mode='join')
    newvals = ('call', ('attr', ('name', 'np'), 'asarray'), (VALUES,), ())
    okk = True
    rets = ret_paths(ev)
    ctx.require('R6', rets, 'Dataset.reindex_axis has no returning path')
    p = rets[-1]
    # --- the reference lookup of the sibling
    ref = [e.a for q in evd.paths for e in q.calls('locate_many')]
    if not ref:
        ctx.undecide('R6', 'DimArray.reindex_axis no longer locates with locate_many: the sibling reference changed')
        return
    ref_side = T.kw(ref[0], 'side')
    lm = [e.a for e in p.calls('locate_many')]
    if len(lm) != 1:
        ctx.violated('R6', fi, 'label lookup', 'DimArray.reindex_axis locates the new labels with locate_many(axis values, values, side=method or \'left\'); Dataset.reindex_axis '
                     'does not use that lookup, so method=\'right\' selects other elements than on each variable', node=p.node)
        okk = False
        indices = None
    else:
        c = lm[0]
        src = c[2][0] if c[2] else None
        if not (src is not None and src[0] == 'attr' and src[2] in ('values', '_values') and T.contains(src, SELF) and T.contains(src, AXIS)):
            ctx.violated('R6', fi, 'lookup source', 'the labels must be located in the values of the dataset axis designated by `axis`, got %s' % (T.show(src)[:80] if src else None), node=p.node)
            okk = False
        if c[2][1:2] != (newvals,):
            ctx.violated('R6', fi, 'lookup labels', 'the requested labels (np.asarray(values)) must be what is located', node=p.node)
            okk = False
        if T.kw(c, 'side') != ref_side:
            ctx.violated('R6', fi, 'lookup side', 'DimArray.reindex_axis passes side=%s, Dataset.reindex_axis passes %s' % (T.show(ref_side), T.show(T.kw(c, 'side')) if T.kw(c, 'side') else 'nothing'), node=p.node)
            okk = False
        indices = c
    ta = [e.a for e in p.calls('take_axis')]
    if indices is not None and not ta:
        # no take_axis at all: the variables are sampled some other way (reduce_axis / np.take directly ...), a form this twin comparison does not read
        ctx.undecide('R3', 'Dataset.reindex_axis no longer samples its variables through take_axis: the step is written in a form the rule does not know')
        okk = False
    elif indices is not None:
        if len(ta) != 1 or ta[0][2][:1] != (indices,) or T.kw(ta[0], 'indexing') != const('position') or T.call_receiver(ta[0]) != SELF:
            ctx.violated('R3', fi, 'take_axis', "the located positions are taken with self.take_axis(indices, axis=..., indexing='position')", node=p.node)
            okk = False
        else:
            ax_arg = T.kw(ta[0], 'axis')
            if not (ax_arg == AXIS or (ax_arg is not None and (_is_dim_name(ax_arg) or (ax_arg[0] == 'item' and T.contains(ax_arg, AXIS))))):
                ctx.violated('R3', fi, 'take_axis axis', 'take_axis must act on the dimension designated by `axis`', node=p.node)
                okk = False
            ctx.holds('R3', 'reindex_axis takes located positions with indexing=position')
            ctx.holds('R5', 'reindex_axis keeps attrs (through take_axis)')
    if ta:
        ds = ta[0]
        src = indices[2][0] if indices is not None else None
        masks = []
        if src is not None:
            masks.append(T.mkcmp('!=', ('call', ('attr', src, 'take'), (indices,), ()), newvals))
        for e in p.events:
            if e.kind == 'call' and T.call_name(e.a) == 'put' and e.a[2]:
                m = e.a[2][0]
                if m[0] == 'cmp' and m[1] == '!=' and newvals in (m[2], m[3]):
                    other = m[3] if m[2] == newvals else m[2]
                    if other[0] == 'attr' and other[2] == 'values' and T.contains(other, ds):
                        masks.append(m)              # labels of the taken axis against the requested labels
        puts = [e for e in p.calls('put')]
        rel = [e for e in p.events if e.kind == 'store_sub' and not (e.c[0] == 'sub' and e.c[1] == SELF) and e.a[0] == 'sub' and T.contains(e.a, ds)]
        # raise_error
        rz = [q for q in raise_paths(ev) if exc_name(q.value) == 'IndexError' and any(a == RAISE and pol is True for a, pol in q.guards)]
        rz_ok = bool(rz) or any(T.kw(c, 'mode') == ('ifexp', RAISE, const('raise'), const('clip')) for c in ta)
        if not rz_ok:
            ctx.violated('R6', fi, 'raise_error', 'raise_error=True must raise IndexError when a requested label is missing', node=p.node)
            okk = False
        if len(puts) != 1:
            ctx.violated('R6', fi, 'fill loop', 'missing labels must be filled variable by variable', node=p.node)
            okk = False
        else:
            e = puts[0]
            c = e.a
            want = {'inplace': T.CONST_TRUE, 'indexing': const('position'), 'cast': T.CONST_TRUE}
            got = dict(c[3])
            bad = [k for k, v in want.items() if got.get(k) != v]
            recv = T.call_receiver(c)
            guards = list(e.guards)
            eoc = elem_of_comp(recv)
            if eoc is not None:
                # the variables to fill were listed first ([dataset[k] for k in ... if <has the dimension>]): the element and its filter are read from the list
                recv = eoc[0]
                for cnd in eoc[1]:
                    for g_, truth_ in cond_paths(cnd):
                        if truth_:
                            guards.extend(g_)
                            break
            if not c[2] or not any(c[2][0] == m or T.show(c[2][0]) == T.show(m) for m in masks):
                bad.append('mask')
            if c[2][1:2] != (FILL,):
                bad.append('fill_value')
            if bad:
                ctx.violated('R6', fi, 'fill call', 'the fill must be put(mask, fill_value, axis=<name>, inplace=True, indexing=\'position\', cast=True) like in DimArray.reindex_axis '
                             '(wrong/missing: %s)' % bad, node=e.node)
                okk = False
            ax_arg = got.get('axis')
            if ax_arg is not None and not _is_dim_name(ax_arg) and not _is_position(ax_arg, AXIS):
                ctx.undecide('R6', 'fill axis %s is neither recognisably a dimension name nor a position' % T.show(ax_arg)[:80])
                okk = False
            elif ax_arg is None or not _is_dim_name(ax_arg):
                ctx.violated('R6', fi, 'fill axis', 'the per-variable fill is addressed with axis=%s: an integer position given to Dataset.reindex_axis refers to the dataset\'s '
                             'dimension order, but each variable interprets it against its own dims, so the fill value lands on another dimension of variables whose '
                             'dimension order differs (the dimension name must be passed)' % (T.show(ax_arg) if ax_arg else None), node=e.node)
                okk = False
            if not (recv[0] == 'sub' and strip(recv[1]) == ds and e.loops):
                ctx.violated('R6', fi, 'fill receiver', 'the in-place fill acts on the variables of the fresh result', node=e.node)
                okk = False
            k = recv[2] if recv[0] == 'sub' else None
            has = [(a, pol) for a, pol in guards if a[0] == 'cmp' and a[1] == 'in' and 'dims' in T.show(a[3]) and _is_dim_name(a[2])]
            if not has or has[-1][1] is not True:
                ctx.violated('R2', fi, 'fill loop guard', 'the fill loop applies put(..., axis=...) to every variable: variables that do not have the reindexed dimension must be '
                             'skipped (ValueError otherwise)', node=e.node)
                okk = False
            else:
                g = has[-1][0]
                if not (g[3][0] == 'attr' and g[3][1][0] == 'sub' and g[3][1][2] == k):
                    ctx.violated('R2', fi, 'fill loop guard', 'the has-dimension test must look at the dims of the variable being filled (dataset[k].dims); testing the dataset\'s own '
                                 'dims is always true', node=e.node)
                    okk = False
                else:
                    ctx.holds('R2', 'reindex_axis fill loop skips variables lacking the dimension')
            mn = [pol for a, pol in e.guards if a == T.mkcmp('is', METHOD, T.CONST_NONE)]
            if mn != [True]:
                ctx.violated('R6', fi, 'fill method guard', 'fill only when method is None', node=e.node)
                okk = False
        if len(rel) != 1 or not any(rel[0].b == m or T.show(rel[0].b) == T.show(m) for m in masks):
            ctx.violated('R6', fi, 'relabel', 'the dataset axis must be relabelled with the requested labels where they were missing (dataset.axes[...][mask] = values[mask])', node=p.node)
            okk = False
        elif any(a == METHOD or (a[0] == 'cmp' and METHOD in (a[2], a[3])) for a, pol in rel[0].guards):
            # (DimArray.reindex_axis relabels the positions that were not found whatever `method` is: method='left'/'right' take the data of the neighbouring label,
            # the axis shows the requested one)
            ctx.violated('R6', fi, 'relabel depends on method', 'the relabelling of the positions that were not found happens only when %s: DimArray.reindex_axis '
                         'relabels them for every method, so with method=\'left\'/\'right\' the dataset keeps the neighbouring label where each variable on its own '
                         'would show the requested one' % ', '.join('%s is %s' % (T.show(a)[:40], pol) for a, pol in rel[0].guards if a == METHOD or (a[0] == 'cmp' and METHOD in (a[2], a[3]))), node=rel[0].node)
            okk = False
    elif indices is None:
        ctx.violated('R6', fi, 'take step', 'Dataset.reindex_axis no longer takes along the axis', node=p.node)
        okk = False
    if okk:
        ctx.holds('R6', 'Dataset.reindex_axis: locate_many(side=method or left) -> take(position) -> mask -> raise | relabel -> per-variable fill by name (cast=True)')
    for k in ('fill_value', 'raise_error', 'method'):
        a = default_of(fi, k)
        b = default_of(ctx.fn('dimarray.core.align.reindex_axis'), k)
        if a != b:
            ctx.violated('R6', fi, 'default ' + k, 'Dataset.reindex_axis and DimArray.reindex_axis disagree on the default of %s' % k)
    rl = ctx.fn(DS + 'reindex_like')
    ev = run(ctx, rl)
    if not any(p.kind == 'return' and p.value == ('call', ('name', 'reindex_like'), (SELF, P_('other')), (('**', P_('**kwargs')),)) for p in ev.paths):
        ctx.violated('R1', rl, 'Dataset.reindex_like', 'Dataset.reindex_like delegates to the generic reindex_like(self, other, **kwargs)')


def rule_reflected_ops(ctx):
    """R7: `2 - ds`, `2 / ds`, `2 ** ds`.  Python calls the reflected special method only when the left operand does not know the right one, i.e. with a plain
    scalar / ndarray on the left; OpMixin's default `_rbinary_op` is `other._binary_op(func, self)`, which that left operand does not have.  A class that
    supports arithmetic with scalars must therefore provide its own `_rbinary_op`, applying the per-variable reflected operation."""
    ctx.rule('R7', 'reflected arithmetic (scalar on the left) is implemented per variable', 1)
    P = ctx.P
    default = P.method('dimarray.core.bases.OpMixin', '_rbinary_op')
    for cq in ('dimarray.dataset.Dataset',):
        try:
            got = P.method(cq, '_rbinary_op')
        except AnalysisError:
            got = None
        refl = [n for n in ('__rsub__', '__rtruediv__', '__rfloordiv__', '__rpow__') if P.lookup(P.cls(cq), n) is not None]
        if got is None or got is default:
            ctx.violated('R7', cq, 'Dataset._rbinary_op', '%s inherits OpMixin._rbinary_op (`other._binary_op(func, self)`): %s with a scalar on the left raise AttributeError, while the same '
                         'operation on each variable works' % (cq.rsplit('.', 1)[-1], ', '.join(refl)))
            continue
        ev = run(ctx, got, mode='join')
        ok = False
        for p in ev.paths:
            for e in p.calls('_rbinary_op'):
                recv = T.call_receiver(e.a)
                if recv[0] == 'sub' and recv[1] == SELF and e.a[2][:2] == (P_(got.params[1]), P_(got.params[2])) and e.loops:
                    ok = True
        if ok:
            ctx.holds('R7', '%s._rbinary_op: self[k]._rbinary_op(func, other) for every variable' % cq.rsplit('.', 1)[-1])
        else:
            ctx.violated('R7', got, 'Dataset._rbinary_op body', 'the reflected operation must be applied variable by variable: res[k] = self[k]._rbinary_op(func, other)')


def check(ctx):
    rule_delegation(ctx)
    rule_reduce_axis(ctx)
    rule_take(ctx)
    rule_reindex(ctx)
    rule_reflected_ops(ctx)
    # Dataset.interp_axis hands the weights of _interp_internal_get_weights to every variable (rules shared with C18)
    from . import c18
    from ..report import Renamed
    ctx.rule('R8', 'interpolation weights behind Dataset.interp_axis (shared with C18)', 1)
    c18.rule_weights(Renamed(ctx, {'*': 'R8'}))
    # Dataset.take resolves the index once through the shared _get_indices and hands positions to every variable: its per-dimension bookkeeping
    # (shared with C01) - state carried from one dimension to the next makes dataset and variable disagree as soon as their dimension orders differ
    from . import c01 as _c01b
    from ..report import Renamed as _RenB
    ctx.rule('R9', '_get_indices per-dimension bookkeeping (shared with C01)', 4)
    _c01b.rule_bookkeeping(_RenB(ctx, {'*': 'R9'}))
    ctx.not_decided += ['value equality with the per-variable result', 'Dataset.__eq__ / copy semantics']
    ctx.trusted += ['np.take(values, indices, axis=) semantics']
    return EXPLANATION
