"""C16 - metadata: attribute routing and propagation rules (structural clauses).

  R1 routing tables   __getattr__ / __setattr__ / __delattr__ of GetSetDelAttrMixin, enumerated over the atoms U (underscore), X (excluded),
                      I (included), M (class member), D (dimension), A (key in attrs) for DimArray, Dataset and Axis
  R2 attrs property   setter replaces the content (clear, then update), deleter clears; every constructor stores a fresh dict in _attrs
  R3 carried          every DimArray-typed return of the propagating operations carries the metadata of the array it was computed from,
                      and metadata never travels through the argument channel of DimArray.__init__
  R4 not carried      operation (all exits), _unary_op, __eq__, _cmp, stack, concatenate build their result without operand metadata
  R5 axis metadata    Axis.__getitem__ / Axis.take re-create the axis with **self.attrs; Axis.cast / union / intersection keep self.attrs
"""
import itertools

from .. import terms as T
from ..terms import const
from ..rules import P_, run, ret_paths, raise_paths, exc_name
from ..loader import AnalysisError, ClassInfo

EXPLANATION = (
    "C16 is close to a structural property: the routing of attribute access is a finite decision table (2^6 atom assignments x 3 methods x 3 classes, "
    "extracted from the source by path-sensitive value numbering and compared with the table the statement dictates), and propagation is a provenance "
    "fact about every DimArray-typed return of the listed operations (metadata passed to _constructor, attrs.update(self.attrs) on the returned object, or "
    "delegation to another carrying operation), checked as a must-property over all returning paths; arithmetic, comparisons, stack and concatenate are "
    "checked with the dual may-property. The semantics of dict.update is trusted.")

SELF, NAME, VALUE = P_('self'), P_('name'), P_('value')
MIX = 'dimarray.core.bases.GetSetDelAttrMixin.'
CLASSES = {'DimArray': ('dimarray.core.dimarraycls.DimArray', True), 'Dataset': ('dimarray.dataset.Dataset', True), 'Axis': ('dimarray.core.axes.Axis', False)}


def routing_oracle(U, X, I, M, D, A, has_dims):
    def oracle(atom, st):
        s = T.show(atom)
        if atom[0] == 'call' and T.call_name(atom) == 'startswith' and T.call_receiver(atom) == NAME:
            return U if atom[2] == (const('_'),) else None
        if atom[0] == 'cmp' and atom[1] == 'in' and atom[2] == NAME:
            tgt = T.show(atom[3])
            if '__metadata_exclude__' in tgt:
                return X
            if '__metadata_include__' in tgt:
                return I
            if 'dims' in tgt:
                return D
            if 'attrs' in tgt:
                return A
        if atom[0] == 'call' and T.dotted(atom[1]) == 'hasattr':
            if atom[2][1] == NAME:
                return M
            if atom[2][1] in (const('dims'), const('axes')):
                return has_dims
        return None
    return oracle


def classify(p, op):
    """outcome of one path of a routing method"""
    if p.kind == 'raise':
        return 'error:' + exc_name(p.value)
    evs = p.events
    if op == 'get':
        v = p.value
        if v == ('sub', ('attr', SELF, 'attrs'), NAME):
            return 'attrs'
        if v == ('attr', ('sub', ('attr', SELF, 'axes'), NAME), 'values'):
            return 'axis'
        if v[0] == 'call' and '__getattribute__' in T.show(v[1]):
            return 'plain'
        return 'other:' + T.show(v)[:60]
    stores = [e for e in evs if e.kind in ('store_sub', 'store_attr', 'del')]
    calls = [T.show(e.a[1]) for e in evs if e.kind == 'call']
    if op == 'set':
        if any(e.kind == 'store_sub' and e.a == ('attr', SELF, 'attrs') and e.b == NAME and e.c == VALUE for e in stores):
            return 'attrs'
        if any(e.kind == 'store_sub' and e.a == ('sub', ('attr', SELF, 'axes'), NAME) and e.c == VALUE for e in stores):
            return 'axis'
        if any('object.__setattr__' in c for c in calls):
            return 'plain'
        return 'other'
    if op == 'del':
        if any(e.kind == 'del' and e.a == ('attr', SELF, 'attrs') and e.b == NAME for e in stores):
            return 'attrs'
        if any('object.__delattr__' in c for c in calls):
            return 'plain'
        return 'other'


def spec(op, U, X, I, M, D, A):
    hidden = (U or X) and not I
    if op == 'get':
        if M:
            return 'plain'
        if hidden:
            return 'error:AttributeError'
        if D:
            return 'axis'
        if A:
            return 'attrs'
        return 'error:AttributeError'
    if op == 'set':
        if not I and (U or X or M):
            return 'plain'
        if D:
            return 'axis'
        return 'attrs'
    if op == 'del':
        if not U and not X and not M and A:
            return 'attrs'
        return 'plain'


def rule_routing(ctx):
    ctx.rule('R1', 'attribute routing tables', 3 * 3 * 32)
    P = ctx.P
    fns = {'get': ctx.fn(MIX + '__getattr__'), 'set': ctx.fn(MIX + '__setattr__'), 'del': ctx.fn(MIX + '__delattr__')}
    for cname, (cq, has_dims) in CLASSES.items():
        ci = P.cls(cq)
        # the three classes use the mixin's methods (no override)
        for op, dunder in (('get', '__getattr__'), ('set', '__setattr__'), ('del', '__delattr__')):
            m = P.lookup(ci, dunder)
            r = P.resolve_member(m) if m else None
            if not (r and r[0] == 'func' and r[1] is fns[op]):
                ctx.violated('R1', cq, '%s.%s' % (cname, dunder), '%s must route attribute access through GetSetDelAttrMixin.%s' % (cname, dunder))
        ex = P.lookup(ci, '__metadata_exclude__')
        for op, fi in fns.items():
            for U, X, I, M, D, A in itertools.product([False, True], repeat=6):
                if D and not has_dims:
                    continue
                ev = run(ctx, fi, oracle=routing_oracle(U, X, I, M, D, A, has_dims))
                outs = set(classify(p, op) for p in ev.paths)
                want = spec(op, U, X, I, M, D, A)
                inst = '%s.%s U=%d X=%d I=%d M=%d D=%d A=%d' % (cname, op, U, X, I, M, D, A)
                if len(outs) != 1:
                    extra = sorted(set(T.show(a)[:60] for p in ev.paths for a, _ in p.guards))
                    wrong = sorted(o for o in outs if o != want)
                    ctx.violated('R1', fi, '%s %s: %s' % (op, 'U=%d X=%d I=%d M=%d D=%d A=%d' % (U, X, I, M, D, A), wrong[0]),
                                 'the routing of %s depends on a condition that is not one of the six routing atoms (%s): for some names the outcome is %s instead of %s [class %s]'
                                 % (inst, '; '.join(extra), wrong[0], want, cname))
                    continue
                got = outs.pop()
                if got != want:
                    names = {'attrs': 'the attrs dictionary', 'axis': 'the axis labels', 'plain': 'plain object attribute access', 'error:AttributeError': 'AttributeError'}
                    ctx.violated('R1', fi, '%s %s: %s' % (op, 'U=%d X=%d I=%d M=%d D=%d A=%d' % (U, X, I, M, D, A), got),
                                 '%s of a name that %s must go to %s, the code goes to %s [class %s]' % (
                                     {'get': 'reading', 'set': 'assigning', 'del': 'deleting'}[op],
                                     ', '.join(k for k, v in (('starts with _', U), ('is excluded', X), ('is included', I), ('is a class member', M),
                                                              ('is a dimension', D), ('is a key of attrs', A)) if v) or 'is an ordinary public name',
                                     names.get(want, want), names.get(got, got), cname))
                else:
                    ctx.holds('R1', inst)
    ctx.exhaustive = True
    # exclusion lists
    for cq, need in (('dimarray.core.axes.Axis', {'values', 'name'}), ('dimarray.core.axes.MultiAxis', {'values', 'name', 'axes'})):
        ci = P.cls(cq)
        m = ci.members.get('__metadata_exclude__')
        ok = False
        if m is not None:
            s = __import__('ast').unparse(m.value)
            ok = all(repr(n) in s or (n in ('values', 'name') and 'Axis.__metadata_exclude__' in s) for n in need)
        if not ok:
            ctx.violated('R1', cq, '__metadata_exclude__', '%s must keep %s out of attrs' % (cq.rsplit('.', 1)[-1], sorted(need)))


def rule_attrs_property(ctx):
    ctx.rule('R2', 'attrs property and fresh _attrs in constructors', 5)
    P = ctx.P
    m = P.lookup(P.cls('dimarray.core.bases.AbstractHasMetadata'), 'attrs')
    fset, fdel, fget = m.value['fset'], m.value['fdel'], m.value['fget']
    for f in (fset, fdel, fget):
        ctx.functions.add(f.qualname)
    ev = run(ctx, fget)
    if not all(p.value == ('attr', SELF, '_attrs') for p in ev.paths):
        ctx.violated('R2', fget, 'attrs getter', 'attrs is the _attrs dictionary itself')
    ev = run(ctx, fset)
    ok = False
    for p in ev.paths:
        kinds = [(e.kind, T.show(e.a)[:60]) for e in p.events if e.kind in ('del', 'call')]
        dels = [i for i, e in enumerate(p.events) if e.kind == 'del' and e.b == const('attrs')]
        upds = [i for i, e in enumerate(p.events) if e.kind == 'call' and T.call_name(e.a) == 'update' and e.a[2] == (VALUE,)]
        if dels and upds and dels[0] < upds[0]:
            ok = True
    if ok:
        ctx.holds('R2', 'attrs setter: clear, then update(value)')
    else:
        ctx.violated('R2', fset, 'attrs setter', 'assigning a.attrs must replace the content: clear the dictionary, then update it with the new mapping')
    ev = run(ctx, fdel, mode='join')
    if any(e.kind == 'del' and e.a == ('attr', SELF, 'attrs') and e.loops for p in ev.paths for e in p.events) or \
            any(T.call_receiver(e.a) in (('attr', SELF, 'attrs'), ('attr', SELF, '_attrs')) and not e.a[2] for p in ev.paths for e in p.calls('clear')):
        ctx.holds('R2', 'attrs deleter clears every key')
    else:
        ctx.violated('R2', fdel, 'attrs deleter', 'del a.attrs must remove every entry')
    for q in ('dimarray.core.dimarraycls.DimArray.__init__', 'dimarray.core.axes.Axis.__init__', 'dimarray.core.axes.MultiAxis.__init__', 'dimarray.dataset.Dataset.__init__'):
        fi = ctx.fn(q)
        ev = run(ctx, fi, mode='join')
        st = [e for p in ev.paths for e in p.events if e.kind == 'store_attr' and e.a == SELF and e.b == '_attrs']
        def fresh_dict(t):
            # dict(...) / {...}, possibly filled further (update, item stores) before it is stored
            while t[0] in ('mut', 'setitem'):
                t = t[1]
            return (t[0] == 'call' and T.dotted(t[1]) == 'dict') or t[0] == 'dict'
        if st and all(fresh_dict(e.c) for e in st):
            ctx.holds('R2', q.replace('dimarray.', '') + ': _attrs = dict(...)')
        else:
            ctx.violated('R2', fi, '_attrs', 'every constructor must store a fresh dict in _attrs (arrays must not share their metadata dictionary)')


# ---------------------------------------------------------------------------------------------- propagation
CARRYING = {}     # qualname -> (receiver param, reason)


def returned_object_carries(p, fi, src_terms, ctx, carrying):
    """does the value returned on path p carry the metadata of one of src_terms?"""
    v = p.value
    alts = T.value_alts(v)
    ok_all = True
    n_array = 0
    for alt in alts:
        while alt[0] in ('mut', 'setitem'):
            alt = alt[1]
        if alt[0] == 'carried':
            continue
        if alt in src_terms:
            n_array += 1
            continue                      # returns the array itself
        # alternatives that are not DimArrays (labels picked out of .values, tuples of labels, raw NumPy results, None) carry nothing and are not judged
        if alt[0] in ('sub', 'tuple', 'const', 'item') or (alt[0] == 'call' and (T.dotted(alt[1]) in ('tuple', 'list', 'float', 'int') or (T.dotted(alt[1]) or '').startswith(('np.', 'numpy.')))):
            continue
        n_array += 1
        if alt[0] == 'call':
            kw = dict(alt[3]).get('**')
            n = T.call_name(alt)
            if n in ('_constructor',) and kw is not None and kw[0] == 'attr' and kw[2] in ('attrs', '_attrs') and derived(kw[1], src_terms):
                continue
            # attrs.update(src.attrs) on the returned object
            upd = [e for e in p.events if e.kind == 'call' and T.call_name(e.a) == 'update' and e.a[2] and e.a[2][0][0] == 'attr'
                   and e.a[2][0][2] in ('attrs', '_attrs') and derived(e.a[2][0][1], src_terms)
                   and T.call_receiver(e.a)[0] == 'attr' and T.call_receiver(e.a)[2] in ('attrs', '_attrs') and strip(T.call_receiver(e.a)[1]) == alt]
            if upd:
                continue
            # delegation to a carrying operation on a source (or on an object that itself carries)
            recv = T.call_receiver(alt) if alt[1][0] == 'attr' else (alt[2][0] if alt[2] else None)
            if n in carrying and recv is not None and (derived(recv, src_terms) or carries_term(recv, p, src_terms, carrying)):
                continue
        ok_all = False
        return False, alt
    return (ok_all and n_array > 0), None


def strip(t):
    while t[0] in ('mut', 'setitem'):
        t = t[1]
    return t


CARRY_NAMES = set()


def derived(t, srcs):
    """t denotes the source array or an array that carries the source's metadata"""
    t = strip(t)
    if t in srcs:
        return True
    if t[0] == 'phi':
        return all(derived(x, srcs) for x in t[1] if x[0] != 'carried')
    if t[0] == 'call':
        n = T.call_name(t)
        recv = T.call_receiver(t) if t[1][0] == 'attr' else (t[2][0] if t[2] else None)
        kw = dict(t[3]).get('**')
        if n == '_constructor' and kw is not None and kw[0] == 'attr' and kw[2] in ('attrs', '_attrs') and derived(kw[1], srcs):
            return True
        if n in CARRY_NAMES and recv is not None and derived(recv, srcs):
            return True
    # obj from _deal_with_axis(self, axis)#0 / _interp_internal_maybe_sort(self, ...) : same metadata as self (flatten / sort_axis carry)
    if t[0] == 'item' and t[1][0] == 'call' and T.call_name(t[1]) == '_deal_with_axis' and t[2] == 0:
        return derived(t[1][2][0], srcs)
    if t[0] == 'call' and T.call_name(t) == '_interp_internal_maybe_sort':
        return derived(t[2][0], srcs)
    return False


def carries_term(t, p, srcs, carrying):
    t = strip(t)
    if derived(t, srcs):
        return True
    if t[0] == 'phi':
        return all(carries_term(x, p, srcs, carrying) for x in t[1] if x[0] != 'carried')
    if t[0] == 'call':
        n = T.call_name(t)
        recv = T.call_receiver(t) if t[1][0] == 'attr' else (t[2][0] if t[2] else None)
        kw = dict(t[3]).get('**')
        if n == '_constructor' and kw is not None and kw[0] == 'attr' and derived(kw[1], srcs):
            return True
        if n in carrying and recv is not None:
            return carries_term(recv, p, srcs, carrying)
    return False


def rule_carried(ctx, only=None):
    ctx.rule('R3', 'metadata carried by the propagating operations', 25 if only is None else len(only))
    P = ctx.P
    D = 'dimarray.core.dimarraycls.DimArray'
    ops = ['_getitem', 'compress', 'compress_axis', 'take_axis', 'cumsum', 'cumprod', 'diff', 'argmin', 'argmax', 'transpose', 'swapaxes', 'rollaxis',
           'repeat', 'newaxis', 'squeeze', 'broadcast', 'reshape', 'flatten', 'unflatten', 'reindex_axis', 'reindex_like', 'sort_axis', 'interp_axis',
           'interp_like', 'dropna', 'fillna', 'setna']
    carrying = set(ops) | {'take', 'put', '_setitem', 'apply_along_axis', 'copy', 'sum', 'mean', 'median', 'prod', 'std', 'var', 'min', 'max', 'ptp', 'all', 'any', 'T'}
    CARRY_NAMES.clear()
    CARRY_NAMES.update(carrying)
    fns = {}
    for name in (ops + ['_setitem'] if only is None else list(only)):
        try:
            fns[name] = P.method(D, name)
        except AnalysisError:
            m = P.lookup(P.cls(D), name)
            r = P.resolve_member(m) if m is not None else None
            if m is None:
                ctx.violated('R3', D, 'DimArray.' + name, 'operation vanished')
            elif r is not None and r[0] == 'numpydesc':
                # installed like sum / mean / std: a _NumpyDesc descriptor, i.e. apply_along_axis(self, <name>, ...) - whose result is checked below
                ctx.holds('R3', '%s: _NumpyDesc descriptor -> apply_along_axis (carries **obj.attrs)' % name)
            else:
                ctx.undecide('R3', 'DimArray.%s is no longer a plain function (installed in a form the rule does not follow)' % name)
    if only is None:
        fns['apply_along_axis'] = ctx.fn('dimarray.core.transform.apply_along_axis')
    for name, fi in sorted(fns.items()):
        ctx.functions.add(fi.qualname)
        src = P_(fi.params[0])
        bind = {}
        if 'inplace' in fi.params:
            bind['inplace'] = T.CONST_FALSE
        try:
            ev = run(ctx, fi, bind=bind, mode='join', max_paths=50000)
        except AnalysisError as e:
            ctx.undecide('R3', '%s: %s' % (name, e))
            continue
        bad = None
        n_arr = 0
        for p in ret_paths(ev):
            v = p.value
            # scalar / ndarray results are not DimArrays: skip values that are not object-typed
            alts = [strip(a) for a in T.value_alts(v) if a[0] != 'carried']
            arr_alts = [a for a in alts if a == src or (a[0] == 'call' and (T.call_name(a) in carrying or T.call_name(a) == '_constructor'))
                        or (a[0] == 'call' and a[1][0] == 'call')]
            if not arr_alts and not any(a[0] == 'call' for a in alts):
                continue
            okc, witness = returned_object_carries(p, fi, {src}, ctx, carrying)
            if okc:
                n_arr += 1
                continue
            # only DimArray-typed results matter: constructor calls and results of array operations; values[...] scalars,
            # tuples of labels and raw NumPy results are not DimArrays
            is_array_result = witness is not None and witness[0] == 'call' and (
                T.call_name(witness) in ('_constructor', 'DimArray', 'cls') or T.dotted(witness[1]) in ('da.DimArray',) or
                (T.call_name(witness) in carrying and not (T.dotted(witness[1]) or '').startswith(('np.', 'numpy.'))))
            if not is_array_result:
                continue
            bad = (p, witness)
            break
        if bad:
            p, w = bad
            ctx.violated('R3', fi, 'return ' + T.show(w)[:140], '%s must carry the metadata of the array: the returned object is built without **self.attrs / '
                         'attrs.update(self.attrs) and is not the result of another metadata-carrying operation on the array' % name, node=p.node)
        elif n_arr:
            ctx.holds('R3', name + ' carries attrs on %d returning path(s)' % n_arr)
        else:
            ctx.undecide('R3', '%s: no DimArray-typed return recognised' % name)
    if only is not None:
        return
    # the reductions are descriptors bound to apply_along_axis (C08-R2); T -> transpose (C10-R1)
    # percentile
    fi = ctx.fn('dimarray.lib.stats.percentile')
    A = P_('a')
    ev = run(ctx, fi, mode='join')
    # (a itself, or the array _deal_with_axis(a, axis) hands back: `a` unchanged, or a.flatten(...) for a tuple of dimensions, which carries the attrs - see 'flatten' above)
    GROUPED = ('item', ('call', ('name', '_deal_with_axis'), (A, P_('axis')), ()), 0)
    okp = any(T.call_name(e.a) == 'update' and e.a[2] in ((('attr', A, 'attrs'),), (('attr', GROUPED, 'attrs'),)) for p in ev.paths for e in p.calls('update'))
    if okp:
        ctx.holds('R3', 'percentile carries a.attrs')
    else:
        ctx.violated('R3', fi, 'percentile', 'percentile must carry the metadata of the array (results.attrs.update(a.attrs))')
    # the metadata channel: _constructor must not forward **metadata into __init__'s own keyword arguments
    fi = ctx.fn(D + '._constructor')
    ev = run(ctx, fi)
    META = P_('**metadata')
    for p in ret_paths(ev):
        ctor = [e.a for e in p.calls() if e.a[1] == P_('cls')]
        leak = [c for c in ctor if dict(c[3]).get('**') == META]
        upd = [e for e in p.calls('update') if e.a[2] == (META,)]
        if leak:
            ctx.violated('R3', fi, T.show(leak[0])[:120], 'metadata is forwarded as keyword arguments to DimArray.__init__: entries named like constructor arguments '
                         "(dtype, dims, labels, copy, ...) are swallowed - a.attrs['dtype'] = 'int16' makes transpose/sum/... cast the data; build the array, then "
                         'attrs.update(metadata)', node=p.node)
        elif not upd or strip(p.value) not in [T.call_receiver(e.a)[1] for e in upd if T.call_receiver(e.a)[0] == 'attr']:
            ctx.violated('R3', fi, '_constructor', '_constructor(values, axes, **metadata) must store the metadata in the attrs of the array it returns', node=p.node)
        else:
            ctx.holds('R3', '_constructor: cls(values, axes) then attrs.update(metadata)')
    import ast
    for f in P.functions.values():
        if f.file.startswith('dimarray/io') or f.file.startswith('dimarray/convert'):
            continue
        for node in ast.walk(f.node):
            if isinstance(node, ast.Call) and ast.unparse(node.func) in ('DimArray', 'da.DimArray', 'cls') and f.qualname != D + '._constructor':
                for k in node.keywords:
                    if k.arg is None and 'attrs' in ast.unparse(k.value):
                        ctx.violated('R3', f, node, 'metadata must not be passed as keyword arguments of the DimArray constructor', node=node)


def rule_not_carried(ctx):
    ctx.rule('R4', 'arithmetic, comparisons, stack, concatenate return arrays without operand metadata', 6)
    targets = [('dimarray.core.operation.operation', None), ('dimarray.core.dimarraycls.DimArray._unary_op', None), ('dimarray.core.dimarraycls.DimArray.__eq__', None),
               ('dimarray.core.dimarraycls.DimArray._cmp', None), ('dimarray.core.align.stack', None), ('dimarray.core.align.concatenate', None)]
    for q, _ in targets:
        fi = ctx.fn(q)
        ev = run(ctx, fi, mode='join', max_paths=50000)
        bad = None
        n = 0
        for p in ev.paths:
            for e in p.events:
                if e.kind == 'call':
                    c = e.a
                    kw = dict(c[3]).get('**')
                    if T.call_name(c) in ('_constructor', 'constructor', 'DimArray') or T.contains(c[1], P_('constructor')):
                        n += 1
                        if kw is not None and 'attrs' in T.show(kw):
                            bad = e
                        # values argument must not be a DimArray (whose attrs the constructor would copy)
                        if c[2] and c[2][0][0] == 'param' and c[2][0][1] in ('o1', 'o2', 'self', 'other'):
                            bad = e
                    if T.call_name(c) == 'update' and T.call_receiver(c)[0] == 'attr' and T.call_receiver(c)[2] in ('attrs', '_attrs') and 'attrs' in T.show(c[2]):
                        bad = e
        # a result obtained by copying an operand (copy(), copy.copy, deepcopy) carries - and may share - its metadata
        copied = None
        for p in ev.paths:
            if p.kind != 'return':
                continue
            for alt in T.value_alts(p.value):
                base = alt
                while base[0] in ('mut', 'setitem'):
                    base = base[1]
                if base[0] == 'call' and (T.call_name(base) in ('copy', 'deepcopy', '__copy__', '__deepcopy__')) and \
                        any(T.contains(base, P_(x)) for x in ('self', 'other', 'o1', 'o2')):
                    copied = (p, base)
        if copied is not None and bad is None:
            ctx.violated('R4', fi, 'result is a copy of an operand', '%s builds its result as %s: a copy of the operand keeps (a shallow one shares) the operand\'s attrs, but the results of '
                         'arithmetic / unary operators carry no metadata' % (q.rsplit('.', 1)[-1], T.show(copied[1])[:60]), node=copied[0].node)
            continue
        if bad:
            ctx.violated('R4', fi, bad.node, '%s must return an array without the operands\' metadata' % q.rsplit('.', 1)[-1], node=bad.node)
        elif n:
            ctx.holds('R4', q.replace('dimarray.', '') + ': %d constructor site(s) without metadata' % n)
        else:
            ctx.undecide('R4', '%s: no constructor site found' % q)
    # unary operators: every one is the metadata-free _unary_op over the NumPy function of the same name
    import ast
    om = ctx.P.cls('dimarray.core.bases.OpMixin')
    UNARY = {'__neg__': {'np.ndarray.__neg__', 'np.negative'}, '__pos__': {'np.ndarray.__pos__', 'np.positive'}, '__invert__': {'np.invert', 'np.ndarray.__invert__', 'np.bitwise_not'},
             '__abs__': {'np.abs', 'np.absolute', 'np.ndarray.__abs__'}}
    nun = 0
    for name, funcs in sorted(UNARY.items()):
        m = om.members.get(name)
        if m is None or m.kind != 'func':
            continue
        f = m.value
        ev = run(ctx, f)
        want = [('call', ('attr', P_('self'), '_unary_op'), (x,), ()) for x in ()]
        okv = True
        for p in ret_paths(ev):
            v = p.value
            good = v[0] == 'call' and T.call_name(v) == '_unary_op' and T.call_receiver(v) == P_('self') and len(v[2]) == 1 and (T.dotted(v[2][0]) or '') in funcs
            if not good:
                okv = False
                ctx.violated('R4', f, 'OpMixin.%s' % name, 'unary %s must be self._unary_op(<NumPy %s>): any other route (copy(), _constructor(..., **attrs)) hands back the '
                             'operand\'s metadata or another function\'s values; got %s' % (name, name.strip('_'), T.show(v)[:80]), node=f.node)
        if okv:
            nun += 1
            ctx.holds('R4', 'OpMixin.%s -> _unary_op(%s)' % (name, '|'.join(sorted(funcs))[:40]))
    if nun < 3:
        ctx.undecide('R4', 'expected the unary operators __neg__, __pos__, __invert__ on OpMixin, recognised %d' % nun)


def rule_axis_metadata(ctx):
    ctx.rule('R5', 'axis metadata survives slicing / reindexing of that axis', 3)
    for q in ('dimarray.core.axes.Axis.__getitem__', 'dimarray.core.axes.Axis.take'):
        fi = ctx.fn(q)
        ev = run(ctx, fi, mode='fork')
        n = 0
        bad = None
        for p in ret_paths(ev):
            v = p.value
            if v[0] == 'call' and T.call_name(v) == 'Axis':
                n += 1
                if dict(v[3]).get('**') not in (('attr', SELF, 'attrs'), ('attr', SELF, '_attrs')):
                    bad = p
        if bad:
            ctx.violated('R5', fi, 'return ' + T.show(bad.value)[:120], 'the sub-axis must be created with the metadata of the axis (**self.attrs)', node=bad.node)
        elif n:
            ctx.holds('R5', q.replace('dimarray.core.axes.', '') + ': Axis(..., **self.attrs)')
    # take(..., broadcast=True): NumPy-style broadcast of array and integer indices. When a single dimension is indexed by an array (the integers only
    # drop theirs) the result axis is that axis, indexed - it must come from the Axis object (obj.axes[i][ix] keeps **attrs), not be rebuilt from bare labels
    fb = ctx.fn('dimarray.core.indexing.getaxes_broadcast')
    OBJ = P_('obj')
    evb = run(ctx, fb, mode='fork', max_paths=20000)
    single = 0
    badb = None
    for p in ret_paths(evb):
        one = [pol for a, pol in p.guards if a[0] == 'cmp' and a[1] == '==' and a[3] == const(1) and T.call_name(a[2]) == 'len']
        if one != [True]:
            continue
        for e in p.calls('insert'):
            if len(e.a[2]) != 2:
                continue
            x = e.a[2][1]
            single += 1
            from_axis = (x[0] == 'sub' and x[1][0] == 'sub' and x[1][1] == ('attr', OBJ, 'axes')) or \
                (x[0] == 'call' and T.call_name(x) in ('take', '__getitem__') and T.contains(x, ('attr', OBJ, 'axes')))
            with_attrs = x[0] == 'call' and T.call_name(x) == 'Axis' and dict(x[3]).get('**') is not None and 'attrs' in T.show(dict(x[3]).get('**'))
            if not (from_axis or with_attrs) and badb is None:
                badb = (p, x)
    if badb is not None:
        ctx.violated('R5', fb, 'broadcast axis = ' + T.show(badb[1])[:100], 'with broadcast=True and one array index next to integer indices, the indexed axis is rebuilt as Axis(labels, name): '
                     'its metadata is lost (a.take(([10, 20], \'a\'), broadcast=True).axes[\'x\'].attrs == {}) although the same selection without broadcast keeps it',
                     node=badb[0].node)
    elif single:
        ctx.holds('R5', 'getaxes_broadcast: a single array-indexed axis is taken from the Axis object (metadata kept)')
    else:
        ctx.undecide('R5', 'getaxes_broadcast: the single-array branch (len(array_ix_pos) == 1) was not found')
    for q in ('dimarray.core.axes.Axis.cast', 'dimarray.core.axes.Axis.union', 'dimarray.core.axes.Axis.intersection'):
        fi = ctx.fn(q)
        ev = run(ctx, fi, mode='join')
        okk = any(T.call_name(e.a) == 'update' and 'attrs' in T.show(e.a[2][0]) for p in ev.paths for e in p.calls('update') if e.a[2])
        if okk:
            ctx.holds('R5', q.replace('dimarray.core.axes.', '') + ' keeps self.attrs')
        else:
            ctx.violated('R5', fi, q.rsplit('.', 1)[-1], 'the merged / cast axis keeps the metadata of the first axis')


def check(ctx):
    rule_routing(ctx)
    rule_attrs_property(ctx)
    rule_carried(ctx)
    rule_not_carried(ctx)
    rule_axis_metadata(ctx)
    # axis metadata through reindexing: the result's axis is the array's own (taken, then relabelled where labels were missing), never the argument's Axis
    # object - the pipeline rule of C07
    from . import c07
    ctx.rule('R6', 'reindex_axis keeps the array\'s own axis object lineage (pipeline rule shared with C07)', 1)
    c07.rule_pipeline(ctx, rid='R6')
    # ... and through the Dataset variants (Dataset.reduce_axis builds the transformed axis): rule shared with C14
    from . import c14
    from ..report import Renamed
    c14.rule_reduce_axis(Renamed(ctx, {'*': 'R7'}))
    # Dataset.reindex_axis keeps the axis object (and with it its metadata) of the axis it relabels: sibling cross-check shared with C14
    ctx.rule('R8', 'Dataset.reindex_axis relabels the existing axis (shared with C14)', 2)
    c14.rule_reindex(Renamed(ctx, {'*': 'R8'}))
    ctx.not_decided += ['semantics of dict.update (trusted)', 'Dataset-level propagation (decided under C14-R5)']
    ctx.trusted += ['dict.update copies all entries', 'hasattr(cls, name) is what "class member" means']
    return EXPLANATION
