"""C17 - axis-wise selection and missing-value handling keep slices with their labels (structural clauses).

  R1 sort_axis          the permutation is the argsort of the labels of the resolved axis (or of key(label)), always applied with
                        take_axis(ii, axis=axis, indexing='position'); there is no other way out of the function
  R2 take / compress    take_axis (see C07-R3) and compress_axis select values and labels with the same index along the same resolution
  R3 dropna threshold   the complement is flattened at k, NaNs counted along k, slice size read from axes[k] of the same array; kept labels are
                        `count <= size - minvalid` (minvalid None -> no NaN allowed, tested with `is None`); 1-D uses the negated NaN mask
  R4 fillna / setna     put(mask, value, cast=True, inplace=inplace) with mask and value in their slots, inplace defaults to False; _matches is
                        total over boolean array / iterable / scalar
"""
from .. import terms as T
from ..terms import const
from ..rules import P_, run, ret_paths, raise_paths, exc_name, bind_call_args, default_of
from ..loader import AnalysisError

EXPLANATION = (
    "Structural clauses of C17: provenance and index-kind rules for sort_axis / compress_axis / take_axis (one axis token, POSITION kind, single exit), the "
    "affine form and comparator of the dropna threshold with the counted axis and the size read from the same position, and the option plumbing of "
    "fillna / setna / _matches. Which labels survive for a given NaN pattern is a value-level question and is not decided.")

SELF = P_('self')
MV = 'dimarray.core.missingvalues.'


def rule_sort_axis(ctx):
    ctx.rule('R1', 'sort_axis', 2)
    fi = ctx.fn('dimarray.core.align.sort_axis')
    A, AXIS, KEY, KIND = P_('a'), P_('axis'), P_('key'), P_('kind')
    labels = ('attr', ('sub', ('attr', A, 'axes'), AXIS), 'values')
    ev = run(ctx, fi)
    n = 0
    for p in ev.paths:
        if p.kind == 'raise':
            continue
        v = p.value
        ok = v[0] == 'call' and v[1] == ('attr', A, 'take_axis') and len(v[2]) == 1 and T.kw(v, 'axis') == AXIS and T.kw(v, 'indexing') == const('position')
        if not ok:
            ctx.violated('R1', fi, 'return ' + T.show(v)[:140], "every exit of sort_axis must be a.take_axis(ii, axis=axis, indexing='position') with ii the sorting permutation "
                         "of that axis' labels; a short-cut that returns the array unsorted (e.g. for 'monotonic' axes, which includes decreasing ones) breaks the ascending order",
                         node=p.node, witness=['guards: ' + ', '.join('%s=%s' % (T.show(a)[:70], b) for a, b in p.guards)])
            continue
        ii = v[2][0]
        none = [pol for a, pol in p.guards if a == T.mkcmp('is', KEY, T.CONST_NONE)]
        if none == [True]:
            good = ii == ('call', ('attr', labels, 'argsort'), (), (('kind', KIND),)) or ii == ('call', ('attr', labels, 'argsort'), (), ())
            why = 'without key the permutation is the argsort of the labels of the resolved axis (ascending)'
        else:
            good = ii[0] == 'call' and T.call_name(ii) == 'argsort' and ii[2] and ii[2][0] == labels and len(ii[2]) == 2
            why = 'with a key the permutation is argsort(labels, key)'
        if not good:
            ctx.violated('R1', fi, 'ii = ' + T.show(ii)[:140], why, node=p.node)
            continue
        n += 1
    if n:
        ctx.holds('R1', 'sort_axis: single exit through take_axis(argsort(labels[, key]), axis, indexing=position) on %d paths' % n)
    # argsort helper: ascending by key
    fa = ctx.fn('dimarray.core.align.argsort')
    ev = run(ctx, fa, mode='join')
    okk = False
    evf = run(ctx, fa, mode='fork')
    for p in ret_paths(evf):
        for v in T.value_alts(p.value):
            if v[0] == 'call' and T.dotted(v[1]) == 'sorted' and T.kw(v, 'reverse') in (None, T.CONST_FALSE) and T.kw(v, 'key') is not None:
                okk = True if okk is not None else None
            elif any(x[0] == 'call' and T.dotted(x[1]) == 'sorted' and T.kw(x, 'reverse') in (None, T.CONST_FALSE) for x in T.subterms(v)) and \
                    not any(x[0] == 'call' and (T.dotted(x[1]) or '').startswith('np.') for x in T.subterms(v)):
                # Python's sorted() is what orders, but of something else than the positions (label / position pairs, ...), mapped back afterwards: whether the
                # mapping gives each label its own position again is a value-level question (repeated labels) this clause does not answer
                ctx.undecide('R1', 'argsort helper sorts with sorted() in a form the rule does not know: %s' % T.show(v)[:100])
                okk = None
            else:
                # keys gathered into an ndarray and sorted by NumPy: sequence-valued keys (tuples) become a 2-D array, str / mixed keys change their ordering
                ctx.violated('R1', fa, 'argsort helper not through sorted()', 'the helper behind sort_axis(key=) must order the positions with Python\'s sorted(range(len(seq)), key=...): '
                             'got %s (keys coerced into an ndarray break for tuple-valued keys)' % T.show(v)[:80], node=p.node)
                okk = None
    if okk is None:
        pass
    elif okk:
        ctx.holds('R1', 'argsort helper: sorted(range(len(seq)), key=...) ascending')
    else:
        ctx.violated('R1', fa, 'argsort', 'the pure-python argsort must sort positions ascending by key(label)')


def rule_compress(ctx):
    ctx.rule('R2', 'compress_axis / take_axis coherence', 1)
    fi = ctx.method('dimarray.core.dimarraycls.DimArray', 'compress_axis')
    BOOL, AXIS = P_('boolarray'), P_('axis')
    gai = ('call', ('attr', SELF, '_get_axis_info'), (AXIS,), ())
    pos, dim = ('item', gai, 0), ('item', gai, 1)
    ev = run(ctx, fi)
    for p in ret_paths(ev):
        cons = [e.a for e in p.calls('_constructor')]
        if len(cons) != 1:
            ctx.violated('R2', fi, 'constructor', 'compress_axis must build one result', node=p.node)
            continue
        vals, axes = cons[0][2]
        okv = vals[0] == 'call' and T.call_name(vals) == 'compress' and T.call_receiver(vals) in (('attr', SELF, 'values'), ('attr', SELF, '_values')) \
            and vals[2][:1] == (BOOL,) and T.kw(vals, 'axis') == pos
        if not okv:
            ctx.violated('R2', fi, 'values = ' + T.show(vals)[:140], 'values.compress(boolarray, axis=pos) with pos resolved from `axis`', node=p.node)
            continue
        newax = ('sub', ('sub', ('attr', SELF, 'axes'), pos), BOOL)
        oka = axes[0] == 'comp' and axes[2][0] == 'ifexp' and axes[2][2] == newax and axes[2][3] == ('elem', ('attr', SELF, 'axes'), axes[3][0][0]) \
            and axes[2][1] == T.mkcmp('==', ('attr', axes[2][3], 'name'), dim)            # canonical: ifexp(a == b, when equal, otherwise)
        if not oka:
            ctx.violated('R2', fi, 'axes = ' + T.show(axes)[:160], 'the compressed axis is self.axes[pos][boolarray] (same mask, same position), placed by the name of the same resolution',
                         node=p.node)
            continue
        ctx.holds('R2', 'compress_axis: values.compress(mask, axis=pos), axes[pos][mask]')
    from . import c07
    c07.rule_take_axis(ctx)
    ctx.rules['R2']['instances'] += 0


def rule_dropna(ctx):
    ctx.rule('R3', 'dropna threshold', 3)
    fi = ctx.fn(MV + 'dropna')
    AXIS, MINV, NA = P_('axis'), P_('minvalid'), P_('na')
    gai = ('call', ('attr', SELF, '_get_axis_info'), (AXIS,), ())
    idx, name = ('item', gai, 0), ('item', gai, 1)
    # N-d
    oracle = lambda a, st: (False if (a[0] == 'cmp' and a[1] == '==' and a[2] == ('attr', SELF, 'ndim') and a[3] == const(1)) else None)
    ev = run(ctx, fi, oracle=oracle)
    seen_none, seen_given = False, False
    from ..rules import alternatives

    class _VP(object):          # a returning path with one resolution of the conditional expressions in its value
        def __init__(self, p, value, extra):
            self.value, self.guards, self.node, self._p = value, tuple(p.guards) + tuple(extra), p.node, p

        def calls(self, name=None):
            return self._p.calls(name)
    for p in [_VP(p, v, extra) for p in ret_paths(ev) for v, extra in alternatives(p.value)]:
        v = p.value
        if not (v[0] == 'call' and v[1] == ('attr', SELF, 'compress_axis') and T.kw(v, 'axis') == idx and len(v[2]) == 1):
            ctx.violated('R3', fi, 'return ' + T.show(v)[:140], 'dropna must select whole slices with compress_axis(mask, axis=idx) along the resolved axis', node=p.node)
            continue
        mask = v[2][0]
        # nans = _isnan(self, na).flatten([dims != name], insert=k)
        fl = [e.a for e in p.calls('flatten')]
        if len(fl) != 1:
            ctx.violated('R3', fi, 'flatten step', 'the other dimensions must be grouped into one axis', node=p.node)
            continue
        fl = fl[0]
        k = T.kw(fl, 'insert')
        nans_src = T.call_receiver(fl)
        okf = k is not None and k[0] == 'const' and nans_src == ('call', ('name', '_isnan'), (SELF,), (('na', NA),)) and fl[2] and fl[2][0][0] == 'comp' \
            and fl[2][0][3][0][1] == ('attr', SELF, 'dims') and fl[2][0][3][0][2] == (T.mkcmp('!=', fl[2][0][2], name),)
        if not okf:
            ctx.violated('R3', fi, T.show(fl)[:140], 'the NaN mask of the array is flattened over all dimensions except the resolved one, at a constant position k', node=p.node)
            continue
        count = ('call', ('attr', fl, 'sum'), (), (('axis', k),))
        size = ('attr', ('sub', ('attr', fl, 'axes'), k), 'size')
        none = [pol for a, pol in p.guards if a == T.mkcmp('is', MINV, T.CONST_NONE)]
        if not none:
            truthy = [a for a, pol in p.guards if a == MINV]
            ctx.violated('R3', fi, 'minvalid test', 'the default must be recognised with `minvalid is None`: a truthiness test treats an explicit minvalid=0 (keep every label) '
                         'like the default (no NaN allowed)', node=p.node, witness=['guards: ' + ', '.join('%s=%s' % (T.show(a)[:60], b) for a, b in p.guards)])
            continue
        if none == [True]:
            want = T.mkcmp('<=', count, const(0))
            seen_none = True
        else:
            want = T.mkcmp('<=', count, ('binop', '-', size, MINV))
            seen_given = True
        if mask != want:
            alt_ok = mask[0] == 'cmp' and mask[1] == '<=' and mask[2] == count and T.affine_eq(mask[3], want[3])
            if not alt_ok:
                ctx.violated('R3', fi, 'mask = ' + T.show(mask)[:160], 'kept labels: number of NaNs counted along the grouped axis k <= (size of that same axis k) - minvalid '
                             '(0 when minvalid is None); expected %s' % T.show(want)[:120], node=p.node)
                continue
    if seen_none and seen_given:
        ctx.holds('R3', 'dropna N-d: count(axis=k) <= axes[k].size - minvalid; default: no NaN allowed')
        ctx.holds('R3', 'dropna: default recognised by `minvalid is None`')
    # 1-D
    ev = run(ctx, fi, oracle=lambda a, st: (True if (a[0] == 'cmp' and a[1] == '==' and a[2] == ('attr', SELF, 'ndim') and a[3] == const(1)) else None))
    for p in ret_paths(ev):
        v = p.value
        want = ('sub', SELF, ('unop', '~', ('call', ('name', '_isnan'), (('attr', SELF, 'values'),), (('na', NA),))))
        if v != want:
            ctx.violated('R3', fi, 'return ' + T.show(v)[:120], '1-D: keep the cells that are not NaN (self[~isnan(values)])', node=p.node)
        else:
            ctx.holds('R3', 'dropna 1-D: self[~_isnan(self.values)]')
    # _isnan
    f = ctx.fn(MV + '_isnan')
    ev = run(ctx, f)
    from ..rules import alternatives
    na_is_nan = ('call', ('attr', ('name', 'np'), 'isnan'), (P_('na'),), ())
    cases = [(v, tuple(p.guards) + tuple(g)) for p in ret_paths(ev) for v, g in alternatives(p.value)]
    want_nan, want_eq = ('call', ('attr', ('name', 'np'), 'isnan'), (P_('a'),), ()), T.mkcmp('==', P_('a'), P_('na'))
    oki = any(v == want_nan and (na_is_nan, True) in g for v, g in cases) and any(v == want_eq and (na_is_nan, False) in g for v, g in cases) \
        and all(v in (want_nan, want_eq) for v, g in cases)
    if not oki:
        ctx.violated('R3', f, '_isnan', '_isnan(a, na) is np.isnan(a) for na=NaN and a == na otherwise')


def rule_fill(ctx):
    ctx.rule('R4', 'fillna / setna / _matches', 3)
    for name, maskfn, valp in (('fillna', '_isnan', 'value'), ('setna', '_matches', 'na')):
        fi = ctx.fn(MV + name)
        d = default_of(fi, 'inplace')
        if d != T.CONST_FALSE:
            ctx.violated('R4', fi, 'def %s(inplace=%s)' % (name, T.show(d) if d else '?'), '%s returns a modified copy by default (inplace=False)' % name)
        ev = run(ctx, fi)
        for p in ev.paths:
            v = p.value
            ok = p.kind == 'return' and v[0] == 'call' and v[1] == ('attr', SELF, 'put') and len(v[2]) == 2 and v[2][1] == P_(valp) \
                and T.kw(v, 'cast') == T.CONST_TRUE and T.kw(v, 'inplace') == P_('inplace')
            if ok:
                m = v[2][0]
                if name == 'fillna':
                    ok = m == ('call', ('name', '_isnan'), (('attr', SELF, 'values'),), (('na', P_('na')),))
                else:
                    ok = m == ('call', ('name', '_matches'), (('attr', SELF, 'values'), P_('value')), ())
            if not ok:
                ctx.violated('R4', fi, 'return ' + T.show(v)[:140], '%s must be self.put(<mask of the cells to change>, <replacement>, cast=True, inplace=inplace)' % name, node=p.node)
            else:
                ctx.holds('R4', name + ': put(mask, replacement, cast=True, inplace=inplace)')
    fi = ctx.fn(MV + '_matches')
    A, VAL = P_('a'), P_('value')
    ev = run(ctx, fi)
    kinds = {}
    for p in ret_paths(ev):
        v = p.value
        isb = [pol for a, pol in p.guards if a[0] == 'call' and T.call_name(a) == 'is_boolean_array']
        it = [pol for a, pol in p.guards if a[0] == 'call' and T.dotted(a[1]) == 'np.iterable']
        if isb == [True]:
            kinds['bool'] = v == ('call', ('attr', ('name', 'np'), 'asarray'), (VAL,), ())
        elif it == [True]:
            # the mask must have the array's shape for *every* sequence of values, the empty one included: np.any([...], axis=0) of an empty list is the
            # scalar False, which put() then takes for the label 0; an accumulation starting from an all-False mask of a's shape is what is needed
            alts = T.value_alts(v)
            scalar_for_empty = any(x[0] == 'call' and T.dotted(x[1]) in ('np.any', 'np.logical_or.reduce') and x[2] and x[2][0][0] in ('comp', 'list') for x in alts)
            seeded = any(x[0] == 'call' and T.dotted(x[1]) in ('np.zeros', 'np.zeros_like', 'np.full', 'np.full_like') and T.contains(x, A) for y in alts for x in T.subterms(y))
            member = any(x[0] == 'call' and T.call_name(x) == '_matches' and x[2][:1] == (A,) and x[2][1][0] == 'elem' and x[2][1][1] == VAL for y in alts for x in T.subterms(y))
            if scalar_for_empty:
                kinds['iterable'] = 'scalar for an empty sequence'
            else:
                def is_member(x):
                    return x[0] == 'call' and T.call_name(x) == '_matches' and x[2][:1] == (A,) and x[2][1][0] == 'elem' and x[2][1][1] == VAL
                ored = any((x[0] == 'binop' and x[1] == '|' and (is_member(x[2]) or is_member(x[3]))) or
                           (x[0] == 'call' and T.dotted(x[1]) == 'np.logical_or' and any(is_member(y) for y in x[2]))
                           for y in alts for x in T.subterms(y))
                kinds['iterable'] = bool(seeded and member and ored)
                # the same accumulation written as functools.reduce(lambda acc, v: acc | _matches(a, v), value, <all-False mask of a's shape>)
                for y in alts:
                    if y[0] == 'call' and T.dotted(y[1]) in ('functools.reduce', 'reduce') and len(y[2]) == 3 and y[2][1] == VAL and y[2][0][0] == 'lambda' and y[2][0][1] == 2:
                        body, seed = y[2][0][2], y[2][2]
                        seed_ok = seed[0] == 'call' and T.dotted(seed[1]) in ('np.zeros', 'np.zeros_like', 'np.full', 'np.full_like') and T.contains(seed, A)
                        bvs = [x for x in T.subterms(body) if x[0] == 'bv']
                        acc = [x for x in bvs if x[2] == 0]
                        mem = [x for x in T.subterms(body) if x[0] == 'call' and T.call_name(x) == '_matches' and x[2][:1] == (A,) and x[2][1][0] == 'bv' and x[2][1][2] == 1]
                        body_ok = (body[0] == 'binop' and body[1] == '|' and ((body[2] in acc and body[3] in mem) or (body[3] in acc and body[2] in mem))) or \
                            (body[0] == 'call' and T.dotted(body[1]) == 'np.logical_or' and len(body[2]) == 2 and set(body[2]) <= set(acc + mem) and acc and mem)
                        if seed_ok and body_ok:
                            kinds['iterable'] = True
        else:
            kinds['scalar'] = v == T.mkcmp('==', A, VAL)
    if kinds == {'bool': True, 'iterable': True, 'scalar': True}:
        ctx.holds('R4', '_matches total: boolean array / iterable (any over members) / scalar (a == value)')
    else:
        if kinds.get('iterable') == 'scalar for an empty sequence':
            ctx.violated('R4', fi, '_matches of an empty sequence', 'for a list / tuple of values the mask is np.any([_matches(a, v) for v in value], axis=0): for an empty sequence that is the scalar '
                         'False, not an all-False mask, and setna([]) hands it to put() as the *label* False == 0 - the slice labelled 0 is set to NaN (or IndexError)')
        else:
            ctx.violated('R4', fi, '_matches', '_matches must handle a boolean mask (as is), an iterable (any of the members) and a scalar (a == value): %s' % kinds)
    # is_boolean_array: the mask test behind _matches accepts NumPy *and* DimArray masks (a.setna(a > 1)) of bool dtype, and nothing else
    from ..rules import truth
    fb = ctx.fn(MV + 'is_boolean_array')
    evb = run(ctx, fb)
    VB = P_(fb.params[0])
    rpaths = list(ret_paths(evb))
    rb = [p.value for p in rpaths]
    if not rb:
        ctx.undecide('R4', 'is_boolean_array: no returning path')
    else:
        table = {'bool ndarray': (True, False, True, True), 'bool DimArray': (False, True, True, True), 'int ndarray': (True, False, False, False),
                 'float DimArray': (False, True, False, False), 'list / scalar': (False, False, None, False)}
        okb = True
        for inst, (is_nd, is_da, is_bool, want) in table.items():
            def decide(atom, is_nd=is_nd, is_da=is_da, is_bool=is_bool):
                sh = T.show(atom)
                if atom[0] == 'call' and T.dotted(atom[1]) == 'isinstance' and atom[2][0] == VB:
                    ty = atom[2][1]
                    names = [T.dotted(x) for x in (ty[1] if ty[0] == 'tuple' else [ty])]
                    r = False
                    if any(n in ('np.ndarray', 'numpy.ndarray') for n in names):
                        r = r or is_nd
                    if any(n in ('DimArray', 'da.DimArray', 'AbstractDimArray') for n in names):
                        r = r or is_da
                    return r
                if atom[0] == 'call' and T.call_name(atom) == 'is_DimArray' and atom[2] == (VB,):
                    return is_da
                if 'dtype' in sh and T.contains(atom, VB):
                    return is_bool          # None for objects without dtype: must not be reached
                if atom[0] == 'call' and T.dotted(atom[1]) == 'hasattr' and atom[2][:1] == (VB,):
                    return is_nd or is_da
                return None
            if len(rpaths) == 1:
                got = truth(rb[0], decide)
            else:
                # several returns (guard clauses): the answer of the one path whose guards hold for this kind of argument
                live = []
                for p_ in rpaths:
                    gs = [(truth(a_, decide), pol_) for a_, pol_ in p_.guards]
                    if any(t_ is not None and t_ != pol_ for t_, pol_ in gs):
                        continue
                    live.append((p_, all(t_ is not None for t_, _ in gs)))
                got = None
                if len(live) == 1 and live[0][1]:
                    v_ = live[0][0].value
                    got = v_[1] if v_[0] == 'const' and isinstance(v_[1], bool) else truth(v_, decide)
            if got is None:
                ctx.undecide('R4', 'is_boolean_array(%s): %s not evaluable' % (inst, ' | '.join(T.show(x)[:60] for x in rb)[:140]))
                okb = False
            elif got != want:
                ctx.violated('R4', fb, 'is_boolean_array(%s)' % inst, 'is_boolean_array answers %s for a %s (expected %s): %s' % (
                    got, inst, want, 'a boolean DimArray mask such as `a > 1` is then iterated as a list of values by _matches' if want else 'a non-boolean array is used as a mask'),
                    node=fb.node)
                okb = False
        if okb:
            ctx.holds('R4', 'is_boolean_array: ndarray | DimArray, bool dtype only (5-row table)')
    for name in ('fillna', 'setna', 'dropna'):
        m = ctx.P.lookup(ctx.P.cls('dimarray.core.dimarraycls.DimArray'), name)
        r = ctx.P.resolve_member(m)
        if not (r[0] == 'func' and r[1].qualname == MV + name):
            ctx.violated('R4', 'dimarray.core.dimarraycls.DimArray', 'DimArray.' + name, 'DimArray.%s must be missingvalues.%s' % (name, name))


def check(ctx):
    rule_sort_axis(ctx)
    rule_compress(ctx)
    rule_dropna(ctx)
    rule_fill(ctx)
    # a tuple of dimensions is grouped by flatten(dims, insert=0) before the function is applied: flatten's order / splice / progress rules (C11)
    from . import c11
    from ..report import Renamed
    ctx.rule('R8', 'flatten (grouping of a tuple of dimensions): contiguity guard, shared insertion point, C-order reshape', 2)
    c11.rule_flatten(Renamed(ctx, {'*': 'R8'}))
    # the NaN fill promotes integer data (signed or unsigned) to float: widening table of _maybe_cast_type (shared with C03)
    from . import c03 as _c03
    from ..report import Renamed as _RenW
    _c03.rule_widening(_RenW(ctx, {'*': 'R9'}))
    # setna / fillna write through put(cast=True): the writers store the widened array they write into (shared with C03)
    ctx.rule('R10', 'put writers: cast discipline, stores to _values only (shared with C03)', 6)
    _c03.rule_writers(_RenW(ctx, {'*': 'R10'}))
    ctx.not_decided += ['which labels survive for a given NaN pattern (value level)', 'stability of argsort for equal labels']
    ctx.trusted += ['ndarray.argsort sorts ascending', 'ndarray.compress / take semantics']
    return EXPLANATION
