"""C12 - stack and concatenate join arrays without misaligning them (structural clauses).

  R1 alignment safeguard   stack: the join is accompanied by _get_axes(*arrays) on the very list that is joined, whose ValueError is re-raised;
                           _get_axes compares by name and only replaces its reference axis by a longer one when the reference is a singleton;
                           concatenate: (align, _no_check) table - check loop raising ValueError, or align_(axis=name, strict=True) per secondary
                           axis; _no_check=True only from concatenate_ds
  R2 dims-order agreement  the list whose .values are joined positionally is the dims-normalised list (transposed by name to the first array's
                           order), and it is the same list the axes are taken from
  R3 placement coherence   stack: new axis first on both sides, keys label it; concatenate: np.concatenate(axis=k), [a.axes[k] ...] and
                           subaxes[:k] + [new] + subaxes[k:] share k; _concatenate_axes requires one common name
  R4 new-axis name         _check_stack_axis raises for an existing name and for int
  R5 input forms           list, tuple and dict inputs all reach the normal exit of _check_stack_args
  R6 environment           NumPy names on the align=True path resolve
"""
from .. import terms as T
from ..terms import const
from ..rules import P_, run, ret_paths, raise_paths, exc_name, bind_call_args, default_of
from ..loader import AnalysisError
from .. import npapi

EXPLANATION = (
    "Structural clauses of C12: guard/companion analysis of stack and concatenate (the alignment safeguard runs on the list that is joined and its error "
    "is re-raised; the list whose values are joined positionally is the one that was normalised by dimension name and the one the axes come from), the "
    "reference-axis update rule of _get_axes, position coherence between values and axes, the (align, _no_check) decision table of concatenate, and the "
    "input-form table of _check_stack_args. Slice-by-slice equality with the inputs is not decided.")

AL = 'dimarray.core.align.'
ARR, KEYS, AXIS = P_('arrays'), P_('keys'), P_('axis')


def normalised(term, base_pred=None):
    """is `term` a by-name normalisation of a list: [a if <same dims or different sets> else a.transpose(L[0].dims) for a in L] -> L"""
    if term[0] == 'comp' and term[2][0] == 'ifexp':
        lid, src, conds = term[3][0]
        el = ('elem', src, lid)
        c, a, b = term[2][1], term[2][2], term[2][3]
        for first in (('sub', src, const(0)), ('item', src, 0)):          # L[0] of a list term / of a call result
            first_dims = ('attr', first, 'dims')
            tr = ('call', ('attr', el, 'transpose'), (first_dims,), ())
            if a == el and b == tr and T.contains(c, ('attr', el, 'dims')) and T.contains(c, first_dims):
                return src
            if b == el and a == tr:
                return src
    return None


def rule_stack(ctx):
    """R1-R3 for stack(): the structural reading below knows one way of writing it; when it complains, the interpretation of stack() on abstract arrays decides (same
    and differing labels - also on singleton dimensions -, permuted and rotated dimension orders, dict / tuple inputs, align=True)."""
    from ..report import on_trial
    for rid, desc, n in (('R1', 'alignment safeguard', 1), ('R2', 'dims-order agreement before a positional join', 1), ('R3', 'placement coherence', 1)):
        ctx.rule(rid, desc, n)
    on_trial(ctx, _rule_stack_structural, [AL + 'stack'], ('R1', 'R2', 'R3'), 'stack')


def rule_concatenate(ctx):
    """the same for concatenate()"""
    from ..report import on_trial
    on_trial(ctx, _rule_concatenate_structural, [AL + 'concatenate'], ('R1', 'R2', 'R3'), 'concatenate')


def _by_scenarios(ctx, q, done):
    """The values are collected / the inputs brought to a common dimension order in a form the structural clauses do not read (a helper per input, a list that is
    rebuilt step by step ...): whether inputs with the same dimensions in another order are matched by name, and what the result's axes are, is read off the
    interpreted scenarios of the function (second / first input with permuted dimensions, 3-d with permuted secondary dimensions, differing labels with and without
    align=True, tuple / dict inputs)"""
    if q in done:
        return
    done.add(q)
    from ..scenario_rule import rule_scenarios
    for rid, what in (('R2', 'dims-order agreement before a positional join'), ('R3', 'placement coherence')):
        rule_scenarios(ctx, rid, only=q, title='%s (%s: interpreted scenarios)' % (what, q.rsplit('.', 1)[-1]))


def _rule_stack_structural(ctx):
    own_check = [False]
    done = set()
    ctx.rule('R1', 'alignment safeguard', 5)
    ctx.rule('R2', 'dims-order agreement before a positional join', 2)
    ctx.rule('R3', 'placement coherence', 2)
    fi = ctx.fn(AL + 'stack')
    csa = ('call', ('name', '_check_stack_args'), (ARR, KEYS), ())
    L0, K0 = ('item', csa, 0), ('item', csa, 1)

    def oracle(atom, st):
        if atom[0] == 'call' and T.dotted(atom[1]) == 'isinstance' and atom[2][0] == AXIS:
            return False
        if atom[0] == 'call' and T.call_name(atom) == 'is_DimArray':
            return True
        return None
    for align in (False, True):
        ev = run(ctx, fi, bind={'align': const(align)}, oracle=oracle)
        rets = ret_paths(ev)
        ctx.require('R1', rets, 'stack has no returning path')
        for p in rets:
            if any(a[0] == 'tryfail' for a, _ in p.guards):
                ctx.violated('R1', fi, 'except branch returns', 'a failing alignment check must not be swallowed: the except branch of stack returns a result', node=p.node)
                continue
            v = p.value
            if not (v[0] == 'call' and T.call_name(v) == '_constructor' and len(v[2]) >= 1):
                ctx.violated('R3', fi, 'return ' + T.show(v)[:100], 'stack must build constructor(data, axes=newaxes)', node=p.node)
                continue
            data = v[2][0]
            newaxes = T.kw(v, 'axes') if len(v[2]) < 2 else v[2][1]
            if v[3] and any(k == '**' for k, _ in v[3]):
                ctx.violated('R3', fi, 'return', 'stack does not carry operand metadata', node=p.node)
            # data = np.array([a.values for a in LIST])
            ok = data[0] == 'call' and T.dotted(data[1]) == 'np.array' and data[2] and data[2][0][0] == 'comp' and \
                data[2][0][2] == ('attr', ('elem', data[2][0][3][0][1], data[2][0][3][0][0]), 'values') and not data[2][0][3][0][2]
            if not ok:
                _by_scenarios(ctx, AL + 'stack', done)
                continue
            joined = data[2][0][3][0][1]
            src = normalised(joined)
            if src is None:
                _by_scenarios(ctx, AL + 'stack', done)
                continue
            want_src = ('call', ('name', 'align_'), (L0,), (('**', ('setitem', P_('**kwargs'), const('strict'), T.CONST_TRUE)),)) if align else L0
            if src != want_src:
                ctx.violated('R1' if align else 'R2', fi, 'joined list = ' + T.show(src)[:140], 'with align=%s the joined list must be %s' % (
                    align, 'the result of align_(arrays, strict=True, **kwargs)' if align else 'the checked input list'), node=p.node)
                continue
            ga = [e.a for e in p.calls('_get_axes')]
            if len(ga) != 1 or ga[0][2] != (('star', joined),):
                ctx.violated('R1', fi, '_get_axes call', 'the alignment check _get_axes must run on exactly the list whose values are joined', node=p.node)
                continue
            want_axes = ('binop', '+', ('list', (('call', ('name', 'Axis'), (K0, ('call', ('name', '_check_stack_axis'), (AXIS, ('call', ('name', 'get_dims'), (('star', L0),), ())), ())), ()),)), ga[0])
            if newaxes != want_axes:
                ctx.violated('R3', fi, 'newaxes = ' + T.show(newaxes)[:160], 'result axes: the new axis (labelled by keys, named by the checked axis name) first, then the '
                             'common axes from _get_axes', node=p.node)
                continue
            ctx.holds('R1', 'stack(align=%s): _get_axes on the joined list, error re-raised' % align)
            ctx.holds('R2', 'stack(align=%s): joined list normalised by dimension name' % align)
            ctx.holds('R3', 'stack(align=%s): new axis first on both sides' % align)
        # _get_axes is written for broadcasting: it lets every size-1 axis through without comparing its label.  stack() positions the inputs
        # side by side, so two inputs with different labels on a singleton dimension must be refused as well (unless aligned first)
        ga_fn = ctx.fn(AL + '_get_axes')
        evg = run(ctx, ga_fn, mode='fork')
        escape = any(exc_name(q.value) == 'ValueError' and any(a[0] == 'cmp' and a[1] == '==' and a[3] == const(1) and 'size' in T.show(a[2]) and pol is False for a, pol in q.guards)
                     for q in raise_paths(evg))
        if escape:
            own = [q for q in raise_paths(ev) if exc_name(q.value) == 'ValueError' and any(
                any(x[0] == 'call' and T.call_name(x) == '_get_axes' for x in T.subterms(a)) and any(x[0] == 'cmp' and x[1] in ('==', '!=') for x in T.subterms(a)) for a, pol in q.guards)]
            if own:
                own_check[0] = True
                ctx.holds('R1', 'stack(align=%s): labels of singleton axes compared as well' % align)
            else:
                ctx.violated('R1', fi, 'singleton axes not compared', 'the only alignment check of stack() is _get_axes(), which skips every size-1 axis (axis.size == 1 or ...): inputs that carry '
                             'different labels on a singleton dimension (x=[\'a\'] and x=[\'b\']) are stacked positionally and both slices get the first input\'s label', node=fi.node)
        handlers = [p for p in raise_paths(ev) if any(a[0] == 'tryfail' for a, _ in p.guards)]
        if not handlers or any(exc_name(p.value) != 'ValueError' for p in handlers):
            ctx.violated('R1', fi, 'except ValueError', 'misaligned inputs must raise ValueError')
    # _get_axes reference update rule - a necessary condition only while _get_axes is stack()'s *only* alignment test. Once stack() compares every input axis with
    # the common axes itself (F41), what _get_axes lets through no longer decides C12 (broadcast_arrays still depends on it: C10-R3 decides it there).
    if own_check[0]:
        ctx.holds('R1', "stack() compares every input axis with the common axes itself: the internals of _get_axes are not part of this property's obligations (see C10-R3)")
        return
    ga = ctx.fn(AL + '_get_axes')
    ev = run(ctx, ga, mode='fork', track_assign=True)
    okr = None
    for p in ev.paths:
        earlier = {}
        for e in p.events:
            if e.kind == 'assign' and e.b not in earlier:
                earlier[e.b] = e.a
                continue
            # an alias copy `common_axis = axis` of a value assigned before under another name
            if e.kind == 'assign' and earlier.get(e.b) != e.a and e.loops and len(e.loops) >= 2 and e.b[0] == 'sub' and 'axes' in T.show(e.b) and e.b[1][0] == 'attr':
                # common_axis = axis  (axis = o.axes[dim])
                axis_t = e.b
                prev = e.c
                none = [pol for a, pol in e.guards if a[0] == 'cmp' and a[1] == 'is' and a[3] == T.CONST_NONE]
                single = [pol for a, pol in e.guards if a[0] == 'cmp' and a[1] == '==' and a[3] == const(1) and a[2][0] == 'attr' and a[2][2] == 'size' and a[2][1] != axis_t]
                if (none and none[-1] is True) or (single and single[-1] is True):
                    if okr is None:
                        okr = True
                else:
                    ctx.violated('R1', ga, e.node, 'the reference axis of a dimension may only be replaced while it is missing or a singleton placeholder; here a '
                                 'non-singleton reference is replaced by every further axis, which is then compared with itself: misaligned inputs are never detected',
                                 node=e.node, witness=['guards: ' + ', '.join('%s=%s' % (T.show(a)[-60:], b) for a, b in e.guards[-4:])])
                    okr = False
    if okr:
        ctx.holds('R1', '_get_axes: reference replaced only when missing or singleton')
    elif okr is None:
        ctx.undecide('R1', '_get_axes: reference update not found')
    from . import c10
    # raising rule of _get_axes (shared with C10-R3)
    evj = run(ctx, ga, mode='join')
    raises = [p for p in raise_paths(evj) if exc_name(p.value) == 'ValueError']
    good = False
    for p in raises:
        single = [pol for a, pol in p.guards if a[0] == 'cmp' and a[1] == '==' and a[3] == const(1) and 'size' in T.show(a[2])]
        same = [pol for a, pol in p.guards if a[0] == 'call' and T.dotted(a[1]) == 'np.all' and '.values ==' in T.show(a)]
        byname = any(a[0] == 'cmp' and a[1] == 'in' and 'dims' in T.show(a[3]) and pol for a, pol in p.guards)
        if single and single[-1] is False and same == [False] and byname:
            good = True
    if good:
        ctx.holds('R1', '_get_axes raises ValueError for differing non-singleton axes, by name')
    else:
        ctx.violated('R1', ga, '_get_axes', '_get_axes must raise ValueError when a non-singleton axis differs (label-wise) from the reference axis of that name')


def _rule_concatenate_structural(ctx):
    fi = ctx.fn(AL + 'concatenate')
    done = set()

    def oracle(atom, st):
        s = T.show(atom)
        if atom[0] == 'cmp' and atom[1] == 'in' and 'type(arrays)' in s:
            return True
        if atom[0] == 'call' and T.dotted(atom[1]) == 'isinstance':
            return 'DimArray' in s and 'Dataset' not in s
        if atom[0] == 'call' and T.call_name(atom) == 'isscalar':
            return False
        if atom[0] == 'cmp' and atom[1] == 'is' and atom[3] == ('name', 'int'):
            return True
        return None
    base = ('comp', 'list', None, None)
    for align, nocheck in ((False, False), (True, False), (False, True)):
        ev = run(ctx, fi, bind={'align': const(align), '_no_check': const(nocheck)}, oracle=oracle, mode='join')
        rets = ret_paths(ev)
        ctx.require('R1', rets, 'concatenate has no returning path')
        inst = 'concatenate(align=%s, _no_check=%s)' % (align, nocheck)
        for p in rets:
            v = p.value
            if not (v[0] == 'call' and T.call_name(v) == '_constructor' and len(v[2]) == 2):
                ctx.violated('R3', fi, 'return ' + T.show(v)[:100], 'concatenate must build constructor(values, newaxes)', node=p.node)
                continue
            vals, newaxes = v[2]
            AXU = T.kw(vals, 'axis') if (vals[0] == 'call' and T.kw(vals, 'axis') is not None) else AXIS      # the position actually used (one term everywhere below)
            if AXU == AXIS:
                # the caller's integer is used as it is: `i != axis` over enumerate() and subaxes[:axis] never see a position counted from the end
                ctx.violated('R3', fi, 'negative axis position not normalised', 'concatenate(axis=-1) hands the raw position to the axes bookkeeping (`[ax for i, ax in enumerate(axes) if i != axis]`, '
                             'subaxes[:axis]): NumPy concatenates along the last dimension but no axis is filtered out, so the call fails with "secondary axes do not match" '
                             '(the position must be normalised first)', node=p.node)
                continue
            if not (T.contains(AXU, AXIS) and any(x[0] == 'binop' and x[1] in ('%', '+') for x in T.subterms(AXU))):
                ctx.undecide('R3', 'concatenate: the axis position %s is not recognisably the normalised caller position' % T.show(AXU)[:80])
                continue
            # bounded check of the position: for 1-4 dimensions the position used is axis mod ndim for every -ndim <= axis < ndim
            from ..rules import int_eval, bool_eval
            ndts = set(x for src in [AXU] + [a for a, _ in p.guards] for x in T.subterms(src) if x[0] == 'attr' and x[2] == 'ndim')
            wrong = None
            for nd in (1, 2, 3, 4):
                for ax in range(-6, 7):
                    atoms = {AXIS: ax}
                    for t in ndts:
                        atoms[t] = nd
                    feas = True
                    for a, pol in p.guards:
                        if T.contains(a, AXIS) and a[0] in ('cmp', 'boolop', 'unop'):
                            r = bool_eval(a, atoms)
                            if r is not None and r != pol:
                                feas = False
                    inrange = -nd <= ax < nd
                    if inrange:
                        got = int_eval(AXU, atoms)
                        if feas and got is not None and got != ax % nd and wrong is None:
                            wrong = 'position %d of %d-d arrays is read as %d' % (ax, nd, got)
                    # (what happens to a position outside -ndim..ndim-1 is not part of the property: "every concatenation axis by name or position" are the valid ones)
            if wrong:
                ctx.violated('R3', fi, 'axis position mis-normalised', 'concatenate(axis=<int>): %s' % wrong, node=p.node, firm=True)
                continue
            ok = vals[0] == 'call' and T.dotted(vals[1]) == 'np.concatenate' and vals[2] and vals[2][0][0] == 'comp' and T.kw(vals, 'axis') == AXU \
                and vals[2][0][2] == ('attr', ('elem', vals[2][0][3][0][1], vals[2][0][3][0][0]), 'values')
            if not ok:
                ctx.violated('R3', fi, 'values = ' + T.show(vals)[:140], 'values: np.concatenate([a.values for a in arrays], axis=axis)', node=p.node)
                continue
            joined = vals[2][0][3][0][1]
            src = normalised(joined)
            if src is None:
                _by_scenarios(ctx, AL + 'concatenate', done)
                continue
            # axes must come from the same (normalised) list
            cax = [e.a for e in p.calls('_concatenate_axes')]
            if len(cax) != 1:
                ctx.violated('R3', fi, '_concatenate_axes', 'the labels of the concatenation axis must be concatenated once', node=p.node)
                continue
            a0 = cax[0][2][0]
            okl = a0[0] == 'comp' and a0[3][0][1] == joined and a0[2] == ('sub', ('attr', ('elem', joined, a0[3][0][0]), 'axes'), AXU)
            if not okl:
                ctx.violated('R2' if (a0[0] == 'comp' and a0[3][0][1] != joined) else 'R3', fi, T.show(cax[0])[:160],
                             'the labels must be taken from the same list of arrays as the values, along the same axis, in the same order '
                             '([a.axes[axis] for a in arrays])', node=p.node)
                continue
            # newaxes = subaxes[:k] + [newaxis] + subaxes[k:]
            okn = newaxes[0] == 'binop' and newaxes[1] == '+' and newaxes[2][0] == 'binop' and newaxes[2][3] == ('list', (cax[0],)) \
                and newaxes[2][2][0] == 'sub' and newaxes[2][2][2] == ('slice', T.CONST_NONE, AXU, T.CONST_NONE) \
                and newaxes[3][0] == 'sub' and newaxes[3][2] == ('slice', AXU, T.CONST_NONE, T.CONST_NONE) and newaxes[3][1] == newaxes[2][2][1]
            sub = newaxes[3][1] if okn else None
            if not okn and newaxes[0] == 'mut' and newaxes[2] == 'insert' and tuple(newaxes[3]) == (AXU, cax[0]):
                # canonical spelling of `subaxes[:k] + [newaxis] + subaxes[k:]` and of a fresh list of the other axes followed by insert(k, newaxis)
                okn, sub = True, newaxes[1]
                if sub[0] == 'call' and T.dotted(sub[1]) == 'list' and len(sub[2]) == 1:
                    sub = sub[2][0]
            first_axes = ('attr', ('sub', joined, const(0)), 'axes')
            if not okn and newaxes[0] == 'setitem' and newaxes[2] == AXU and newaxes[3] == cax[0] and newaxes[1] == ('call', ('name', 'list'), (first_axes,), ()):
                # third spelling: a fresh copy of all the axes of the first array with the k-th one replaced by the concatenated axis
                okn, sub = True, None
            if okn and sub is not None:
                okn = sub[0] == 'comp' and sub[3][0][1] == ('call', ('name', 'enumerate'), (('attr', ('sub', joined, const(0)), 'axes'),), ()) \
                    and sub[3][0][2] == (T.mkcmp('!=', ('idx', ('attr', ('sub', joined, const(0)), 'axes'), sub[3][0][0]), AXU),)
            if not okn:
                ctx.violated('R3', fi, 'newaxes = ' + T.show(newaxes)[:160], 'result axes: the other axes of the first (normalised) array with the concatenated axis '
                             're-inserted at the same position k', node=p.node)
                continue
            # safeguard
            if align:
                als = [e for e in p.calls('align_')]
                good = bool(als)
                for e in als:
                    c = e.a
                    axn = T.kw(c, 'axis')
                    strict = dict(c[3]).get('**')
                    if axn is not None and axn[0] == 'elem' and axn[1][0] == 'comp' and len(axn[1][3]) == 1 and e.loops:
                        # other spelling: the loop runs over the names of the first array's dimensions other than the concatenated one
                        comp = axn[1]
                        src_, conds = comp[3][0][1], comp[3][0][2]
                        if not (comp[1] == 'list' and comp[2] == ('elem', src_, comp[3][0][0]) and src_[0] == 'attr' and src_[2] == 'dims' and src_[1][0] == 'sub'
                                and src_[1][2] == const(0) and len(conds) == 1 and conds[0][0] == 'cmp' and conds[0][1] == '!=' and comp[2] in conds[0][2:4]
                                and strict is not None and T.container_lookup(strict, const('strict')) == T.CONST_TRUE):
                            good = False
                        continue
                    if not (axn is not None and axn[0] == 'attr' and axn[2] == 'name' and axn[1][0] == 'elem' and strict is not None
                            and T.container_lookup(strict, const('strict')) == T.CONST_TRUE and e.loops):
                        good = False
                    g = [pol for x, pol in e.guards if x[0] == 'cmp' and x[1] == '==' and x[2] == axn]
                    if g != [False]:
                        good = False
                if not good:
                    ctx.violated('R1', fi, 'align step', 'with align=True every secondary axis must be aligned by name with strict=True before the join', node=p.node)
                    continue
                if src[0] == 'phi':
                    if not any(x[0] == 'call' and T.call_name(x) == 'align_' for x in T.value_alts(src)):
                        ctx.violated('R1', fi, 'joined list', 'the aligned arrays must be the ones that are joined', node=p.node)
                        continue
            def detects_mismatch(a, pol):
                # `if not np.all(x.values == y.values): raise` inside loops, or the same test folded with any(not ... for ...) / all(... for ...)
                if '.values ==' not in T.show(a):
                    return False
                if a[0] == 'call' and T.dotted(a[1]) in ('any', 'all') and len(a[2]) == 1 and a[2][0][0] == 'comp':
                    elt = a[2][0][2]
                    negated = elt[0] == 'unop' and elt[1] == 'not'
                    return (T.dotted(a[1]) == 'any' and negated and pol is True) or (T.dotted(a[1]) == 'all' and not negated and pol is False)
                return pol is False
            raisers = [q for q in raise_paths(ev) if exc_name(q.value) == 'ValueError' and any(detects_mismatch(a, pol) for a, pol in q.guards)]
            if not align and not nocheck:
                if not raisers:
                    ctx.violated('R1', fi, inst, 'without align the secondary axes of all inputs must be compared label-wise and a mismatch must raise ValueError', node=p.node)
                    continue
                q = raisers[0]
                atom = [a for a, pol in q.guards if '.values ==' in T.show(a)][0]
                s = T.show(atom)
                if 'name' not in s:
                    ctx.violated('R1', fi, s[:140], 'secondary axes must be matched by name (a.axes[ax.name])', node=q.node)
                    continue
            if nocheck and raisers:
                ctx.violated('R1', fi, inst, '_no_check=True skips the comparison loop', node=p.node)
                continue
            ctx.holds('R1', inst + ': safeguard table entry')
            ctx.holds('R2', inst + ': values and labels from the same name-normalised list')
            ctx.holds('R3', inst + ': shared k')
    # who may pass _no_check
    import ast
    for f in ctx.P.functions.values():
        for node in ast.walk(f.node):
            if isinstance(node, ast.Call):
                for k in node.keywords:
                    # (a function defined inside concatenate_ds is part of concatenate_ds)
                    if k.arg == '_no_check' and f.qualname != 'dimarray.dataset.concatenate_ds' and not f.qualname.startswith('dimarray.dataset.concatenate_ds.<locals>.'):
                        ctx.violated('R1', f, node, 'only concatenate_ds (which aligns the datasets itself) may pass _no_check', node=node)
    cds = ctx.fn('dimarray.dataset.concatenate_ds')
    ev = run(ctx, cds, mode='join')
    for p in ev.paths:
        for e in p.calls('concatenate'):
            if T.kw(e.a, '_no_check') not in (None, P_('align')):
                ctx.violated('R1', cds, e.node, '_no_check must be tied to the align option of concatenate_ds', node=e.node)
    # _concatenate_axes one name
    ca = ctx.fn(AL + '_concatenate_axes')
    ev = run(ctx, ca)
    okc = any(exc_name(p.value) == 'ValueError' and any('name' in T.show(a) for a, _ in p.guards) for p in raise_paths(ev))
    okv = any(p.value[0] == 'call' and T.call_name(p.value) == 'Axis' and T.dotted(p.value[2][0][1]) == 'np.concatenate' for p in ret_paths(ev))
    # the labels are what np.concatenate makes of them (NumPy's common type): no dtype forced onto the joined labels, all inputs in order
    for p in ret_paths(ev):
        v = p.value
        if v[0] == 'call' and T.call_name(v) == 'Axis':
            forced = T.kw(v, 'dtype') or (v[2][2] if len(v[2]) > 2 else None)
            if forced is not None and forced != T.CONST_NONE:
                ctx.violated('R3', ca, 'dtype forced onto the concatenated labels', 'the joined labels are cast with dtype=%s: labels of a later input that this type cannot hold (2001.5 among int '
                             'labels) are truncated, so the axis no longer carries the inputs\' labels' % T.show(forced)[:60], node=p.node)
                okv = None
            cc = v[2][0]
            lst = cc[2][0] if cc[0] == 'call' and cc[2] else None
            if lst is not None and not (lst[0] == 'comp' and lst[3][0][1] == P_('axes') and not lst[3][0][2] and lst[2] == ('attr', ('elem', P_('axes'), lst[3][0][0]), 'values')):
                ctx.violated('R3', ca, 'labels = ' + T.show(cc)[:100], 'the labels must be np.concatenate([ax.values for ax in axes]): every input, in order, unfiltered', node=p.node)
                okv = None
    if okv is None:
        pass
    elif okc and okv:
        ctx.holds('R3', '_concatenate_axes: one common name, labels concatenated in order')
    else:
        ctx.violated('R3', ca, '_concatenate_axes', 'the concatenated axes must share one name (ValueError otherwise) and their labels are concatenated in order')


def rule_args(ctx):
    ctx.rule('R4', 'new axis name', 2)
    ctx.rule('R5', 'input forms', 3)
    fi = ctx.fn(AL + '_check_stack_axis')
    ev = run(ctx, fi, facts={T.mkcmp('is', AXIS, T.CONST_NONE): False})
    DIMS = P_('dims')
    r_int = any(exc_name(p.value) == 'TypeError' and any('int' in T.show(a) and pol for a, pol in p.guards) for p in raise_paths(ev))
    r_dup = any(exc_name(p.value) == 'ValueError' and any(a == ('cmp', 'in', AXIS, DIMS) and pol for a, pol in p.guards) for p in raise_paths(ev))
    ok_ret = all(any(a == ('cmp', 'in', AXIS, DIMS) and pol is False for a, pol in p.guards) for p in ret_paths(ev))
    if r_int and r_dup and ok_ret:
        ctx.holds('R4', '_check_stack_axis: int -> TypeError, existing name -> ValueError')
        ctx.holds('R4', '_check_stack_axis returns only fresh names')
    else:
        ctx.violated('R4', fi, '_check_stack_axis', 'the new axis name must be refused when it is an int (TypeError) or an existing dimension (ValueError)')
    fi = ctx.fn(AL + '_check_stack_args')
    for form in ('list', 'tuple', 'dict'):
        def oracle(atom, st, form=form):
            if atom[0] == 'call' and T.dotted(atom[1]) == 'isinstance' and atom[2] == (ARR, ('name', 'dict')):
                return form == 'dict'
            if atom[0] == 'cmp' and atom[1] == 'in' and atom[2][0] == 'call' and T.dotted(atom[2][1]) == 'type' and atom[3][0] in ('tuple', 'list'):
                t = atom[2][2][0]
                # type(<term>) in (list, tuple)
                if t == ARR:
                    return form in ('list', 'tuple')
                if t[0] == 'call' and T.dotted(t[1]) in ('list', 'tuple'):
                    return True
                if t[0] == 'call' and T.call_name(t) in ('values', 'keys', 'items'):
                    return False      # dict views are neither list nor tuple
                return None
            return None
        ev = run(ctx, fi, oracle=oracle)
        rets = ret_paths(ev)
        if not rets:
            ctx.violated('R5', fi, 'arrays given as ' + form, 'the documented %s form never reaches the normal exit (raises %s): on Python 3 dict.values() is a view, not a list'
                         % (form, sorted(set(exc_name(p.value) for p in raise_paths(ev)))))
        else:
            ctx.holds('R5', '_check_stack_args accepts ' + form)


def rule_dict_pairing(ctx):
    """R10: "the slice at key k holds exactly the labelled data of arrays[k]" for dict input: the list of arrays and the list of keys that
    _check_stack_args hands on must be paired by key"""
    ctx.rule('R10', '_check_stack_args: for a dict, the i-th array is the one stored under the i-th key', 2)
    fi = ctx.fn(AL + '_check_stack_args')
    ARR_, KEYS_ = P_('arrays'), P_('keys')

    def oracle(atom, st):
        if atom[0] == 'call' and T.dotted(atom[1]) == 'isinstance' and atom[2] == (ARR_, ('name', 'dict')):
            return True
        if atom[0] == 'cmp' and atom[1] == 'in' and atom[2][0] == 'call' and T.dotted(atom[2][1]) == 'type' and atom[3][0] in ('tuple', 'list'):
            return True
        if atom[0] == 'cmp' and atom[1] == 'is' and atom[3] == T.CONST_NONE and atom[2] != KEYS_:
            return False           # list(...) / sorted(...) is never None
        return None
    ev = run(ctx, fi, oracle=oracle)

    def views(t):
        """('keys'|'values', wrapper) when t is list(arrays.keys()) / list(arrays.values()) / sorted(arrays.keys()) ..."""
        if t[0] == 'call' and T.dotted(t[1]) in ('list', 'tuple', 'sorted') and len(t[2]) == 1:
            x = t[2][0]
            if x[0] == 'call' and T.call_name(x) in ('keys', 'values') and T.call_receiver(x) == ARR_:
                return T.call_name(x), T.dotted(t[1])
            if x == ARR_:
                return 'keys', T.dotted(t[1])          # iterating a dict yields its keys
        return None

    def by_key(arrs, keys):
        # [arrays[k] for k in keys]
        return arrs[0] == 'comp' and arrs[2][0] == 'sub' and arrs[2][1] == ARR_ and arrs[2][2][0] == 'elem' and arrs[2][2][1] == keys
    for p in ret_paths(ev):
        v = p.value
        if v[0] != 'tuple' or len(v[1]) != 2:
            ctx.undecide('R10', '_check_stack_args returns %s' % T.show(v)[:80])
            continue
        arrs, keys = v[1]
        given = [pol for a, pol in p.guards if a == T.mkcmp('is', KEYS_, T.CONST_NONE)]
        inst = 'dict, keys %s' % ('given' if given == [False] else 'omitted')
        if by_key(arrs, keys):
            ctx.holds('R10', inst + ': arrays looked up by key')
            continue
        va, vk = views(arrs), views(keys)
        if va == ('values', 'list') and vk is not None and vk[0] == 'keys' and vk[1] in ('list', 'tuple'):
            ctx.holds('R10', inst + ': keys() and values() of the same dict, both in insertion order')
            continue
        if va is not None and va[0] == 'values' and (keys == KEYS_ or (vk is not None and vk[1] == 'sorted') or (va[1] == 'sorted')):
            ctx.violated('R10', fi, inst, 'the arrays are taken as %s(arrays.values()) (storage order) while the keys are %s: the i-th array is not the one stored under the i-th key, '
                         'so the slice labelled k holds the data of another entry (expected [arrays[k] for k in keys])' % (va[1], T.show(keys)[:50]), node=p.node)
            continue
        ctx.undecide('R10', '%s: pairing of %s with %s not recognised' % (inst, T.show(arrs)[:60], T.show(keys)[:60]))


def rule_env(ctx):
    ctx.rule('R6', 'NumPy names reachable from stack / concatenate resolve', 1)
    npapi.check_reachable(ctx, 'R6', [ctx.fn(AL + 'stack'), ctx.fn(AL + 'concatenate'), ctx.fn(AL + 'align')], depth=3)


def check(ctx):
    rule_stack(ctx)
    rule_concatenate(ctx)
    rule_args(ctx)
    rule_dict_pairing(ctx)
    rule_env(ctx)
    # align=True delegates to align(): its reindex loop and the kind reconciliation of the merged axis
    from . import c06
    c06.rule_align(ctx, rid='R7')
    c06.rule_merge_cast(ctx, r8='R8', r9='R9')
    from ..report import Renamed
    ctx.rule('R11', 'align=True: ownership of the sorted axis (C06) and the reindex pipeline (C07)', 3)
    c06.rule_sort_ownership(Renamed(ctx, {'*': 'R11'}))
    from . import c07
    c07.rule_pipeline(ctx, rid='R11')
    # inputs that list their dimensions in another order are transposed first; align=True folds the common axis over all inputs (shared with C10 / C06)
    from . import c10 as _c10
    ctx.rule('R12', 'transpose keeps values and axes under one permutation (C10); _common_axis fold and placeholder test (C06)', 4)
    _c10.rule_transpose(Renamed(ctx, {'*': 'R12'}))
    c06.rule_fold(Renamed(ctx, {'*': 'R12'}))
    ctx.not_decided += ['slice-by-slice equality with the inputs', 'behaviour when the inputs have different *sets* of dimensions (NumPy raises)']
    ctx.trusted += ['np.array(list of arrays) stacks along a new first axis', 'np.concatenate semantics']
    return EXPLANATION
