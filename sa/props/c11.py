"""C11 - flatten / unflatten / reshape group dimensions losslessly (structural clauses).

  R1 order coherence     grouped labels are enumerated by meshgrid(indexing='ij') + C-order ravel; values are regrouped by ndarray.reshape
                         without order=; the MultiAxis members are the source axes in array order; the reshape (base case) is reached only
                         when dims == self.dims[insert:insert+n]
  R2 splice coherence    unflatten: shape[:k] + sizes(group.axes) + shape[k+1:] and axes[:k] + group.axes + axes[k+1:] use the same k and the
                         same member list; flatten: newshape is derived from newaxes itself
  R3 recursion progress  flatten's recursive call places dims at a clamped insertion point (min(insert, ndim - n)) so that its own guard
                         becomes true; unflatten(None) accumulates over the grouped axes
  R4 reshape pipeline    unflatten -> private copies of the axes -> squeeze(dim) -> transpose -> newaxis(dim, pos=i) -> flatten(group, insert=i);
                         the temporary ','->';' renaming is applied to the private copies only; early exit is order-sensitive
  R5 tuple reductions    see C08-R3 (_deal_with_axis)
  R6 labels after a tuple reduction   argmin / argmax over a tuple of dimensions look the labels up on the grouped array (see C09-R3)
"""
from .. import terms as T
from ..terms import const
from ..rules import P_, run, ret_paths, raise_paths, exc_name, bind_call_args, property_value
from ..loader import AnalysisError

EXPLANATION = (
    "Structural clauses of C11: order constants of the label enumeration (meshgrid 'ij', C-order ravel) and of the value regrouping (reshape without "
    "order=) must agree; the contiguity guard dominates the reshape in flatten; the recursive call of flatten uses a clamped insertion point (progress); "
    "unflatten splices shape and axes at the same index with the same members; the reshape pipeline applies its steps per dimension (squeeze(dim), "
    "newaxis(dim, pos=i), flatten(group, insert=i)) and renames private copies of the axes only. The value at each grouped position follows from NumPy's "
    "C-order semantics, which is trusted.")

SELF = P_('self')
RS = 'dimarray.core.reshape.'
AX = 'dimarray.core.axes.'
VAL = (('attr', SELF, 'values'), ('attr', SELF, '_values'))


def flatten_oracle(atom, st):
    s = T.show(atom)
    if s.startswith('(len(**kwargs) == 0)'):
        return True
    if s == '(len(*dims) == 1)':
        return True
    if 'in (list, tuple, set)' in s or 'in (tuple, list, set)' in s:
        return True
    if ' is set)' in s:
        return False
    if s.startswith('(len(') and s.endswith('== 0)'):
        return False
    if 'is bool' in s:
        return True
    if "pop('reverse'" in s:
        return False
    return None


def rule_flatten(ctx):
    """R1-R3.  Two readings of flatten decide the same clauses: the structural one below (_rule_flatten_structural: contiguity guard dominating the regrouping, C-order
    reshape, members in array order, transpose-and-recurse making progress - it knows the function as a base case plus a recursive call) and the interpretation of
    flatten on abstract arrays (scenario table: 1-d to 3-d arrays, every subset of the dimensions in every order, insert=, positions and names).  The structural
    reading counts when it ends without a complaint; when it complains - a shape it does not know as much as a defect - the table decides."""
    from ..report import Trial
    from ..scenario_rule import rule_scenarios
    trial = Trial(ctx, about=[RS + 'flatten'])
    try:
        _rule_flatten_structural(trial)
    except AnalysisError as e:
        trial.complaints.append(str(e)[:80])
    if not trial.complaints:
        trial.commit()
        return
    trial.discard()
    for rid, what in (('R1', 'order coherence'), ('R2', 'splice coherence'), ('R3', 'recursion progress')):
        ctx.rule(rid, what, 1)
        rule_scenarios(ctx, rid, only=RS + 'flatten', title='%s (flatten by interpretation; the structural reading gave up on: %s)' % (what, '; '.join(trial.complaints[:2])))


def _rule_flatten_structural(ctx):
    ctx.rule('R1', 'order coherence', 4)
    ctx.rule('R2', 'splice coherence', 2)
    ctx.rule('R3', 'recursion progress', 2)
    fi = ctx.fn(RS + 'flatten')
    ev = run(ctx, fi, oracle=flatten_oracle)
    DIMS = ('call', ('name', 'tuple'), (('item', ('call', ('attr', SELF, '_get_axes_info'), (('sub', P_('*dims'), const(0)),), ()), 1),), ())
    NLEN = ('call', ('name', 'len'), (DIMS,), ())
    rets = ret_paths(ev)
    ctx.require('R1', rets, 'flatten has no returning path')
    base, rec = [], []
    for p in rets:
        v = p.value
        if v[0] == 'call' and T.call_name(v) == '_constructor':
            base.append(p)
        elif v[0] == 'call' and T.call_name(v) == 'flatten':
            rec.append(p)
        elif v != SELF:
            ctx.undecide('R1', 'flatten: unrecognised result %s' % T.show(v)[:100])
    if base and not rec:
        # not the form this rule reads (regroup when the dimensions already sit together at the insertion point, else transpose and call flatten again): a single pass.
        # Which order the values are regrouped in, which labels the grouped axis carries and where it is inserted are read off the interpreted scenarios of flatten
        # (1-d to 3-d arrays, every subset of the dimensions in every order, with and without insert=, positions and names)
        from ..scenario_rule import rule_scenarios
        for rid, what in (('R1', 'order coherence'), ('R2', 'splice coherence'), ('R3', 'recursion progress')):
            rule_scenarios(ctx, rid, only=RS + 'flatten', title=what + ' (flatten in a single pass: interpreted scenarios)')
        return
    if not base:
        ctx.violated('R1', fi, 'base case', 'flatten never regroups the values')

    def contig_guard(p):
        out = []
        for a, pol in p.guards:
            if a[0] == 'cmp' and a[1] == '==' and DIMS in (a[2], a[3]):
                other = a[3] if a[2] == DIMS else a[2]
                if other[0] == 'sub' and other[1] == ('attr', SELF, 'dims') and other[2][0] == 'slice':
                    out.append((other[2], pol))
        return out

    def ins_of(p):
        for t in [p.value] + [a for a, _ in p.guards]:
            for x in T.subterms(t):
                if x[0] == 'slice' and x[3] == T.CONST_NONE and x[2][0] == 'binop' and x[2][1] == '+' and x[2][2] == x[1]:
                    return x[1]
        return None
    for p in base:
        v = p.value
        g = contig_guard(p)
        if not g or g[-1][1] is not True:
            ctx.violated('R1', fi, 'base case guard', 'the values are regrouped with a plain reshape on a path that did not establish that the dimensions are '
                         'contiguous and in the listed order at the insertion point (dims == self.dims[insert:insert+n]): values detach from their labels',
                         node=p.node, witness=['guards: ' + ', '.join('%s=%s' % (T.show(a)[:90], b) for a, b in p.guards)])
            continue
        sl = g[-1][0]
        ins = sl[1]
        if sl[2] not in (('binop', '+', ins, NLEN), ('binop', '+', NLEN, ins)):
            ctx.violated('R1', fi, 'base case guard', 'the contiguity test must look at exactly len(dims) dimensions starting at the insertion point', node=p.node)
            continue
        vals, newaxes = v[2][0], v[2][1]
        if not (vals[0] == 'call' and T.call_name(vals) == 'reshape' and T.call_receiver(vals) in VAL and len(vals[2]) == 1 and not vals[3]):
            ctx.violated('R1', fi, 'values = ' + T.show(vals)[:120], 'values must be regrouped by self.values.reshape(newshape) in C order (no order= argument): '
                         'the grouped labels are enumerated in C order', node=p.node)
            continue
        # newaxes: rest.insert(ins, MultiAxis(*members))
        ok = newaxes[0] == 'mut' and newaxes[2] == 'insert' and newaxes[3][0] == ins and newaxes[3][1][0] == 'call' and T.call_name(newaxes[3][1]) == 'MultiAxis'
        if ok:
            rest = newaxes[1]
            mem = newaxes[3][1][2]
            ok = rest[0] == 'comp' and rest[3][0][1] == ('attr', SELF, 'axes') and rest[2][0] == 'elem' and \
                rest[3][0][2] == (('cmp', 'not in', ('attr', rest[2], 'name'), DIMS),)
            okm = len(mem) == 1 and mem[0][0] == 'star' and mem[0][1][0] == 'comp' and mem[0][1][3][0][1] == ('attr', SELF, 'axes') \
                and mem[0][1][2][0] == 'elem' and mem[0][1][3][0][2] == (('cmp', 'in', ('attr', mem[0][1][2], 'name'), DIMS),)
            if not okm:
                ctx.violated('R1', fi, 'MultiAxis members', 'the grouped axis must be made of the source axes named in dims, in array order', node=p.node)
                continue
        if not ok:
            ctx.violated('R2', fi, 'newaxes = ' + T.show(newaxes)[:140], 'the grouped axis must be inserted at the insertion point among the remaining axes', node=p.node)
            continue
        shp = vals[2][0]
        if not (shp[0] == 'comp' and shp[3][0][1] == newaxes and shp[2] == ('attr', ('elem', newaxes, shp[3][0][0]), 'size')):
            ctx.violated('R2', fi, 'newshape = ' + T.show(shp)[:120], 'the new shape must be derived from the new axes themselves ([ax.size for ax in newaxes])', node=p.node)
            continue
        if dict(v[3]).get('**') != ('attr', SELF, 'attrs'):
            ctx.violated('R1', fi, 'return', 'flatten carries the metadata', node=p.node)
            continue
        ctx.holds('R1', 'flatten base case: contiguity guard, C-order reshape, members in array order')
        ctx.holds('R2', 'flatten: insertion point shared by guard and axes; shape derived from axes')
    for p in rec:
        v = p.value
        g = contig_guard(p)
        if not g or g[-1][1] is not False:
            ctx.violated('R3', fi, 'recursive case', 'the transposing branch must be taken exactly when the contiguity test fails', node=p.node)
            continue
        ins = g[-1][0][1]
        # progress: insertion point clamped so that the recursive call's own guard can hold
        clamped = ins[0] == 'call' and T.dotted(ins[1]) == 'min' and any(T.affine_eq(x, ('binop', '-', ('attr', SELF, 'ndim'), NLEN)) for x in ins[2])
        if not clamped:
            ctx.violated('R3', fi, 'insert = ' + T.show(ins)[:120], 'the insertion point is not clamped to ndim - len(dims): after the transposition the group can only '
                         'start at min(insert, ndim - n) (list slicing clamps), the recursive call tests position `insert` and never succeeds -> '
                         'RecursionError, e.g. a.flatten((\'y\', \'x\')) on dims (x, y)', node=p.node)
            continue
        if T.kw(v, 'insert') != ins or v[2][:1] != (DIMS,):
            ctx.violated('R3', fi, 'return ' + T.show(v)[:100], 'the recursive call must pass the same dims and the same insertion point', node=p.node)
            continue
        tr = T.call_receiver(v)
        okt = tr[0] == 'call' and T.call_name(tr) == 'transpose' and T.call_receiver(tr) == SELF
        if okt:
            a = tr[2][0]
            # rest[:ins] + list(dims) + rest[ins:]
            okt = a[0] == 'binop' and a[1] == '+' and a[2][0] == 'binop' and a[2][1] == '+' and a[2][3] in (('call', ('name', 'list'), (DIMS,), ()), DIMS) \
                and a[2][2][0] == 'sub' and a[2][2][2] == ('slice', T.CONST_NONE, ins, T.CONST_NONE) \
                and a[3][0] == 'sub' and a[3][2] == ('slice', ins, T.CONST_NONE, T.CONST_NONE) and a[3][1] == a[2][2][1]
        if not okt:
            ctx.violated('R3', fi, 'transpose = ' + T.show(tr)[:140], 'the recursive case transposes to rest[:insert] + dims + rest[insert:]', node=p.node)
            continue
        ctx.holds('R3', 'flatten recursion: transpose then flatten(dims, insert=min(insert, ndim - n))')
    # the insertion point: insert= when given (0 included), else the position of the first listed dimension; clamped to ndim - n.
    # Bounded integer check of the insertion-point term of every path against that definition.
    from ..rules import int_eval, bool_eval
    INS = ('call', ('attr', P_('**kwargs'), 'pop'), (const('insert'), T.CONST_NONE), ())
    II = ('call', ('attr', ('attr', SELF, 'dims'), 'index'), (('sub', DIMS, const(0)),), ())
    bad_ins = None
    nins = 0
    for p in base + rec:
        g = contig_guard(p)
        if not g:
            continue
        ins = g[-1][0][1]
        for ndim, n, ii, insert in [(nd, nn, i, k) for nd in (3, 4) for nn in (1, 2) for i in range(0, nd - nn + 1) for k in (None, 0, 1, 2, 3, -1, -2, -5)]:
            atoms = {INS: insert, II: ii, ('attr', SELF, 'ndim'): ndim, NLEN: n}
            feas = True
            for a, pol in p.guards:
                if a == T.mkcmp('is', INS, T.CONST_NONE):
                    if (insert is None) != pol:
                        feas = False
                elif a == INS:                     # truthiness test of the option itself: None and 0 are both falsy
                    if bool(insert) != pol:
                        feas = False
                elif T.contains(a, INS) and a[0] != 'cmp':
                    r = int_eval(a, atoms)
                    if r is not None and bool(r) != pol:
                        feas = False
                elif a[0] == 'cmp' and a[1] in ('<', '<=', '==', '!=') and ((T.contains(a, INS) and insert is not None) or (T.contains(a, II) and not T.contains(a, INS))) \
                        and not any(x[0] in ('sub', 'tuple') and x != II[2][0] for x in T.subterms(a) if x[0] in ('sub', 'tuple') and not T.contains(II, x)):
                    r = bool_eval(a, atoms)
                    if r is not None and r != pol:
                        feas = False
            if not feas:
                continue
            got = int_eval(ins, atoms)
            # (a negative position counts from the end of the other dimensions, as list.insert does; it must neither loop nor wrap)
            want = min(ii if insert is None else insert if insert >= 0 else max(insert + ndim - n, 0), ndim - n)
            nins += 1
            if got is None:
                ctx.undecide('R3', 'flatten: insertion point %s not evaluable' % T.show(ins)[:80])
                bad_ins = 'undecided'
                break
            if got != want and bad_ins is None:
                bad_ins = (ndim, n, ii, insert, got, want)
        if bad_ins == 'undecided':
            break
    if bad_ins and bad_ins != 'undecided':
        ndim, n, ii, insert, got, want = bad_ins
        ctx.violated('R3', fi, 'flatten insertion point', 'for a %d-d array, %d grouped dimension(s) starting at position %d and insert=%r the group is placed at position %s instead of %d '
                     '(an explicit insert=0 - what a tuple axis of a reduction passes - must not be taken for "not given"; a negative position counts from the end of the remaining '
                     'dimensions - left as it is, dims[insert:insert+n] never matches and flatten recurses for ever)' % (ndim, n, ii, insert, got, want), node=fi.node)
    elif not bad_ins and nins:
        ctx.holds('R3', 'flatten: insertion point = min(insert if given else position of dims[0], ndim - n) (%d cases)' % nins)
    # a path that hands the array back untouched ignores both the grouping and insert=
    for p in rets:
        if p.value == SELF:
            ctx.violated('R1', fi, 'flatten returns its input unchanged', 'flatten returns `self` on a path (%s): the requested insert position is ignored, so a reduction over a one-element '
                         'tuple of dimensions reduces the first dimension instead' % '; '.join('%s=%s' % (T.show(a)[:40], pol) for a, pol in p.guards[-2:]), node=p.node)
    # _flatten: 'ij' + ravel
    fl = ctx.fn(AX + '_flatten')
    ev = run(ctx, fl, mode='join')
    okm, okr = False, True
    for p in ev.paths:
        for e in p.calls('meshgrid'):
            if T.kw(e.a, 'indexing') == const('ij') and e.a[2] == (('star', P_('*list_of_arrays')),):
                okm = True
            else:
                ctx.violated('R1', fl, e.node, "grouped labels must be enumerated in row-major order of the listed dimensions: np.meshgrid(*arrays, indexing='ij')", node=e.node)
                okm = None
        for e in p.calls('ravel'):
            if e.a[2] or e.a[3]:
                ctx.violated('R1', fl, e.node, 'ravel must use C order (no arguments)', node=e.node)
                okr = False
    # the table of label tuples is an ndarray: built without dtype=object it takes NumPy's common type, so members of different kinds ("axes of different
    # kinds") are coerced - (1950, 'b') becomes ('1950', 'b'), (1, 0.5) becomes (1.0, 0.5), True becomes 1.0
    tab = [e for p in ev.paths for e in p.calls('array') if T.dotted(e.a[1]) in ('np.array', 'np.asarray') and any(x[0] == 'call' and T.dotted(x[1]) == 'zip' for x in T.subterms(e.a))]
    if tab:
        dt = T.kw(tab[0].a, 'dtype')
        keeps = dt is not None and (dt in (('name', 'object'), const('O'), const('object')) or (dt[0] == 'ifexp' and ('name', 'object') in (dt[2], dt[3])) or (dt[0] == 'phi' and ('name', 'object') in dt[1]))
        if keeps:
            ctx.holds('R1', '_flatten: label tuples kept as objects when the member kinds differ')
        else:
            ctx.violated('R1', fl, 'label tuples coerced to a common dtype', 'the grouped labels are gathered with np.array(list(zip(...))) without dtype=object: member labels of different kinds '
                         'are converted to NumPy\'s common type, so the grouped entry for (1950, \'b\') is (\'1950\', \'b\') - not the combination of the member-axis labels', node=tab[0].node)
            okm = None
    # an empty member axis ("axes of different ... lengths") gives no combination at all: np.array([]) of the empty list of tuples is 1-d, and the 2-d reads that follow
    # (shape[1], .T in MultiAxis._get_values) raise IndexError - the table may only be built from a list known to be non-empty
    from .c06 import _nonempty_fact
    evf = run(ctx, fl, mode='fork')
    unguarded = None
    ntab = 0
    for p in ret_paths(evf):
        for x in T.subterms(p.value):
            if x[0] == 'call' and T.dotted(x[1]) in ('np.array', 'np.asarray') and x[2] and x[2][0][0] == 'call' and T.dotted(x[2][0][1]) == 'list' \
                    and any(y[0] == 'call' and T.dotted(y[1]) == 'zip' for y in T.subterms(x[2][0])):
                L = x[2][0]
                ntab += 1
                known = [f for f in (_nonempty_fact(a, pol) for a, pol in p.guards) if f is not None] + [a for a, pol in p.guards if pol is True and a == L]
                if L not in known and unguarded is None:
                    unguarded = p
    if unguarded is not None:
        ctx.violated('R1', fl, 'label table of an empty group', 'the table of label tuples is built with np.array(list(zip(...))) without testing that there is any combination: with an empty '
                     'member axis the list is empty, NumPy returns a 1-d array and the following shape[1] read raises IndexError - the labels (and the repr) of '
                     'a.flatten() are unavailable for an array with an empty axis', node=unguarded.node)
    elif ntab:
        ctx.holds('R1', '_flatten: the label table is built from a list known to be non-empty (an empty group gets an explicit (0, k) table)')
    if okm and okr:
        ctx.holds('R1', "_flatten: meshgrid(indexing='ij') + C-order ravel")
    elif okm is False:
        ctx.violated('R1', fl, '_flatten', "no np.meshgrid(..., indexing='ij') call found")
    # MultiAxis
    mi = ctx.fn(AX + 'MultiAxis.__init__')
    ev = run(ctx, mi, mode='join')
    st = {e.b: e.c for p in ev.paths for e in p.events if e.kind == 'store_attr' and e.a == SELF}
    if st.get('axes') != ('call', ('name', 'Axes'), (P_('*axes'),), ()):
        ctx.violated('R1', mi, 'self.axes = ...', 'MultiAxis keeps its member axes in the given order')
    gv = ctx.fn(AX + 'MultiAxis._get_values')
    ev = run(ctx, gv, mode='join')
    def member_labels(c):
        # _flatten(*[ax.values for ax in self.axes]); the list may be read through a property of the class (self.levels)
        if len(c[2]) != 1 or c[2][0][0] != 'star' or c[3]:
            return False
        src = c[2][0][1]
        if src[0] == 'attr' and src[1] == SELF:
            src = property_value(ctx, AX + 'MultiAxis', src[2]) or src
        return src[0] == 'comp' and src[1] == 'list' and len(src[3]) == 1 and src[3][0][1] == ('attr', SELF, 'axes') and not src[3][0][2] \
            and src[2] == ('attr', ('elem', ('attr', SELF, 'axes'), src[2][1][2] if src[2][0] == 'attr' and src[2][1][0] == 'elem' else None), 'values')
    fcalls = [e.a for p in ev.paths for e in p.calls('_flatten')]
    if fcalls and all(member_labels(c) for c in fcalls):
        ctx.holds('R1', 'MultiAxis labels = _flatten(member labels in member order)')
    else:
        ctx.violated('R1', gv, 'MultiAxis._get_values', 'grouped labels must be _flatten(*[ax.values for ax in self.axes])')


def rule_unflatten(ctx):
    # the structural reading (one slicing idiom for shape and axes, one loop for axis=None) on trial; the scenario table of unflatten - one, two and interleaved groups,
    # by name, by position, all at once - decides when the function is written otherwise
    from ..report import on_trial
    on_trial(ctx, _unflatten_structural, [RS + 'unflatten'], ('R2', 'R3'), 'unflatten')


def _unflatten_structural(ctx):
    fi = ctx.fn(RS + 'unflatten')
    AXIS = P_('axis')
    ev = run(ctx, fi, facts={T.mkcmp('is', AXIS, T.CONST_NONE): False})
    group = ('sub', ('attr', SELF, 'axes'), AXIS)
    k = ('call', ('attr', ('attr', SELF, 'dims'), 'index'), (('attr', group, 'name'),), ())
    n = 0
    for p in ret_paths(ev):
        v = p.value
        if not (v[0] == 'call' and T.call_name(v) == '_constructor' and len(v[2]) == 2):
            ctx.violated('R2', fi, 'return ' + T.show(v)[:100], 'unflatten must build self._constructor(values, axes, **self.attrs)', node=p.node)
            continue
        vals, axes = v[2]
        members = ('attr', group, 'axes')
        want_axes = ('binop', '+', ('binop', '+', ('sub', ('attr', SELF, 'axes'), ('slice', T.CONST_NONE, k, T.CONST_NONE)), members),
                     ('sub', ('attr', SELF, 'axes'), ('slice', ('binop', '+', k, const(1)), T.CONST_NONE, T.CONST_NONE)))
        if axes != want_axes:
            ctx.violated('R2', fi, 'newaxes = ' + T.show(axes)[:160], 'the grouped axis at position k must be replaced by its member axes: axes[:k] + group.axes + axes[k+1:]',
                         node=p.node)
            continue
        ok = vals[0] == 'call' and T.call_name(vals) == 'reshape' and T.call_receiver(vals) in VAL and len(vals[2]) == 1 and not vals[3]
        if ok:
            shp = vals[2][0]
            sizes = shp[2][3] if (shp[0] == 'binop' and shp[2][0] == 'binop') else None
            ok = shp[0] == 'binop' and shp[1] == '+' and shp[2][0] == 'binop' and shp[2][2] == ('sub', ('attr', SELF, 'shape'), ('slice', T.CONST_NONE, k, T.CONST_NONE)) \
                and shp[3] == ('sub', ('attr', SELF, 'shape'), ('slice', ('binop', '+', k, const(1)), T.CONST_NONE, T.CONST_NONE)) \
                and sizes[0] == 'call' and T.dotted(sizes[1]) == 'tuple' and sizes[2][0][0] == 'comp' and sizes[2][0][3][0][1] == members \
                and sizes[2][0][2] == ('attr', ('elem', members, sizes[2][0][3][0][0]), 'size')
        if not ok:
            ctx.violated('R2', fi, 'values = ' + T.show(vals)[:160], 'the values must be reshaped (C order) to shape[:k] + sizes(group.axes) + shape[k+1:], with the same k and '
                         'the same member list as the axes', node=p.node)
            continue
        if dict(v[3]).get('**') != ('attr', SELF, 'attrs'):
            ctx.violated('R2', fi, 'return', 'unflatten carries the metadata', node=p.node)
            continue
        n += 1
    if n:
        ctx.holds('R2', 'unflatten: same k and members for shape and axes, C-order reshape')
    else:
        ctx.violated('R2', fi, 'unflatten', 'no coherent returning path')
    # axis=None accumulates
    ev = run(ctx, fi, facts={T.mkcmp('is', AXIS, T.CONST_NONE): True})
    okr = False
    for p in ret_paths(ev):
        for e in p.calls('unflatten'):
            recv = T.call_receiver(e.a)
            if any(x[0] == 'carried' for x in T.value_alts(recv)) and SELF in T.value_alts(recv):
                okr = True
            else:
                ctx.violated('R3', fi, e.node, 'unflatten(None) must expand the grouped axes one after the other on the accumulated result', node=e.node)
                okr = None
    # ... and the grouped axes are designated by *name*, collected before the loop: expanding a group of k members shifts every later position by k - 1
    for p in ret_paths(ev):
        for e in p.calls('unflatten'):
            ax_arg = T.kw(e.a, 'axis') or (e.a[2][0] if e.a[2] else None)
            by_name = ax_arg is not None and ax_arg[0] == 'elem' and ax_arg[1][0] == 'comp' and ax_arg[1][2][0] == 'attr' and ax_arg[1][2][2] == 'name' \
                and ax_arg[1][3][0][1] == ('attr', SELF, 'axes')
            if not by_name and okr:
                ctx.violated('R3', fi, 'unflatten(None) loop', 'the grouped axes must be listed by name before the loop ([ax.name for ax in self.axes if MultiAxis]); iterating over positions '
                             '(of the original array) misses the groups that were shifted by an earlier expansion: %s' % T.show(ax_arg)[:80], node=e.node)
                okr = None
    if okr:
        ctx.holds('R3', 'unflatten(None): obj = obj.unflatten(axis) for every grouped axis')


def rule_reshape(ctx):
    ctx.rule('R4', 'reshape pipeline', 3)
    fi = ctx.fn(RS + 'reshape')
    ev = run(ctx, fi, mode='join', oracle=lambda a, st: (False if (a[0] == 'cmp' and a[1] == '==' and 'len(' in T.show(a) and a[3] == const(1)) else None))
    rets = [p for p in ret_paths(ev) if p.value != SELF]
    ctx.require('R4', rets, 'reshape has no full path')
    p = rets[-1]
    names = [T.call_name(e.a) for e in p.calls() if T.call_name(e.a) in ('unflatten', 'squeeze', 'transpose', 'newaxis', 'flatten')]
    order = []
    for n in names:
        if not order or order[-1] != n:
            order.append(n)
    if order != ['unflatten', 'squeeze', 'transpose', 'newaxis', 'flatten']:
        ctx.violated('R4', fi, 'pipeline order ' + ' -> '.join(order), 'reshape must run unflatten -> squeeze -> transpose -> newaxis -> flatten')
    else:
        ctx.holds('R4', 'reshape order: unflatten -> squeeze -> transpose -> newaxis -> flatten')
    ok = True
    problems = []
    for e in p.calls('squeeze'):
        a = e.a[2]
        if not (len(a) == 1 and a[0][0] == 'elem' and 'dims' in T.show(a[0][1])):
            problems.append('squeeze argument')
            ok = False
        else:
            g = [pol for x, pol in e.guards if x[0] == 'cmp' and x[1] == 'in' and x[2] == a[0]]
            if g != [False]:
                problems.append('squeeze guard')
                ok = False
    # (path-sensitive: every way of reaching the squeeze call, not only the merged state)
    try:
        evf = run(ctx, fi, mode='fork', max_paths=20000, oracle=lambda a, st: (False if (a[0] == 'cmp' and a[1] == '==' and 'len(' in T.show(a) and a[3] == const(1)) else None))
        sq = {}
        for q in evf.paths:
            for e in q.calls('squeeze'):
                a = e.a[2]
                if len(a) == 1 and a[0][0] == 'elem':
                    g = tuple(pol for x, pol in e.guards if x[0] == 'cmp' and x[1] == 'in' and x[2] == a[0])
                    sq.setdefault(g, e)
        for g, e in sq.items():
            if g != (False,):
                extra = [T.show(x)[:50] for x, pol in e.guards if not (x[0] == 'cmp' and x[1] == 'in')][-2:]
                problems.append('squeeze guard on some path')
                ok = False
    except AnalysisError as ex:
        ctx.undecide('R4', 'reshape (fork mode): %s' % ex)
    for e in p.calls('newaxis'):
        a = e.a
        if not (len(a[2]) == 1 and a[2][0][0] == 'elem' and T.kw(a, 'pos') == ('idx', a[2][0][1], a[2][0][2])):
            problems.append('newaxis position')
            ok = False
    for e in p.calls('flatten'):
        a = e.a
        el = T.call_receiver(a[2][0]) if (a[2] and a[2][0][0] == 'call') else None
        if el is not None and el[0] != 'elem':
            el = None
        if not (el is not None and a[2][0] == ('call', ('attr', el, 'split'), (const(','),), ()) and T.kw(a, 'insert') == ('idx', el[1], el[2])):
            # members and position come from somewhere else (recorded in an earlier pass, ...): where each group lands is read off the interpreted scenarios of reshape
            problems.append('grouping step')
            ok = False
            break
    if problems:
        # the steps are written in a form the structural clauses do not read (%s): which dimensions are dropped, inserted where, and grouped where is read off the
        # interpreted scenarios of reshape (permutations, new and dropped dimensions, kept and dropped singleton dimensions, one and several groups, transpose=False)
        from ..scenario_rule import rule_scenarios
        rule_scenarios(ctx, 'R4', only=RS + 'reshape', title='reshape pipeline: squeeze / newaxis / flatten per dimension (interpreted scenarios; structural reading gave up on: %s)' % ', '.join(sorted(set(problems))))
    if ok:
        ctx.holds('R4', 'reshape: squeeze(dim) / newaxis(dim, pos=i) / flatten(group, insert=i) per dimension')
    # renames only on private copies
    renames = [e for e in p.events if e.kind == 'store_attr' and e.b in ('name', '_name')]
    if len(renames) < 2:
        ctx.violated('R4', fi, 'rename steps', "the temporary ',' -> ';' renaming and its undoing are expected")
    okc = True
    for e in renames:
        tgt = e.a
        # ax iterates o.axes with o = <something>._constructor(values, [ax.copy() ...])
        if tgt[0] != 'elem':
            okc = False
            continue
        owner = tgt[1][1] if tgt[1][0] == 'attr' else None
        fresh = False
        for alt in T.value_alts(owner) if owner else []:
            while alt[0] == 'mut':
                alt = alt[1]
            if alt[0] == 'carried':
                fresh = fresh or False
                continue
            if alt[0] == 'call' and T.call_name(alt) in ('_constructor', 'squeeze', 'transpose', 'newaxis', 'flatten'):
                fresh = True
            else:
                fresh = False
                break
        if not fresh:
            ctx.violated('R4', fi, e.node, "axis names are rewritten on Axis objects that may belong to the operand (self.unflatten() returns self when nothing is grouped): "
                         "the operand is renamed ',' -> ';' and only surviving axes are renamed back; rename private copies", node=e.node)
            okc = False
    if okc and renames:
        # the first rename must act on copies
        first = renames[0]
        owner = first.a[1][1]
        good = False
        for alt in T.value_alts(owner):
            if alt[0] == 'call' and T.call_name(alt) == '_constructor' and len(alt[2]) == 2 and alt[2][1][0] == 'comp' \
                    and alt[2][1][2][0] == 'call' and T.call_name(alt[2][1][2]) == 'copy':
                good = True
        if good:
            ctx.holds('R4', 'reshape renames private copies of the axes')
        else:
            ctx.violated('R4', fi, first.node, "the axes that get renamed must be copies ([ax.copy() for ax in o.axes]) - transpose/squeeze results share the operand's "
                         "Axis objects", node=first.node)


def check(ctx):
    rule_flatten(ctx)
    rule_unflatten(ctx)
    rule_reshape(ctx)
    from . import c10
    # early exit of reshape is order sensitive (shared with C10-R3)
    # a tuple / list of dimensions given to a transform is grouped by _deal_with_axis in the listed order (shared with C08)
    from . import c08 as _c08
    from ..report import Renamed as _Ren2
    _c08.rule_deal_with_axis(_Ren2(ctx, {'*': 'R5'}))
    # ... and what is looked up after a reduction over the group (argmin / argmax labels) must be read from the grouped array, not from the original one
    # (shared with C09-R3)
    from . import c09 as _c09
    _c09.rule_arg(_Ren2(ctx, {'*': 'R6'}))
    ctx.not_decided += ['value at each grouped position (follows from NumPy C-order semantics, trusted)', 'reverse= and set-valued dims of flatten']
    ctx.trusted += ['ndarray.reshape is C-ordered by default', "np.meshgrid(indexing='ij') + ravel() enumerates in row-major order of the inputs"]
    return EXPLANATION
