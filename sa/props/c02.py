"""C02 - label slices are inclusive bounding boxes.

Decided statically (see DESIGN.md, C02):
  R1 rule selection   strict rule iff the axis is not numeric or not monotonic; bounding box
                      otherwise; a non-numeric bound on a numeric axis raises TypeError
  R2 side table       for {increasing, decreasing} x {step None, >0, <0} x {start, stop}: the
                      searchsorted call (array, bound, side) and the integer arithmetic around it
  R3 no wrap-around   a bound that would become -1 must turn into an empty / open selection
  R4 strict rule      inclusive-stop correction is +1 / -1 by step sign; open bounds stay None
  R5 plumbing         AbstractAxis.loc builds slice(istart, istop, val.step) from locate_slice
  R6 order predicates is_numeric / is_monotonic_equal / _is_ordered decide what they say
"""
import itertools

from .. import terms as T
from ..terms import const
from ..rules import (P_, run, ret_paths, raise_paths, exc_name, bind_call_args, int_eval, bool_eval,
                     strip_trivial)
from ..loader import AnalysisError

EXPLANATION = (
    "Finite decision-table analysis of dimarray.core.indexing.locate_slice / _locate_slice_strict: "
    "every combination of the atoms {axis numeric, monotonic, direction, step None/>0/<0, start given, "
    "stop given} is enumerated by path-sensitive value numbering of the function body (no execution); "
    "the returned bound terms are normalised (searchsorted(array, bound, side) atoms, affine integer "
    "arithmetic in n = len(axis) and the searchsorted result s in [0, n]) and compared, for all "
    "n <= 6 and all s, with the inclusive-bounding-box specification including the wrap-around rule. "
    "Structural necessary condition of C02; rounding and NumPy's searchsorted itself are trusted.")

LS = 'dimarray.core.indexing.locate_slice'
STRICT = 'dimarray.core.indexing._locate_slice_strict'

VALUES, START, STOP, STEP = P_('values'), P_('start'), P_('stop'), P_('step')


def step_facts(kind):
    none = T.mkcmp('is', STEP, T.CONST_NONE)
    pos = T.mkcmp('<', const(0), STEP)
    neg = T.mkcmp('<', STEP, const(0))
    return {'none': {none: True}, 'pos': {none: False, pos: True, neg: False},
            'neg': {none: False, pos: False, neg: True}}[kind]


def is_values(t):
    return strip_trivial(t) == VALUES


def size_atoms(t):
    """sub-terms denoting len(values)"""
    out = []
    for x in T.subterms(t):
        if x == ('attr', VALUES, 'size'):
            out.append(x)
        elif x[0] == 'call' and T.dotted(x[1]) == 'len' and len(x[2]) == 1 and x[2][0] == VALUES:
            out.append(x)
        elif x == ('sub', ('attr', VALUES, 'shape'), const(0)):
            out.append(x)
    return out


def norm_ss(call):
    """canonical (array, value, side) of a searchsorted call term"""
    if T.dotted(call[1]) in ('np.searchsorted', 'numpy.searchsorted'):
        arr = T.arg(call, 0, 'a')
        val = T.arg(call, 1, 'v')
        side = T.arg(call, 2, 'side', const('left'))
    elif call[1][0] == 'attr' and call[1][2] == 'searchsorted':
        arr = call[1][1]
        val = T.arg(call, 0, 'v')
        side = T.arg(call, 1, 'side', const('left'))
    else:
        return None
    if T.kw(call, 'sorter') is not None:
        return None
    if arr == ('sub', VALUES, ('slice', T.CONST_NONE, T.CONST_NONE, const(-1))):
        arr = 'rev'
    elif arr == VALUES:
        arr = 'fwd'
    else:
        arr = T.show(arr)
    return (arr, val, side[1] if side[0] == 'const' else T.show(side))


def make_oracle(numeric, mono, decreasing, bound_numeric=True):
    """Scenario oracle.  `mono`: the labels are monotonic (None: not stated); `decreasing`: True for strictly decreasing labels (at least two),
    False for increasing ones, 'equal' for an axis whose first and last label are the same (a single label: non-decreasing and non-increasing
    at once), None: not stated.  All the predicates the code may consult about the direction are answered from the same scenario."""
    def oracle(atom, st):
        if atom[0] == 'call':
            n = T.call_name(atom)
            if n == 'is_numeric' and len(atom[2]) == 1:
                a = strip_trivial(atom[2][0])
                if a == VALUES:
                    return numeric
                if a in (START, STOP):
                    return bound_numeric
            if n in ('is_monotonic_equal',) and len(atom[2]) == 1 and atom[2][0] == VALUES:
                return mono
            if n in ('is_increasing_equal', 'is_decreasing_equal') and len(atom[2]) == 1 and atom[2][0] == VALUES and mono is not None:
                if not mono:
                    return False
                if decreasing == 'equal':
                    return True
                if decreasing is not None:
                    return decreasing == (n == 'is_decreasing_equal')
        if atom[0] == 'cmp' and atom[1] in ('<', '<='):
            last, first = ('sub', VALUES, const(-1)), ('sub', VALUES, const(0))
            if decreasing == 'equal':
                if (atom[2], atom[3]) in ((last, first), (first, last)):
                    return atom[1] == '<='       # single label / equal ends: neither strictly ordered
            elif (atom[2], atom[3]) == (last, first) and (atom[1] == '<' or mono):
                return decreasing      # values[-1] < values[0]
            elif (atom[2], atom[3]) == (first, last) and (atom[1] == '<' or mono):
                return (not decreasing) if decreasing is not None else None
        return None
    return oracle


def _evaluates_to_none(value, atoms):
    """value is a conditional expression whose selected arm is the constant None"""
    while value[0] == 'ifexp':
        c = bool_eval(value[1], atoms)
        if c is None:
            return False
        value = value[2] if c else value[3]
    return value == T.CONST_NONE


def check_bound(ctx, fi, scen, which, path, value):
    """Compare one returned bound with the specification, for all small (n, s)."""
    decreasing, stepkind, given = scen['dec'], scen['step'], scen[which]
    label = '%s axis, step %s, %s bound' % ('decreasing' if decreasing else 'increasing', stepkind, which)
    if not given:
        if value != T.CONST_NONE:
            ctx.violated('R2', fi, 'open %s bound' % which,
                         'an omitted %s bound must stay None (open end), got %s' % (which, T.show(value)),
                         node=path.node)
            return False
        return True
    bound = START if which == 'start' else STOP
    positive = stepkind in ('none', 'pos')
    if which == 'start':
        side = ('left' if positive else 'right') if not decreasing else ('right' if positive else 'left')
    else:
        side = ('right' if positive else 'left') if not decreasing else ('left' if positive else 'right')
    want = ('rev' if decreasing else 'fwd', bound, side)
    # searchsorted atoms in the value and in the guards of this path
    ss_calls = {}
    for src in [value] + [a for a, _ in path.guards]:
        for c in T.calls_in(src, 'searchsorted'):
            k = norm_ss(c)
            if k is None:
                ctx.undecide('R2', 'unrecognised searchsorted form %s' % T.show(c))
                return False
            ss_calls[c] = k
    mine = {c: k for c, k in ss_calls.items() if k[1] == bound}
    sizes = set(size_atoms(value))
    for a, _ in path.guards:
        sizes.update(size_atoms(a))
    # is this path feasible at all in the scenario?  (a decreasing axis has at least 2 labels)
    nmin = 2 if decreasing else 0

    def feasible(n, s, sscall=None):
        atoms = {z: n for z in sizes}
        if sscall is not None:
            atoms[sscall] = s
        for a, pol in path.guards:
            if any(True for c in T.calls_in(a, 'searchsorted') if c != sscall):
                continue      # a test on the other bound
            if not (size_atoms(a) or (sscall is not None and T.contains(a, sscall))):
                continue
            r = bool_eval(a, atoms)
            if r is not None and r != pol:
                return False
        return True
    NMAX = 13 if ctx.tier == 'thorough' else 7
    if not any(feasible(n, 0) for n in range(nmin, NMAX)):
        return True           # path contradicts the scenario (e.g. empty axis in the decreasing table)
    if value == T.CONST_NONE and not mine:
        # closed bound turned into an open one without looking at the labels
        ctx.violated('R2', fi, '%s -> None' % which, '%s: bound given but result is None on a path that never '
                     'searched the labels' % label, node=path.node)
        return False
    for c, k in mine.items():
        if k != want:
            ctx.violated('R2', fi, T.show(c),
                         '%s: inclusive semantics needs searchsorted(%s, %s, side=%r); the code uses '
                         'searchsorted(%s, %s, side=%r)' % (label, 'values[::-1]' if want[0] == 'rev' else 'values',
                                                           which, want[2], 'values[::-1]' if k[0] == 'rev' else k[0],
                                                           T.show(k[1]), k[2]),
                         node=path.node, witness=['path guards: ' + ', '.join(
                             '%s=%s' % (T.show(a), p) for a, p in path.guards)])
            return False
    if len(mine) != 1:
        ctx.undecide('R2', '%s: expected exactly one searchsorted on the %s bound, found %d' % (label, which, len(mine)))
        return False
    sscall = list(mine)[0]
    ok = True
    for n in range(nmin, NMAX):
        for s in range(0, n + 1):
            atoms = {sscall: s}
            for z in sizes:
                atoms[z] = n
            if not feasible(n, s, sscall):
                continue
            raw = (s if not decreasing else n - s) - (0 if positive else 1)
            got = int_eval(value, atoms) if value != T.CONST_NONE else None
            if value != T.CONST_NONE and got is None and not _evaluates_to_none(value, atoms):
                ctx.undecide('R2', '%s: cannot evaluate %s' % (label, T.show(value)))
                return False
            if raw >= 0:
                good = (got == raw)
                rid = 'R2'
                expect = str(raw)
            elif which == 'stop':
                good = got is None
                rid = 'R3'
                expect = 'None (run to the first element)'
            else:
                good = got is not None and got <= -n - 1
                rid = 'R3'
                expect = 'an empty selection (index <= -n-1); -1 wraps around to the last element'
            if not good:
                ctx.violated(rid, fi, '%s = %s' % ('i' + which, T.show(value)),
                             '%s: with n=%d labels and searchsorted result %d the %s position must be %s, '
                             'the code yields %s' % (label, n, s, which, expect, got),
                             node=path.node,
                             witness=['returned term: ' + T.show(value),
                                      'path guards: ' + ', '.join('%s=%s' % (T.show(a), p) for a, p in path.guards)])
                return False
    return ok


def _size_feasible(path, nmin, nmax=7):
    """some number of labels n >= nmin agrees with every size test on the path"""
    sizes = set()
    for a, _ in path.guards:
        sizes.update(size_atoms(a))
    for n in range(nmin, nmax):
        atoms = {z: n for z in sizes}
        for a, pol in path.guards:
            if size_atoms(a) and not any(True for c in T.calls_in(a, 'searchsorted')):
                r = bool_eval(a, atoms)
                if r is not None and r != pol:
                    break
        else:
            return True
    return False


def rule_tables(ctx, fi):
    ctx.rule('R2', 'searchsorted side table and integer arithmetic (12 entries + open bounds)', 12)
    ctx.rule('R3', 'no wrap-around: a bound of -1 becomes open/empty', 4)
    n_entries = 0
    for dec, stepkind, has_start, has_stop in itertools.product([False, True], ['none', 'pos', 'neg'],
                                                                [True, False], [True, False]):
        scen = {'dec': dec, 'step': stepkind, 'start': has_start, 'stop': has_stop}
        facts = dict(step_facts(stepkind))
        facts[T.mkcmp('is', START, T.CONST_NONE)] = not has_start
        facts[T.mkcmp('is', STOP, T.CONST_NONE)] = not has_stop
        ev = run(ctx, fi, bind={'issorted': const(False)}, facts=facts,
                 oracle=make_oracle(True, True, dec))
        rets = ret_paths(ev)
        if raise_paths(ev) or not rets:
            ctx.violated('R2', fi, 'scenario %s' % scen, 'numeric monotonic axis with numeric bounds must not raise: %s'
                         % [T.show(p.value) for p in raise_paths(ev)])
            continue
        good = True
        for p in rets:
            v = p.value
            if not (v[0] == 'tuple' and len(v[1]) == 2):
                if dec and not _size_feasible(p, 2):
                    continue       # this path needs an axis of fewer than two labels: not a decreasing axis
                ctx.undecide('R2', 'locate_slice does not return a pair: %s' % T.show(v))
                good = False
                continue
            for which, comp in (('start', v[1][0]), ('stop', v[1][1])):
                good = check_bound(ctx, fi, scen, which, p, comp) and good
        for which in ('start', 'stop'):
            if scen[which] and good:
                ctx.holds('R2', '%s/%s/%s' % ('dec' if dec else 'inc', stepkind, which),
                          sample={'scenario': scen, 'returns': [T.show(p.value) for p in rets][:3]})
                if stepkind == 'neg':
                    ctx.holds('R3', '%s/%s/%s' % ('dec' if dec else 'inc', stepkind, which))
                n_entries += 1
    # an axis whose first and last labels are equal (a single label) must use the increasing table
    for stepkind in ('none', 'neg'):
        scen = {'dec': False, 'step': stepkind, 'start': True, 'stop': True}
        facts = dict(step_facts(stepkind))
        facts[T.mkcmp('is', START, T.CONST_NONE)] = False
        facts[T.mkcmp('is', STOP, T.CONST_NONE)] = False
        ev = run(ctx, fi, bind={'issorted': const(False)}, facts=facts, oracle=make_oracle(True, True, 'equal'))
        good = True
        for p in ret_paths(ev):
            v = p.value
            if v[0] == 'tuple' and len(v[1]) == 2:
                for which, comp in (('start', v[1][0]), ('stop', v[1][1])):
                    good = check_bound(ctx, fi, scen, which, p, comp) and good
        if good:
            ctx.holds('R2', 'single-label axis (first == last) uses the increasing table / step %s' % stepkind)
    # issorted=True short-cut must behave like the increasing table
    for stepkind in ('none', 'neg'):
        scen = {'dec': False, 'step': stepkind, 'start': True, 'stop': True}
        facts = dict(step_facts(stepkind))
        facts[T.mkcmp('is', START, T.CONST_NONE)] = False
        facts[T.mkcmp('is', STOP, T.CONST_NONE)] = False
        ev = run(ctx, fi, bind={'issorted': const(True)}, facts=facts, oracle=make_oracle(True, None, None))
        good = True
        for p in ret_paths(ev):
            v = p.value
            if v[0] == 'tuple' and len(v[1]) == 2:
                for which, comp in (('start', v[1][0]), ('stop', v[1][1])):
                    good = check_bound(ctx, fi, scen, which, p, comp) and good
        if good:
            ctx.holds('R2', 'issorted=True/%s' % stepkind)
    ctx.exhaustive = True


def rule_selection(ctx, fi):
    ctx.rule('R1', 'strict rule iff not numeric or not monotonic; TypeError for non-numeric bound', 4)
    strict = ctx.fn(STRICT)

    def is_strict_call(v):
        if v[0] == 'call' and T.call_name(v) == '_locate_slice_strict':
            b = bind_call_args(v, strict)
            return all(b.get(k) == P_(k) for k in ('values', 'start', 'stop', 'step'))
        return False

    for name, numeric, mono in (('non-numeric axis', False, True), ('numeric non-monotonic axis', True, False)):
        ev = run(ctx, fi, bind={'issorted': const(False)}, oracle=make_oracle(numeric, mono, False))
        bad = [p for p in ev.paths if not (p.kind == 'return' and is_strict_call(p.value))]
        if bad:
            ctx.violated('R1', fi, 'dispatch for ' + name,
                         '%s must use the strict rule _locate_slice_strict(values, start, stop, step); '
                         'a path yields %s %s' % (name, bad[0].kind, T.show(bad[0].value)), node=bad[0].node)
        else:
            ctx.holds('R1', name, sample={'paths': len(ev.paths), 'outcome': T.show(ev.paths[0].value)})
    # numeric & monotonic: never strict
    ev = run(ctx, fi, bind={'issorted': const(False)}, oracle=make_oracle(True, True, False))
    bad = [p for p in ev.paths if p.kind == 'return' and any(True for _ in T.calls_in(p.value, '_locate_slice_strict'))]
    if bad:
        ctx.violated('R1', fi, 'dispatch for numeric monotonic axis',
                     'numeric monotonic axes must use the bounding-box rule', node=bad[0].node)
    else:
        ctx.holds('R1', 'numeric monotonic axis -> bounding box')
    # non-numeric bound on numeric monotonic axis: TypeError
    for which in ('start', 'stop'):
        facts = {T.mkcmp('is', START, T.CONST_NONE): which != 'start',
                 T.mkcmp('is', STOP, T.CONST_NONE): which != 'stop'}
        ev = run(ctx, fi, bind={'issorted': const(False)}, facts=facts,
                 oracle=make_oracle(True, True, False, bound_numeric=False))
        bad = [p for p in ev.paths if not (p.kind == 'raise' and exc_name(p.value) == 'TypeError')]
        if bad:
            ctx.violated('R1', fi, 'non-numeric %s bound' % which,
                         'a non-numeric %s bound on a numeric axis must raise TypeError' % which, node=bad[0].node)
        else:
            ctx.holds('R1', 'non-numeric %s bound raises TypeError' % which)


def rule_strict(ctx):
    ctx.rule('R4', 'strict rule: +1/-1 inclusive-stop correction, open bounds stay None, no wrap-around at position 0', 6)
    # the structural reading (which evaluates the returned positions over a 5 x 5 grid) on trial; when it does not recognise how the bounds are located, the function is
    # interpreted on concrete labels instead (every start / stop / step combination of the scenario table)
    from ..report import on_trial
    on_trial(ctx, _rule_strict_structural, [STRICT], ('R4',), '_locate_slice_strict')


def _rule_strict_structural(ctx):
    fi = ctx.fn(STRICT)
    l1 = ctx.fn('dimarray.core.indexing.locate_one')
    for stepkind, has_start, has_stop in itertools.product(['none', 'pos', 'neg'], [True, False], [True, False]):
        facts = dict(step_facts(stepkind))
        facts[T.mkcmp('is', START, T.CONST_NONE)] = not has_start
        facts[T.mkcmp('is', STOP, T.CONST_NONE)] = not has_stop
        ev = run(ctx, fi, facts=facts)
        inst = 'step %s, start %s, stop %s' % (stepkind, has_start, has_stop)
        ok = True
        # the locate_one calls of this scenario (in values or guards), by bound
        locs = {}
        for p in ev.paths:
            for src in [p.value] + [a for a, _ in p.guards]:
                for c in T.calls_in(src, 'locate_one'):
                    b = bind_call_args(c, l1)
                    if b.get('values') != VALUES or b.get('val') not in (START, STOP):
                        ctx.violated('R4', fi, T.show(c), 'strict bounds are located with locate_one(values, start|stop), got %s' % T.show(c), node=p.node)
                        ok = False
                        continue
                    if b.get('tol') is not None or (b.get('side') not in (None, const('left'))):
                        ctx.violated('R4', fi, T.show(c), 'strict bounds must be exact first matches (no tolerance, left side)', node=p.node)
                        ok = False
                        continue
                    locs.setdefault('start' if b['val'] == START else 'stop', set()).add(c)
        for which, given in (('start', has_start), ('stop', has_stop)):
            if given and len(locs.get(which, ())) != 1:
                ctx.undecide('R4', '%s: expected exactly one locate_one(values, %s) term, found %d' % (inst, which, len(locs.get(which, ()))))
                ok = False
        if not ok:
            continue
        N = 5
        covered = set()
        from ..rules import alternatives

        class _VP(object):          # a path with one resolution of the conditional expressions in its value (`None if istop < 0 else istop`)
            def __init__(self, p, value, extra):
                self.value, self.guards, self.kind, self.node = value, tuple(p.guards) + tuple(extra), p.kind, p.node
        for p in [_VP(p, v_, extra) for p in ev.paths for v_, extra in (alternatives(p.value) if p.kind == 'return' else [(p.value, ())])]:
            v = p.value
            if p.kind != 'return' or v[0] != 'tuple' or len(v[1]) != 2:
                ctx.undecide('R4', 'unexpected outcome %s %s' % (p.kind, T.show(v)))
                ok = False
                continue
            stepvals = {'none': [None], 'pos': [1, 2], 'neg': [-1, -2]}[stepkind]
            for ka, kb, sv in itertools.product(range(N), range(N), stepvals):
                atoms = {('attr', VALUES, 'size'): N, ('call', ('name', 'len'), (VALUES,), ()): N}
                if sv is not None:
                    atoms[STEP] = sv
                for which, k in (('start', ka), ('stop', kb)):
                    for c in locs.get(which, ()):
                        atoms[c] = k
                feas = True
                for a, pol in p.guards:
                    if not any(c in atoms for c in T.calls_in(a, 'locate_one')):
                        continue
                    r = bool_eval(a, atoms)
                    if r is None and a[0] not in ('cmp', 'boolop', 'unop'):
                        iv = int_eval(a, atoms)          # truthiness of an integer position (`if istop:`)
                        r = None if iv is None else bool(iv)
                    if r is None:
                        ctx.undecide('R4', '%s: guard %s not evaluable' % (inst, T.show(a)[:80]))
                        ok = False
                        feas = False
                        break
                    if r != pol:
                        feas = False
                        break
                if not feas:
                    continue
                covered.add((ka, kb))
                for which, comp, given, k in (('start', v[1][0], has_start, ka), ('stop', v[1][1], has_stop, kb)):
                    comp = strip_trivial(comp)
                    if not given:
                        if comp != T.CONST_NONE:
                            ctx.violated('R4', fi, 'open %s' % which, 'omitted %s bound must stay None, got %s' % (which, T.show(comp)), node=p.node)
                            ok = False
                        continue
                    got = None if comp == T.CONST_NONE else int_eval(comp, atoms)
                    if comp != T.CONST_NONE and got is None:
                        ctx.undecide('R4', '%s: %s position %s not evaluable' % (inst, which, T.show(comp)[:80]))
                        ok = False
                        continue
                    want = k if which == 'start' else (k + 1 if stepkind in ('none', 'pos') else k - 1)
                    if want == -1:
                        # negative step, stop label in first position: the selection runs down to and including position 0; as a slice
                        # bound -1 means "the last element" (empty, wrapped-around selection): only None or <= -size-1 expresses it
                        if not (comp == T.CONST_NONE or got <= -N - 1):
                            ctx.violated('R4', fi, 'istop = %s' % T.show(v[1][1])[:80],
                                         'strict rule, negative step: when the stop label sits at position 0 the stop position becomes %s; as a slice bound -1 '
                                         'is the last element, so a[start:first_label:-1] is empty instead of running down to the first element '
                                         '(the bound must become None / open)' % got, node=p.node)
                            ok = False
                        continue
                    if comp == T.CONST_NONE or got != want:
                        ctx.violated('R4', fi, 'i%s = %s' % (which, T.show(v[1][0] if which == 'start' else v[1][1])[:80]),
                                     'strict rule, step %s: label found at position %d must give %s position %d '
                                     '(stop is inclusive), the code yields %s' % (stepkind, k, which, want, got if comp != T.CONST_NONE else None),
                                     node=p.node)
                        ok = False
                if not ok:
                    break
            if not ok:
                break
        if ok and len(covered) != N * N:
            ctx.undecide('R4', '%s: only %d of %d (istart, istop) positions are covered by a returning path' % (inst, len(covered), N * N))
            ok = False
        if ok:
            ctx.holds('R4', inst, sample=[T.show(p.value) for p in ev.paths][:2])


def rule_plumbing(ctx):
    ctx.rule('R5', 'AbstractAxis.loc: slice(istart, istop, val.step) from locate_slice(values, val.start, val.stop, val.step)', 1)
    fi = ctx.fn('dimarray.core.bases.AbstractAxis.loc')
    ls = ctx.fn(LS)
    VAL = P_('val')
    isslice = T.mkcmp('is', ('call', ('name', 'type'), (VAL,), ()), ('name', 'slice'))

    def oracle(atom, st):
        if atom == isslice:
            return True
        if atom[0] == 'call' and T.dotted(atom[1]) == 'isinstance' and atom[2][0] == VAL \
                and atom[2][1] == ('name', 'slice'):
            return True
        # (the index is a slice: every other kind test, wherever it stands in the dispatch, is false)
        if atom == T.mkcmp('is', VAL, T.CONST_NONE):
            return False
        if atom[0] == 'call' and T.call_name(atom) == 'isscalar' and atom[2] == (VAL,):
            return False
        if atom[0] == 'call' and T.dotted(atom[1]) == 'hasattr' and atom[2][:1] == (VAL,):
            return False
        return None
    ev = run(ctx, fi, oracle=oracle)
    rets = ret_paths(ev)
    ctx.require('R5', rets, 'loc has no return path for slices')
    n = 0
    for p in rets:
        v = p.value
        if not (v[0] == 'call' and T.dotted(v[1]) == 'slice' and len(v[2]) == 3):
            ctx.violated('R5', fi, 'return ' + T.show(v), 'a slice index must be answered by slice(istart, istop, step)',
                         node=p.node)
            continue
        a0, a1, a2 = v[2]
        calls = [c for c in T.calls_in(a0, 'locate_slice')]
        if not calls or a0 != ('item', calls[0], 0) or a1 != ('item', calls[0], 1):
            ctx.violated('R5', fi, 'return ' + T.show(v), 'slice bounds must be the (istart, istop) pair returned '
                         'by locate_slice, in that order', node=p.node)
            continue
        b = bind_call_args(calls[0], ls)
        want = {'start': ('attr', VAL, 'start'), 'stop': ('attr', VAL, 'stop'), 'step': ('attr', VAL, 'step')}
        bad = [k for k, w in want.items() if b.get(k) != w]
        vals = b.get('values')
        if bad or not (vals is not None and T.derives_from(vals, P_('self')) and 'values' in T.show(vals)):
            ctx.violated('R5', fi, T.show(calls[0]), 'locate_slice must receive the axis values and val.start / '
                         'val.stop / val.step in their own slots (mismatch: %s)' % (bad or 'values'), node=p.node)
            continue
        if a2 != ('attr', VAL, 'step'):
            ctx.violated('R5', fi, 'return ' + T.show(v), 'the step of the label slice must be passed through unchanged',
                         node=p.node)
            continue
        n += 1
        ctx.holds('R5', 'loc slice branch', sample=T.show(v))


def rule_predicates(ctx):
    ctx.rule('R6', 'is_numeric / _is_ordered family decide what their names say', 6)
    num = ctx.fn('dimarray.core.indexing.is_numeric')
    ev = run(ctx, num)
    for p in ev.paths:
        v = p.value
        if p.kind == 'return' and v[0] == 'cmp' and v[1] == 'in' and v[3][0] in ('tuple', 'list', 'set') \
                and all(x[0] == 'const' for x in v[3][1]) and v[2] == ('attr', ('attr', P_('values'), 'dtype'), 'kind'):
            kinds = set(x[1] for x in v[3][1])
            if not {'i', 'f'} <= kinds or kinds - {'i', 'f', 'u'}:
                ctx.violated('R6', num, T.show(v), 'numeric axes are exactly the int/float(/uint) kinds, got %s' % sorted(kinds),
                             node=p.node)
            else:
                ctx.holds('R6', 'is_numeric kinds', sample=sorted(kinds))
        else:
            ctx.undecide('R6', 'is_numeric has an unrecognised form: %s' % T.show(v))
    want = {'is_increasing': 'greater', 'is_increasing_equal': 'greater_equal', 'is_decreasing': 'less',
            'is_decreasing_equal': 'less_equal'}
    for fn, ufunc in want.items():
        fi = ctx.fn('dimarray.core.indexing.' + fn)
        ev = run(ctx, fi)
        for p in ev.paths:
            v = p.value
            if p.kind == 'return' and v[0] == 'call' and T.call_name(v) == '_is_ordered' and len(v[2]) == 2 \
                    and v[2][0] == P_('values'):
                got = T.dotted(v[2][1])
                if got != 'np.' + ufunc:
                    ctx.violated('R6', fi, T.show(v), '%s must compare successive labels with np.%s, uses %s'
                                 % (fn, ufunc, got), node=p.node)
                else:
                    ctx.holds('R6', fn)
            else:
                ctx.undecide('R6', '%s has an unrecognised form: %s' % (fn, T.show(v)))
    fi = ctx.fn('dimarray.core.indexing._is_ordered')
    ev = run(ctx, fi)
    okk = 0
    for p in ev.paths:
        v = p.value
        if p.kind != 'return':
            continue
        if v == T.CONST_TRUE:
            okk += 1
            continue
        later = ('sub', P_('values'), ('slice', const(1), T.CONST_NONE, T.CONST_NONE))
        earlier = ('sub', P_('values'), ('slice', T.CONST_NONE, const(-1), T.CONST_NONE))
        if v[0] == 'call' and T.dotted(v[1]) == 'np.all' and v[2] and v[2][0][0] == 'call' \
                and v[2][0][1] == P_('cmp_') and v[2][0][2] == (later, earlier):
            okk += 1
        else:
            ctx.violated('R6', fi, T.show(v), '_is_ordered must test cmp(values[1:], values[:-1]) for all neighbours',
                         node=p.node)
    if okk >= 2:
        ctx.holds('R6', '_is_ordered')
    fi = ctx.fn('dimarray.core.indexing.is_monotonic_equal')
    ev = run(ctx, fi, mode='join')
    vals = set()
    for p in ev.paths:
        for c in T.calls_in(p.value):
            vals.add(T.call_name(c))
        for a, _ in p.guards:
            for c in T.calls_in(a):
                vals.add(T.call_name(c))
    if {'is_increasing_equal', 'is_decreasing_equal'} <= vals:
        ctx.holds('R6', 'is_monotonic_equal')
    else:
        ctx.violated('R6', fi, 'is_monotonic_equal', 'must accept non-strictly increasing or decreasing label '
                     'sequences (uses %s)' % sorted(vals))


def rule_empty_axis(ctx, fi):
    """R7: length-0 axes are in the quantifier: values[0] / values[-1] may only be read on paths
    that already tested the size (sibling _is_ordered does; contradiction rule)."""
    ctx.rule('R7', 'first/last label read only after a size test (empty axes)', 1)
    ev = run(ctx, fi, bind={'issorted': const(False)}, oracle=make_oracle(True, True, None))
    bad = None
    n = 0
    for p in ev.paths:
        sized = False
        for atom, pol in p.guards:
            if size_atoms(atom):
                sized = True
            derefs = [x for x in T.subterms(atom) if x[0] == 'sub' and x[1] == VALUES and x[2][0] == 'const'
                      and isinstance(x[2][1], int)]
            if derefs:
                n += 1
                if not sized:
                    bad = (p, atom)
                break
    if bad:
        ctx.violated('R7', fi, T.show(bad[1]), 'the first/last label is read without a preceding size test: a label '
                     'slice on a length-0 numeric axis raises IndexError instead of returning an empty selection',
                     node=bad[0].node)
    elif n:
        ctx.holds('R7', 'values[0]/values[-1] guarded by size test on %d paths' % n)
    else:
        ctx.holds('R7', 'no constant-position read of the label array')


def check(ctx):
    fi = ctx.fn(LS)
    rule_selection(ctx, fi)
    rule_empty_axis(ctx, fi)
    rule_tables(ctx, fi)
    rule_strict(ctx)
    rule_plumbing(ctx)
    rule_predicates(ctx)
    # a label slice combined with scalar / list indices on other dimensions goes through orthogonal_indexer (shared with C01)
    from . import c01
    c01.rule_orthogonal_indexer(ctx, rid='R8')
    c01.rule_issorted_provenance(ctx, rid='R9')
    # the bounds of a slice are searched by value only on numeric axes (is_numeric table, shared with C01)
    c01.rule_is_numeric(ctx, rid='R10')
    # label slices on a Dataset are applied per variable by Dataset.take: positions keyed by each variable's own dimension names (shared with C14)
    from . import c14
    from ..report import Renamed
    ctx.rule('R10', 'Dataset.take hands each variable its indices by dimension name (shared with C14)', 1)
    c14.rule_take(Renamed(ctx, {'*': 'R10'}))
    ctx.not_decided += ['is_monotonic_equal on arrays with repeated values (value level)', 'float rounding',
                        "NumPy's searchsorted semantics (trusted: first i with a[i] >= v is side='left', "
                        "first i with a[i] > v is side='right')"]
    ctx.trusted += ["numpy.searchsorted documented semantics", "Python slice semantics for negative indices",
                    "CPython ast module"]
    return EXPLANATION
