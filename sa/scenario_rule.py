"""Rule RS: scenario tables (see sa/scenario.py).  For every function listed in sa/scenarios_def.SCENARIOS under the property being checked, the function is interpreted on
each abstract argument form and the outcome is compared with the frozen table sa/tables/scenarios.json."""
import json
import os

from .scenario import run_scenario
from . import scenarios_def as SD

TABLE = os.path.join(os.path.dirname(os.path.abspath(__file__)), 'tables', 'scenarios.json')


# Scenarios in which the *type* of the exception is part of a property (C12: inputs whose other axes carry different labels raise ValueError).  Everywhere else the
# properties say "rejected with an exception" at most: an invalid argument form that is refused with another exception type is refused all the same.
STRICT_EXC = {
    'dimarray.core.align.stack': ('different labels along y, no align', 'different single labels along a size-1 axis, no align'),
    'dimarray.core.align.concatenate': ('secondary labels differ, no align',),
}


def _norm(q, label, outcome):
    if outcome.startswith('raise:') and label not in STRICT_EXC.get(q, ()):
        return 'raise'
    return outcome


def load_table():
    if not os.path.exists(TABLE):
        return {}
    with open(TABLE) as f:
        return json.load(f)


def outcomes(P, q, gen):
    fi = P.functions.get(q)
    if fi is None:
        return None
    SD.P_HOLDER[:] = [P]
    out = []
    seen = set()
    for item in gen(P):
        label, mk = item
        if label in seen:
            continue
        seen.add(label)
        r = mk()
        if r and r[0] == 'METHOD':
            # the scenario names another method of the same class (a thin public wrapper around the analysed function)
            _, mname, args, kwargs, opts = r
            fm = P.functions.get(q.rsplit('.', 1)[0] + '.' + mname)
            if fm is None:
                from .scenario import Outcome
                out.append((label, Outcome('undecided', 'method %s no longer exists' % mname)))
                continue
            out.append((label, run_scenario(P, fm, args, kwargs, **opts)))
            continue
        args, kwargs = r[0], r[1]
        opts = r[2] if len(r) > 2 else {}
        if kwargs and fi.name.startswith('_'):
            # keyword names of a private helper as they were when the scenarios were written -> as they are now (renamed parameters, same positions)
            from .rules import renamed_params
            back = dict((w, c) for c, w in renamed_params(fi).items())
            kwargs = dict((back.get(k, k), v) for k, v in kwargs.items())
        out.append((label, run_scenario(P, fi, args, kwargs, **opts)))
    return out


def rule_scenarios(ctx, rid='RS', only=None, title=None):
    """`only`: the one function whose table is used as the decision procedure of rule `rid` of a property (instead of the property's RS rule)"""
    table = load_table()
    if only is not None:
        mine = [(only, SD.SCENARIOS[only][1])]
    else:
        mine = [(q, gen) for q, (props, gen) in sorted(SD.SCENARIOS.items()) if ctx.prop in props]
    n_expected = sum(len(table.get(q, {})) for q, _ in mine)
    ctx.rule(rid, title or 'scenario tables: argument handling of %d function(s) interpreted on abstract argument forms (%d frozen outcomes)' % (len(mine), n_expected), max(1, n_expected))
    for q, gen in mine:
        res = outcomes(ctx.P, q, gen)
        if res is None:
            name = q.rsplit('.', 1)[-1]
            if name.startswith('_') and not name.startswith('__') and not any(f.name == name for f in ctx.P.functions.values()):
                # a private helper that was merged into its caller: what it did is part of the caller's scenarios now
                for label in sorted(table.get(q, {})):
                    ctx.holds(rid, '%s [%s]: private helper no longer exists anywhere (merged into its callers)' % (name, label))
                continue
            ctx.undecide(rid, 'function %s of the scenario tables no longer exists' % q)
            continue
        fi = ctx.P.functions[q]
        ctx.functions.add(q)
        frozen = table.get(q, {})
        nbad = 0
        for label, o in res:
            want = frozen.get(label)
            got = '%s:%s' % (o.kind, o.text)
            if o.kind == 'undecided':
                ctx.undecide(rid, '%s [%s]: the interpreter cannot follow the code: %s' % (q.split('.')[-1], label, o.text[:140]))
                continue
            if want is None:
                ctx.undecide(rid, '%s [%s]: scenario missing from the frozen table (regenerate with tools/gen_scenarios.py and review)' % (q.split('.')[-1], label))
                continue
            if '(invalid)' in label:
                # an argument form no documentation offers: whether it is refused, and how, is not part of any property - interpreted (the code must be followable), not compared
                ctx.holds(rid, '%s [%s] (undocumented form, outcome not compared)' % (q.split('.')[-1], label))
                continue
            if _norm(q, label, got) != _norm(q, label, want):
                nbad += 1
                if nbad <= 3:
                    ctx.violated(rid, fi, '%s: %s' % (q.split('.')[-1], label), 'interpreted on this argument form the function gives\n      %s\n    expected\n      %s'
                                 % (got[:400], want[:400]), node=fi.node)
            else:
                ctx.holds(rid, '%s [%s]' % (q.split('.')[-1], label))
        if nbad > 3:
            ctx.info('%s: %d further scenarios differ' % (q, nbad - 3))
