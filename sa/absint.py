"""Kind-level abstract interpretation of small pure helper functions.

The interpreter walks the AST of one repository function with *abstract* inputs: structure (tuples, lists, ints, booleans) is
kept as Python values, opaque data is replaced by `Kind` tokens (INT, FULL, SL, ARR, IX ...).  Calls are answered by a table
supplied by the rule (builtins such as len / range / all / enumerate are built in); nested functions and closures are supported.
Anything outside the supported subset raises `Undecided`, which the rules turn into exit 2 - never into a verdict.

No repository code is imported or executed: the interpreter only follows the syntax tree of the function under analysis over a
finite abstract domain (all key patterns up to a small length).
"""
import ast


class Undecided(Exception):
    pass


class Kind(object):
    __slots__ = ('name',)

    def __init__(self, name):
        self.name = name

    def __repr__(self):
        return self.name

    def __eq__(self, other):
        return isinstance(other, Kind) and other.name == self.name

    def __hash__(self):
        return hash(('Kind', self.name))


class TypeTok(object):
    """a type object appearing in isinstance(...)"""
    def __init__(self, name):
        self.name = name

    def __repr__(self):
        return '<type %s>' % self.name


class AbsObj(object):
    """an abstract object supplied by a rule: `length` answers len(), `items` answers obj[i] for constant i, `attrs` answers obj.name,
    `methods` maps a method name to a Python callable(obj, args, kwargs) -> value. Anything else is Undecided."""
    def __init__(self, name, length=None, items=None, attrs=None, methods=None):
        self.name = name
        self.length = length
        self.items = items or {}
        self.attrs = attrs or {}
        self.methods = methods or {}
        self.types = None           # names of the classes isinstance() answers True for (None: isinstance is Undecided)

    def __repr__(self):
        return '<%s>' % (self.name,)


class Closure(object):
    def __init__(self, node, env, interp):
        self.node = node
        self.env = env
        self.interp = interp


class _Break(Exception):
    pass


class _Continue(Exception):
    pass


class _Return(Exception):
    def __init__(self, value):
        self.value = value


class Raised(Exception):
    def __init__(self, name):
        self.name = name


class Interp(object):
    def __init__(self, externals, kind_types, steps=20000):
        """externals: name (dotted) -> callable(args, kwargs) on abstract values
        kind_types: Kind name -> set of type names the kind is an instance of"""
        self.ext = externals
        self.kind_types = kind_types
        self.steps = steps
        self.module_assigns = {}     # name -> ast expression of a module-level assignment (evaluated on first use, in `module_env`)
        self.module_env = None
        self._globals = {}

    def with_module(self, mod, env):
        """let the interpreted functions see the module's top-level constants (tables, tuples of names, ...) and functions"""
        self.module_assigns = dict((k, v[-1]) for k, v in mod.assigns.items() if v)
        self.module_env = env
        return self

    def call_function(self, node, args, env=None, kwargs=None):
        env = dict(env or {})
        params = [a.arg for a in node.args.args]
        kwargs = dict(kwargs or {})
        if len(args) > len(params) and not node.args.vararg:
            raise Undecided('arity mismatch calling %s' % node.name)
        bound = dict(zip(params, args))
        if node.args.vararg:
            bound[node.args.vararg.arg] = tuple(args[len(params):])
        defaults = dict(zip(params[len(params) - len(node.args.defaults):], node.args.defaults))
        for p_ in params[len(args):]:
            if p_ in kwargs:
                bound[p_] = kwargs.pop(p_)
            elif p_ in defaults:
                bound[p_] = self.expr(defaults[p_], env)
            else:
                raise Undecided('arity mismatch calling %s' % node.name)
        if kwargs:
            raise Undecided('unexpected keyword arguments calling %s' % node.name)
        env.update(bound)
        try:
            self.block(node.body, env)
        except _Return as r:
            return r.value
        return None

    def block(self, stmts, env):
        for st in stmts:
            self.stmt(st, env)

    def tick(self):
        self.steps -= 1
        if self.steps < 0:
            raise Undecided('step budget exceeded')

    def stmt(self, st, env):
        self.tick()
        if isinstance(st, ast.Expr):
            if isinstance(st.value, ast.Constant):
                return
            self.expr(st.value, env)
        elif isinstance(st, ast.Assign):
            v = self.expr(st.value, env)
            for t in st.targets:
                self.assign(t, v, env)
        elif isinstance(st, ast.Return):
            raise _Return(self.expr(st.value, env) if st.value is not None else None)
        elif isinstance(st, ast.If):
            if self.truth(self.expr(st.test, env)):
                self.block(st.body, env)
            else:
                self.block(st.orelse, env)
        elif isinstance(st, ast.For):
            broke = False
            for x in self.iterate(self.expr(st.iter, env)):
                self.assign(st.target, x, env)
                try:
                    self.block(st.body, env)
                except _Break:
                    broke = True
                    break
                except _Continue:
                    continue
            if not broke:
                self.block(st.orelse, env)
        elif isinstance(st, ast.While):
            broke = False
            while self.truth(self.expr(st.test, env)):
                self.tick()
                try:
                    self.block(st.body, env)
                except _Break:
                    broke = True
                    break
                except _Continue:
                    continue
            if not broke:
                self.block(st.orelse, env)
        elif isinstance(st, ast.Break):
            raise _Break()
        elif isinstance(st, ast.Continue):
            raise _Continue()
        elif isinstance(st, ast.FunctionDef):
            env[st.name] = Closure(st, env, self)
        elif isinstance(st, ast.Raise):
            name = ast.unparse(st.exc.func) if isinstance(st.exc, ast.Call) else ast.unparse(st.exc) if st.exc else 'reraise'
            raise Raised(name)
        elif isinstance(st, ast.Pass):
            return
        elif isinstance(st, ast.AugAssign) and isinstance(st.target, ast.Name):
            v = self.expr(ast.BinOp(left=ast.Name(id=st.target.id, ctx=ast.Load()), op=st.op, right=st.value), env)
            env[st.target.id] = v
        elif isinstance(st, ast.Assert):
            if not self.truth(self.expr(st.test, env)):
                raise Raised('AssertionError')
        else:
            raise Undecided('unsupported statement %s' % st.__class__.__name__)

    def assign(self, t, v, env):
        if isinstance(t, ast.Name):
            env[t.id] = v
        elif isinstance(t, (ast.Tuple, ast.List)) and any(isinstance(e, ast.Starred) for e in t.elts):
            vals = list(self.iterate(v))
            k = [i for i, e in enumerate(t.elts) if isinstance(e, ast.Starred)]
            if len(k) != 1 or len(vals) < len(t.elts) - 1:
                raise Undecided('starred unpack')
            k = k[0]
            after = len(t.elts) - k - 1
            for e, x in zip(t.elts[:k], vals[:k]):
                self.assign(e, x, env)
            self.assign(t.elts[k].value, vals[k:len(vals) - after], env)
            for e, x in zip(t.elts[k + 1:], vals[len(vals) - after:]):
                self.assign(e, x, env)
        elif isinstance(t, (ast.Tuple, ast.List)):
            vals = list(self.iterate(v))
            if len(vals) != len(t.elts):
                raise Undecided('unpack length')
            for e, x in zip(t.elts, vals):
                self.assign(e, x, env)
        elif isinstance(t, ast.Subscript) and isinstance(t.slice, ast.Slice):
            # slice assignment on a local list: xs[a:b] = ys
            c = self.expr(t.value, env)
            lo = self.expr(t.slice.lower, env) if t.slice.lower else None
            hi = self.expr(t.slice.upper, env) if t.slice.upper else None
            if t.slice.step is not None or not isinstance(c, list) or not all(x is None or (isinstance(x, int) and not isinstance(x, bool)) for x in (lo, hi)):
                raise Undecided('slice store')
            c[lo:hi] = list(self.iterate(v))
        elif isinstance(t, ast.Subscript):
            c = self.expr(t.value, env)
            i = self.expr(t.slice, env)
            if isinstance(c, dict):
                try:
                    c[i] = v
                except TypeError:
                    raise Undecided('unhashable key %r' % (i,))
                return
            if not isinstance(c, list) or not isinstance(i, int):
                raise Undecided('subscript store on non-list')
            c[i] = v
        else:
            raise Undecided('unsupported assignment target')

    def iterate(self, v):
        if isinstance(v, (list, tuple, range)):
            return list(v)
        if isinstance(v, dict):
            return list(v.keys())
        if isinstance(v, (frozenset, set)):
            return sorted(v, key=repr)
        raise Undecided('iteration over %r' % (v,))

    def truth(self, v):
        if isinstance(v, (bool, int, list, tuple, range, dict, frozenset, set)) or v is None:
            return bool(v)
        if isinstance(v, str):
            return bool(v)
        if isinstance(v, AbsObj):
            return True if v.length is None else v.length > 0
        raise Undecided('truth value of %r' % (v,))

    def expr(self, e, env):
        self.tick()
        if isinstance(e, ast.Constant):
            return e.value
        if isinstance(e, ast.Name):
            if e.id in env:
                return env[e.id]
            if e.id in ('slice', 'int', 'list', 'tuple', 'bool', 'str', 'dict', 'float'):
                return TypeTok(e.id)
            if e.id in ('True', 'False', 'None'):
                return {'True': True, 'False': False, 'None': None}[e.id]
            if e.id == 'Ellipsis':
                return Kind('ELLIPSIS')
            if e.id in self.ext or e.id in ('len', 'range', 'all', 'any', 'enumerate', 'isinstance', 'zip', 'sum', 'min', 'max', 'sorted', 'abs', 'reversed',
                                            'next', 'iter', 'map', 'filter', 'hasattr', 'getattr', 'type', 'callable', 'repr'):
                return ('builtin', e.id)
            if e.id in ('frozenset', 'set', 'object', 'complex'):
                return TypeTok(e.id)
            if e.id in self._globals:
                return self._globals[e.id]
            if e.id in self.module_assigns:
                v = self.expr(self.module_assigns[e.id], self.module_env if self.module_env is not None else env)
                self._globals[e.id] = v
                return v
            raise Undecided('unknown name %s' % e.id)
        if isinstance(e, ast.Attribute):
            d = ast.unparse(e)
            if d in env:
                return env[d]             # a field of an abstract object, supplied by the rule (e.g. 'self.ndim')
            try:
                base = self.expr(e.value, env)
            except Undecided:
                base = None
            if isinstance(base, AbsObj):
                if e.attr in base.attrs:
                    return base.attrs[e.attr]
                if e.attr in base.methods:
                    return ('method', base, e.attr)
                raise Undecided('attribute %s of %r' % (e.attr, base))
            if d in self.ext:
                return ('builtin', d)
            if isinstance(base, Kind) and ('Kind.' + e.attr) in self.ext:
                return ('kindmethod', base, e.attr)       # a method of a kind, modelled by the rule (slice.indices)
            if d in ('np.integer', 'np.ndarray'):
                return TypeTok(d)
            if d in ('itertools.takewhile', 'itertools.dropwhile', 'itertools.chain', 'itertools.chain.from_iterable', 'itertools.product', 'itertools.count',
                     'functools.reduce', 'functools.partial', 'operator.or_', 'operator.and_', 'operator.add'):
                return ('builtin', d)
            raise Undecided('unknown attribute %s' % d)
        if isinstance(e, (ast.Tuple, ast.List)):
            vals = []
            for x in e.elts:
                if isinstance(x, ast.Starred):
                    vals.extend(self.iterate(self.expr(x.value, env)))
                else:
                    vals.append(self.expr(x, env))
            return tuple(vals) if isinstance(e, ast.Tuple) else vals
        if isinstance(e, (ast.ListComp, ast.GeneratorExp)):
            return self.comp(e, env)
        if isinstance(e, ast.Lambda):
            fn = ast.FunctionDef(name='<lambda>', args=e.args, body=[ast.Return(value=e.body)], decorator_list=[], returns=None, type_comment=None, type_params=[])
            ast.copy_location(fn, e)
            ast.fix_missing_locations(fn)
            return Closure(fn, env, self)
        if isinstance(e, ast.Set):
            try:
                return frozenset(self.expr(x, env) for x in e.elts)
            except TypeError:
                raise Undecided('unhashable set element')
        if isinstance(e, ast.Dict):
            d = {}
            for k, v in zip(e.keys, e.values):
                if k is None:
                    raise Undecided('dict unpacking')
                kk = self.expr(k, env)
                try:
                    d[kk] = self.expr(v, env)
                except TypeError:
                    raise Undecided('unhashable dict key %r' % (kk,))
            return d
        if isinstance(e, ast.DictComp):
            raise Undecided('dict comprehension')
        if isinstance(e, ast.Subscript):
            c = self.expr(e.value, env)
            if isinstance(e.slice, ast.Slice):
                lo = self.expr(e.slice.lower, env) if e.slice.lower else None
                hi = self.expr(e.slice.upper, env) if e.slice.upper else None
                stp = self.expr(e.slice.step, env) if e.slice.step else None
                if isinstance(c, (list, tuple)):
                    return c[lo:hi:stp]
                raise Undecided('slice of %r' % (c,))
            i = self.expr(e.slice, env)
            if isinstance(c, AbsObj):
                if i in c.items:
                    return c.items[i]
                if isinstance(i, int) and c.length is not None and not (-c.length <= i < c.length):
                    raise Raised('IndexError')
                raise Undecided('item %r of %r' % (i, c))
            if isinstance(c, dict):
                try:
                    if i in c:
                        return c[i]
                except TypeError:
                    raise Undecided('unhashable key %r' % (i,))
                raise Raised('KeyError')
            if isinstance(c, (list, tuple)) and isinstance(i, int):
                try:
                    return c[i]
                except IndexError:
                    raise Raised('IndexError')
            raise Undecided('subscript %r[%r]' % (c, i))
        if isinstance(e, ast.BinOp):
            a, b = self.expr(e.left, env), self.expr(e.right, env)
            ok = (isinstance(a, int) and isinstance(b, int)) or (isinstance(a, (list, tuple)) and isinstance(b, type(a))) or \
                (isinstance(a, (list, tuple)) and isinstance(b, int)) or (isinstance(b, (list, tuple)) and isinstance(a, int))
            if not ok:
                raise Undecided('binop on %r, %r' % (a, b))
            if isinstance(e.op, ast.Add):
                return a + b
            if isinstance(e.op, ast.Sub):
                return a - b
            if isinstance(e.op, ast.Mult):
                return a * b
            if isinstance(e.op, (ast.Mod, ast.FloorDiv)) and isinstance(a, int) and isinstance(b, int):
                if b == 0:
                    raise Raised('ZeroDivisionError')
                return a % b if isinstance(e.op, ast.Mod) else a // b
            raise Undecided('operator')
        if isinstance(e, ast.UnaryOp):
            v = self.expr(e.operand, env)
            if isinstance(e.op, ast.Not):
                return not self.truth(v)
            if isinstance(e.op, ast.USub) and isinstance(v, int):
                return -v
            raise Undecided('unary')
        if isinstance(e, ast.BoolOp):
            if isinstance(e.op, ast.And):
                v = True
                for x in e.values:
                    v = self.expr(x, env)
                    if not self.truth(v):
                        return v
                return v
            v = False
            for x in e.values:
                v = self.expr(x, env)
                if self.truth(v):
                    return v
            return v
        if isinstance(e, ast.Compare):
            left = self.expr(e.left, env)
            for op, c in zip(e.ops, e.comparators):
                right = self.expr(c, env)
                r = self.compare(op, left, right)
                if not r:
                    return False
                left = right
            return True
        if isinstance(e, ast.IfExp):
            return self.expr(e.body, env) if self.truth(self.expr(e.test, env)) else self.expr(e.orelse, env)
        if isinstance(e, ast.Call):
            return self.call(e, env)
        raise Undecided('unsupported expression %s' % e.__class__.__name__)

    def compare(self, op, a, b):
        simple = lambda x: isinstance(x, (int, bool, str, Kind, type(None))) or (isinstance(x, (list, tuple)) and all(isinstance(y, (int, Kind)) for y in x))
        if isinstance(op, (ast.Eq, ast.NotEq)) and simple(a) and simple(b):
            r = a == b
            return r if isinstance(op, ast.Eq) else not r
        if isinstance(a, int) and isinstance(b, int):
            return {ast.Lt: a < b, ast.LtE: a <= b, ast.Gt: a > b, ast.GtE: a >= b}.get(type(op))
        if isinstance(op, (ast.Is, ast.IsNot)) and (isinstance(a, AbsObj) or isinstance(b, AbsObj)):
            r = a is b
            return r if isinstance(op, ast.Is) else not r
        if isinstance(op, (ast.Eq, ast.NotEq)) and isinstance(a, str) and isinstance(b, str):
            return (a == b) if isinstance(op, ast.Eq) else (a != b)
        if isinstance(op, (ast.Is, ast.IsNot)) and (a is None or b is None or isinstance(a, Kind) or isinstance(b, Kind)):
            r = (a is b) or (isinstance(a, Kind) and a == b)
            return r if isinstance(op, ast.Is) else not r
        if isinstance(op, (ast.In, ast.NotIn)) and isinstance(b, (frozenset, set)):
            try:
                r = a in b
            except TypeError:
                raise Undecided('unhashable member')
            return r if isinstance(op, ast.In) else not r
        if isinstance(op, (ast.In, ast.NotIn)) and isinstance(b, str) and isinstance(a, str):
            r = a in b
            return r if isinstance(op, ast.In) else not r
        if isinstance(op, (ast.In, ast.NotIn)) and isinstance(b, dict):
            try:
                r = a in b
            except TypeError:
                raise Undecided('unhashable key')
            return r if isinstance(op, ast.In) else not r
        if isinstance(op, (ast.In, ast.NotIn)) and isinstance(b, (list, tuple)):
            r = a in b
            return r if isinstance(op, ast.In) else not r
        raise Undecided('comparison %s of %r, %r' % (op.__class__.__name__, a, b))

    def comp(self, e, env):
        out = []

        def rec(gi, env2):
            if gi == len(e.generators):
                out.append(self.expr(e.elt, env2))
                return
            g = e.generators[gi]
            for x in self.iterate(self.expr(g.iter, env2)):
                env3 = dict(env2)
                self.assign(g.target, x, env3)
                if all(self.truth(self.expr(c, env3)) for c in g.ifs):
                    rec(gi + 1, env3)
        rec(0, dict(env))
        return out

    def call(self, e, env):
        # methods of concrete dicts
        if isinstance(e.func, ast.Attribute) and e.func.attr in ('get', 'keys', 'values', 'items', 'setdefault', 'pop'):
            try:
                recv = self.expr(e.func.value, env)
            except Undecided:
                recv = None
            if isinstance(recv, dict):
                args = [self.expr(a, env) for a in e.args]
                try:
                    if e.func.attr == 'get':
                        return recv.get(args[0], args[1] if len(args) > 1 else None)
                    if e.func.attr == 'setdefault':
                        return recv.setdefault(args[0], args[1] if len(args) > 1 else None)
                    if e.func.attr == 'pop':
                        if args[0] in recv:
                            return recv.pop(args[0])
                        if len(args) > 1:
                            return args[1]
                        raise Raised('KeyError')
                except TypeError:
                    raise Undecided('unhashable key')
                if e.func.attr == 'keys':
                    return list(recv.keys())
                if e.func.attr == 'values':
                    return list(recv.values())
                return [tuple(kv) for kv in recv.items()]
        # methods of concrete lists
        if isinstance(e.func, ast.Attribute) and e.func.attr in ('append', 'extend', 'insert', 'index', 'count'):
            try:
                recv = self.expr(e.func.value, env)
            except Undecided:
                recv = None
            if isinstance(recv, list):
                args = [self.expr(a, env) for a in e.args]
                if e.func.attr == 'append':
                    recv.append(args[0])
                    return None
                if e.func.attr == 'extend':
                    recv.extend(self.iterate(args[0]))
                    return None
                if e.func.attr == 'insert':
                    recv.insert(args[0], args[1])
                    return None
                if e.func.attr == 'index':
                    return recv.index(args[0])
                return recv.count(args[0])
        f = self.expr(e.func, env)
        args = []
        for a in e.args:
            if isinstance(a, ast.Starred):
                args.extend(self.iterate(self.expr(a.value, env)))
            else:
                args.append(self.expr(a, env))
        kwargs = {k.arg: self.expr(k.value, env) for k in e.keywords}
        if isinstance(f, Closure):
            return f.interp.call_function(f.node, args, f.env, kwargs)
        if isinstance(f, tuple) and len(f) == 3 and f[0] == 'method' and isinstance(f[1], AbsObj):
            return f[1].methods[f[2]](f[1], args, kwargs)
        if isinstance(f, tuple) and len(f) == 3 and f[0] == 'kindmethod':
            return self.ext['Kind.' + f[2]]([f[1]] + args, kwargs)
        if isinstance(f, TypeTok):
            if f.name in ('list', 'tuple') and len(args) == 1:
                v = self.iterate(args[0])
                return list(v) if f.name == 'list' else tuple(v)
            if f.name == 'slice':
                if args == [None]:
                    return Kind('FULL')
                return Kind('SL')
            if f.name in ('frozenset', 'set') and len(args) <= 1:
                try:
                    return frozenset(self.iterate(args[0])) if args else frozenset()
                except TypeError:
                    raise Undecided('unhashable set element')
            if f.name == 'dict' and len(args) <= 1:
                d = {}
                if args:
                    src = args[0]
                    if isinstance(src, dict):
                        d.update(src)
                    else:
                        for kv in self.iterate(src):
                            k, v = self.iterate(kv)
                            d[k] = v
                d.update(kwargs)
                return d
            if f.name == 'bool' and len(args) == 1:
                return self.truth(args[0])
            if f.name == 'int' and len(args) == 1 and isinstance(args[0], (int, bool)):
                return int(args[0])
            raise Undecided('constructor %s' % f.name)
        if isinstance(f, tuple) and f[0] == 'builtin':
            n = f[1]
            if n in self.ext:
                return self.ext[n](args, kwargs)
            if n == 'len':
                if isinstance(args[0], AbsObj):
                    if args[0].length is None:
                        raise Undecided('len of %r' % (args[0],))
                    return args[0].length
                return len(args[0])
            if n == 'range':
                return list(range(*args))
            if n == 'all':
                return all(self.truth(x) for x in self.iterate(args[0]))
            if n == 'any':
                return any(self.truth(x) for x in self.iterate(args[0]))
            if n == 'reversed' and len(args) == 1:
                return list(reversed(self.iterate(args[0])))
            if n in ('sum', 'min', 'max', 'sorted', 'abs', 'reversed'):
                vals = args[0] if n == 'abs' else list(self.iterate(args[0])) if len(args) == 1 else list(args)
                flat = [vals] if n == 'abs' else vals
                if not all(isinstance(x, (int, bool)) for x in flat) or kwargs:
                    raise Undecided('%s over abstract values' % n)
                if n == 'sum':
                    return sum(int(x) for x in vals)
                if n == 'abs':
                    return abs(vals)
                if n == 'sorted':
                    return sorted(vals)
                if n == 'reversed':
                    return list(reversed(vals))
                if not vals:
                    raise Undecided('%s of an empty sequence' % n)
                return min(vals) if n == 'min' else max(vals)
            if n in ('itertools.takewhile', 'itertools.dropwhile') and len(args) == 2 and isinstance(args[0], Closure):
                out, taking = [], True
                for x in self.iterate(args[1]):
                    ok = self.truth(args[0].interp.call_function(args[0].node, [x], args[0].env))
                    if n.endswith('takewhile'):
                        if not ok:
                            break
                        out.append(x)
                    else:
                        if taking and ok:
                            continue
                        taking = False
                        out.append(x)
                return out
            if n == 'itertools.chain':
                return [x for a in args for x in self.iterate(a)]
            if n == 'itertools.chain.from_iterable' and len(args) == 1:
                return [x for a in self.iterate(args[0]) for x in self.iterate(a)]
            if n == 'itertools.product':
                import itertools as _it
                return [tuple(p) for p in _it.product(*[self.iterate(a) for a in args])]
            if n == 'functools.reduce' and len(args) in (2, 3) and isinstance(args[0], Closure):
                items = list(self.iterate(args[1]))
                if len(args) == 3:
                    acc = args[2]
                elif items:
                    acc, items = items[0], items[1:]
                else:
                    raise Raised('TypeError')           # reduce() of an empty sequence with no initial value
                for x in items:
                    acc = args[0].interp.call_function(args[0].node, [acc, x], args[0].env)
                return acc
            if n == 'functools.partial' and args and isinstance(args[0], Closure) and not kwargs:
                base, bound = args[0], list(args[1:])
                params = [a.arg for a in base.node.args.args]
                rest = params[len(bound):]
                lam = ast.parse('lambda %s: None' % ', '.join(rest)).body[0].value
                env2 = dict(base.env)
                env2['_partial_target'] = base
                for k, v in enumerate(bound):
                    env2['_partial_arg%d' % k] = v
                call = ast.parse('_partial_target(%s)' % ', '.join(['_partial_arg%d' % k for k in range(len(bound))] + rest)).body[0].value
                fn = ast.FunctionDef(name='<partial>', args=lam.args, body=[ast.Return(value=call)], decorator_list=[], returns=None, type_comment=None, type_params=[])
                ast.fix_missing_locations(fn)
                return Closure(fn, env2, self)
            if n == 'iter' and len(args) == 1:
                return self.iterate(args[0])
            if n == 'next':
                seq = self.iterate(args[0])
                if seq:
                    return seq[0]
                if len(args) > 1:
                    return args[1]
                raise Raised('StopIteration')
            if n in ('map', 'filter') and len(args) == 2:
                fn = args[0]
                items = self.iterate(args[1])

                def app(x):
                    if isinstance(fn, Closure):
                        return fn.interp.call_function(fn.node, [x], fn.env)
                    if fn is None:
                        return x
                    if isinstance(fn, tuple) and fn and fn[0] == 'builtin' and fn[1] in self.ext:
                        return self.ext[fn[1]]([x], {})
                    raise Undecided('map over %r' % (fn,))
                if n == 'map':
                    return [app(x) for x in items]
                return [x for x in items if self.truth(app(x))]
            if n == 'hasattr' and len(args) == 2 and isinstance(args[0], AbsObj) and isinstance(args[1], str):
                return args[1] in args[0].attrs or args[1] in args[0].methods
            if n == 'getattr' and len(args) in (2, 3) and isinstance(args[0], AbsObj) and isinstance(args[1], str):
                if args[1] in args[0].attrs:
                    return args[0].attrs[args[1]]
                if args[1] in args[0].methods:
                    return ('method', args[0], args[1])
                if len(args) == 3:
                    return args[2]
                raise Raised('AttributeError')
            if n == 'callable' and len(args) == 1:
                return isinstance(args[0], Closure) or (isinstance(args[0], tuple) and args[0][:1] in (('builtin',), ('method',)))
            if n == 'enumerate':
                return list(enumerate(self.iterate(args[0])))
            if n == 'zip':
                return list(zip(*[self.iterate(a) for a in args]))
            if n == 'isinstance':
                v, t = args
                ts = list(t) if isinstance(t, tuple) else [t]
                names = set(x.name for x in ts if isinstance(x, TypeTok))
                if isinstance(v, Kind):
                    return bool(self.kind_types.get(v.name, set()) & names)
                if isinstance(v, AbsObj) and getattr(v, 'types', None) is not None:
                    return bool(set(v.types) & names)
                if isinstance(v, bool):
                    return bool(names & {'bool', 'int'})
                if isinstance(v, int):
                    return bool(names & {'int'})
                if isinstance(v, (list, tuple)):
                    return bool(names & {type(v).__name__})
                if isinstance(v, str):
                    return bool(names & {'str'})
                if v is None:
                    return False
                raise Undecided('isinstance of %r' % (v,))
        raise Undecided('call of %r' % (f,))
