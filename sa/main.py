"""Command line: ./check <ID>|all|selftest [--tier quick|thorough] [--repo DIR] [--replay FILE]"""
import argparse
import importlib
import json
import os
import sys
import traceback

from .loader import load, AnalysisError
from . import report

CLAIMED = ['C01', 'C02', 'C03', 'C04', 'C05', 'C06', 'C07', 'C08', 'C09', 'C10', 'C11', 'C12', 'C13',
           'C14', 'C15', 'C16', 'C17', 'C18', 'C19']


def run_property(pid, repo, tier, seed, only_key=None):
    try:
        mod = importlib.import_module('sa.props.%s' % pid.lower())
    except ImportError as e:
        print('ANALYSIS-ERROR no checker for %s (%s)' % (pid, e))
        return 2
    try:
        P = load(repo)
        ctx = report.Ctx(pid, P, tier=tier, seed=seed, only_key=only_key)
        try:
            explanation = mod.check(ctx)
            if not only_key or '-RF|' in only_key:
                from . import forwarding
                if forwarding.instances(ctx):
                    forwarding.rule_forwarding(ctx, 'RF')
                    explanation += (' RF: a frozen table of option-forwarding instances (sa/tables/forwarding.json) is re-decided from the source: every call of the '
                                    'worker inside the listed function still receives the caller\'s option (verbatim, or derived from it where the function normalises it).')
            if not only_key or '-RD|' in only_key:
                from . import defaults_rule
                if any(pid in defaults_rule.owners(q) for q in defaults_rule.load_table()):
                    defaults_rule.rule_defaults(ctx, 'RD')
                    explanation += (' RD: the literal defaults of the public entry points this property runs through are compared with the frozen table '
                                    'sa/tables/defaults.json (a default is what every call that omits the argument means).')
            if not only_key or '-RS|' in only_key:
                from . import scenario_rule, scenarios_def
                if any(pid in props for props, _ in scenarios_def.SCENARIOS.values()):
                    scenario_rule.rule_scenarios(ctx, 'RS')
                    explanation += (' RS: scenario tables - the argument handling of the listed functions is interpreted (sa/scenario.py, no library code is run, NumPy calls '
                                    'and methods of the abstract arrays return symbolic tokens) on a finite set of abstract argument forms and the outcomes are compared with '
                                    'the frozen table sa/tables/scenarios.json.')
            if tier == 'thorough' and not only_key:
                from . import thorough
                thorough.extra(ctx)
                explanation += (' THOROUGH tier: additionally the sweeps of sa/thorough.py (index-kind typing over all call sites, NumPy name resolution over '
                                'the anchor files, effect analysis over every boolean-option combination, wider bounded integer checks, and the '
                                "property's own self-test variants as checker validation).")
        except AnalysisError as e:
            ctx.undecided.append('%s: %s' % (pid, e))
            explanation = getattr(mod, 'EXPLANATION', 'analysis incomplete')
        return report.finish(ctx, explanation)
    except AnalysisError as e:
        print('ANALYSIS-ERROR %s: %s' % (pid, e))
        return 2
    except Exception:
        traceback.print_exc()
        print('ANALYSIS-ERROR %s: internal error in the checker (traceback above)' % pid)
        return 2


def main(argv=None):
    ap = argparse.ArgumentParser(prog='check')
    ap.add_argument('what')
    ap.add_argument('--tier', default=os.environ.get('VERIF_TIER') or 'quick', choices=['quick', 'thorough'])
    ap.add_argument('--repo', default='/repo')
    ap.add_argument('--replay', default=None)
    ap.add_argument('--jobs', type=int, default=16)
    ap.add_argument('--no-evidence', action='store_true', help='accepted for scratch runs (evidence is only ever written for --repo /repo)')
    ap.add_argument('--only', default=None, help='selftest: only variants whose id contains this')
    a = ap.parse_args(argv)
    try:
        seed = int(os.environ.get('VERIF_SEED', '0') or 0)
    except ValueError:
        seed = 0
    if a.what == 'selftest':
        from . import selftest
        return selftest.main(a)
    if a.what == 'all':
        worst = 0
        for pid in CLAIMED:
            rc = run_property(pid, a.repo, a.tier, seed)
            worst = max(worst, rc) if rc != 1 else 1 if worst != 1 else worst
            if rc == 1:
                worst = 1
        return worst
    only_key = None
    if a.replay:
        with open(a.replay) as f:
            only_key = json.load(f)['key']
    return run_property(a.what.upper(), a.repo, a.tier, seed, only_key)


if __name__ == '__main__':
    sys.exit(main())
