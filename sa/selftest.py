"""Checker validation (never a property verdict).

For every variant in sa/variants.py a scratch copy of the *current* /repo/dimarray tree gets one
source edit; the named property check is run on the copy.  Breaking edits must be reported
(exit 1, VIOLATION line); neutral edits (behaviour-preserving refactorings) must leave the
check at exit 0.  Scratch copies live in a mkdtemp directory and are always removed.
"""
import concurrent.futures
import os
import shutil
import subprocess
import sys
import tempfile
import time

from . import variants as V

VERIF = os.path.dirname(os.path.dirname(os.path.abspath(__file__)))


def apply_edit(root, var):
    path = os.path.join(root, var['file'])
    with open(path, encoding='utf-8') as f:
        src = f.read()
    old, new = var['old'], var['new']
    n = src.count(old)
    if n == 0:
        return 'stale'
    if n > 1 and not var.get('all'):
        idx = var.get('nth', None)
        if idx is None:
            return 'ambiguous(%d)' % n
        parts = src.split(old)
        src = old.join(parts[:idx + 1]) + new + old.join(parts[idx + 1:])
    else:
        src = src.replace(old, new)
    with open(path, 'w', encoding='utf-8') as f:
        f.write(src)
    # must still compile
    try:
        import warnings
        with warnings.catch_warnings():
            warnings.simplefilter('ignore')
            compile(src, path, 'exec')
    except SyntaxError as e:
        return 'syntax-error: %s' % e
    return 'ok'


def run_variant(args):
    var, repo, base = args
    d = os.path.join(base, var['id'].replace('/', '_'))
    os.makedirs(d)
    try:
        shutil.copytree(os.path.join(repo, 'dimarray'), os.path.join(d, 'dimarray'),
                        ignore=shutil.ignore_patterns('__pycache__', '*.pyc'))
        st = apply_edit(d, var)
        for f2, o2, n2 in var.get('more', ()):          # further edits of the same variant (other places / files)
            if st == 'ok':
                st = apply_edit(d, dict(var, file=f2, old=o2, new=n2))
        if st != 'ok':
            return var, st, '', 0
        t = time.time()
        outs = []
        worst = 0
        for prop in var['props']:
            r = subprocess.run([os.path.join(VERIF, 'check'), prop, '--repo', d], capture_output=True, text=True, cwd=VERIF)
            outs.append(r.stdout + r.stderr)
            if r.returncode == 1:
                worst = 1
            elif r.returncode == 2 and worst == 0:
                worst = 2
        out = '\n'.join(outs)
        want = var['expect']
        if want == 'violation':
            ok = worst == 1 and 'VIOLATION property=' in out
            if ok and var.get('mention') and var['mention'] not in out:
                ok = False
        elif want == 'clean':
            ok = worst == 0
        else:
            ok = False
        return var, 'PASS' if ok else 'FAIL(exit=%d)' % worst, out, time.time() - t
    finally:
        shutil.rmtree(d, ignore_errors=True)


def main(a):
    repo = a.repo
    variants = [v for v in V.VARIANTS if not a.only or a.only in v['id'] or a.only in v['props']]
    base = tempfile.mkdtemp(prefix='dimarray-selftest-')
    t0 = time.time()
    fails = 0
    stale = 0
    try:
        with concurrent.futures.ThreadPoolExecutor(max_workers=a.jobs) as ex:
            results = list(ex.map(run_variant, [(v, repo, base) for v in variants]))
    finally:
        shutil.rmtree(base, ignore_errors=True)
    by_prop = {}
    for var, status, out, dt in results:
        tag = '%-9s' % var['expect']
        if status == 'PASS':
            pass
        elif status in ('stale',) or status.startswith('ambiguous'):
            stale += 1
        else:
            fails += 1
        for p in var['props']:
            by_prop.setdefault(p, [0, 0])
            by_prop[p][0] += 1
            by_prop[p][1] += status == 'PASS'
        if status != 'PASS' or a.only:
            print('%s %-12s %s  %s' % (tag, status, var['id'], var.get('why', '')))
            if status.startswith('FAIL'):
                lines = [l for l in out.splitlines() if l.startswith(('VIOLATION', 'ANALYSIS-ERROR', '  rule', 'C'))]
                for l in lines[:8]:
                    print('      ' + l[:220])
    print('selftest: %d variants, %d failed, %d stale, %.1fs' % (len(results), fails, stale, time.time() - t0))
    print('per property (passed/total): ' + ' '.join('%s=%d/%d' % (p, v[1], v[0]) for p, v in sorted(by_prop.items())))
    return 1 if fails else 0
