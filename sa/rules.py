"""Helpers shared by the property rules."""
import ast
import itertools

from .loader import AnalysisError
from . import terms as T
from .terms import const
from .symeval import Evaluator, evaluate, canon_atom


def P_(name):
    return ('param', name)


def bind_call_args(call, fi, method=False):
    """Map the arguments of call term `call` onto the parameters of `fi`.
    method=True: the receiver of `x.f(...)` is bound to the first parameter."""
    params = list(fi.params)
    out = {}
    args = list(call[2])
    if method and call[1][0] == 'attr':
        args = [call[1][1]] + args
    if any(a[0] == 'star' for a in args):
        raise AnalysisError("cannot bind *args at call %s" % T.show(call))
    for i, a in enumerate(args):
        if i < len(params):
            out[params[i]] = a
        else:
            out.setdefault('*', []).append(a)
    for k, v in call[3]:
        if k == '**':
            out['**'] = v
        else:
            out[k] = v
    ren = renamed_params(fi)
    if ren:
        out = dict((ren.get(k, k), v) for k, v in out.items())
    return out


def default_of(fi, param):
    d = fi.defaults().get(param)
    if d is None:
        return None
    try:
        return const(ast.literal_eval(d))
    except Exception:
        return ('expr', ast.unparse(d))


def int_eval(t, atoms):
    """Evaluate an integer/boolean valued term given values for opaque atoms
    (dict term -> int).  Returns None when something is unknown."""
    if t in atoms:
        return atoms[t]
    tag = t[0]
    if tag == 'const':
        v = t[1]
        if isinstance(v, bool):
            return int(v)
        if isinstance(v, (int, float)) or v is None:
            return v
        return None
    if tag == 'binop':
        a, b = int_eval(t[2], atoms), int_eval(t[3], atoms)
        if a is None or b is None:
            return None
        try:
            if t[1] in ('%', '//'):
                return (a % b if t[1] == '%' else a // b) if b != 0 else None
            return {'+': a + b, '-': a - b, '*': a * b}.get(t[1]) if t[1] in '+-*' else None
        except Exception:
            return None
    if tag == 'unop' and t[1] in '+-':
        a = int_eval(t[2], atoms)
        if a is None:
            return None
        return -a if t[1] == '-' else a
    if tag == 'call' and T.dotted(t[1]) in ('int', 'bool') and len(t[2]) == 1:
        return int_eval(t[2][0], atoms)
    if tag == 'call' and T.dotted(t[1]) in ('min', 'max', 'abs') and t[2] and not t[3]:
        items = t[2][0][1] if (len(t[2]) == 1 and t[2][0][0] in ('tuple', 'list')) else t[2]
        vals = [int_eval(x, atoms) for x in items]
        if any(v is None for v in vals):
            return None
        return {'min': min, 'max': max, 'abs': lambda v: abs(v[0])}[T.dotted(t[1])](vals)
    if tag == 'cmp':
        r = bool_eval(t, atoms)
        return None if r is None else int(r)
    if tag == 'boolop':
        # value semantics of `a or b` / `a and b` over integers (a term bound to None in `atoms` is a known None, i.e. falsy)
        last = None
        for x in t[2]:
            known_none = (x in atoms and atoms[x] is None) or x == T.CONST_NONE
            v = None if known_none else int_eval(x, atoms)
            if v is None and not known_none:
                return None
            truthy = bool(v) if not known_none else False
            last = v
            if t[1] == 'or' and truthy:
                return v
            if t[1] == 'and' and not truthy:
                return v
        return last
    if tag == 'ifexp':
        c = bool_eval(t[1], atoms)
        if c is None:
            return None
        return int_eval(t[2] if c else t[3], atoms)
    return None


def bool_eval(t, atoms):
    """Three-valued evaluation of a comparison / boolean term over integer atoms."""
    tag = t[0]
    if tag == 'const':
        return bool(t[1])
    if tag == 'unop' and t[1] == 'not':
        r = bool_eval(t[2], atoms)
        return None if r is None else not r
    if tag == 'boolop':
        vals = [bool_eval(x, atoms) for x in t[2]]
        if t[1] == 'and':
            if any(v is False for v in vals):
                return False
            return True if all(v is True for v in vals) else None
        if any(v is True for v in vals):
            return True
        return False if all(v is False for v in vals) else None
    if tag == 'cmp':
        op = t[1]
        if op in ('is', 'is not') and (t[3] == T.CONST_NONE or t[2] == T.CONST_NONE):
            x = t[2] if t[3] == T.CONST_NONE else t[3]
            v = int_eval(x, atoms)
            if x == T.CONST_NONE:
                r = True
            elif v is None and x not in atoms and x[0] != 'const':
                return None
            else:
                r = v is None
            return r if op == 'is' else not r
        a, b = int_eval(t[2], atoms), int_eval(t[3], atoms)
        if a is None or b is None or op in ('in', 'not in'):
            # (membership in a literal tuple, operands that are None by value ...: the general evaluator, which tells "unknown" from None)
            v = val_eval(t, atoms)
            return None if v is UNKNOWN else bool(v)
        return {'==': a == b, '!=': a != b, '<': a < b, '<=': a <= b, '>': a > b, '>=': a >= b,
                'is': a == b, 'is not': a != b}.get(op)
    return None


def path_feasible(path, atoms, ignore=()):
    """False if some guard of the path evaluates to the opposite polarity under `atoms`."""
    for atom, pol in path.guards:
        r = bool_eval(atom, atoms)
        if r is not None and r != pol:
            return False
    return True


def guard_index(path, pred):
    """Index (in path.state.events order) semantics are not kept for guards; return the guard
    tuple entries matching pred(atom)."""
    return [(a, p) for a, p in path.guards if pred(a)]


def event_guarded_by(ev, pred, polarity=None):
    for a, p in ev.guards:
        if pred(a) and (polarity is None or p == polarity):
            return True
    return False


def atom_mentions_call(atom, name):
    return any(True for _ in T.calls_in(atom, name))


def find_events(path_or_events, kind=None, pred=None):
    evs = path_or_events.state.events if hasattr(path_or_events, 'state') else path_or_events
    for e in evs:
        if kind is not None and e.kind != kind:
            continue
        if pred is not None and not pred(e):
            continue
        yield e


def stores_to_attr(path, attr, obj_pred=None):
    return [e for e in path.state.events if e.kind == 'store_attr' and e.b == attr
            and (obj_pred is None or obj_pred(e.a))]


def is_self(t, name='self'):
    return t == ('param', name)


_KNOWN = None
_SIGS = None


def _load_known():
    global _KNOWN, _SIGS
    if _KNOWN is None:
        import json
        import os
        with open(os.path.join(os.path.dirname(os.path.abspath(__file__)), 'tables', 'known_functions.json')) as f:
            d = json.load(f)
        _KNOWN = set(d['functions'])
        _SIGS = d.get('signatures', {})


def known_functions():
    _load_known()
    return _KNOWN


_GLOBALS = None


def known_globals():
    global _GLOBALS
    if _GLOBALS is None:
        import json
        import os
        with open(os.path.join(os.path.dirname(os.path.abspath(__file__)), 'tables', 'known_functions.json')) as f:
            _GLOBALS = set(json.load(f).get('globals', []))
    return _GLOBALS


def renamed_params(fi):
    """{current parameter name: name at rule-writing time} for a function whose parameters have been renamed since (same arity, same kinds); {} otherwise"""
    _load_known()
    old = _SIGS.get(fi.qualname)
    if not old:
        return {}
    cur = list(fi.params) + list(fi.kwonly)
    was = list(old['params']) + list(old['kwonly'])
    if len(cur) != len(was) or len(fi.params) != len(old['params']) or bool(fi.vararg) != bool(old['vararg']) or bool(fi.kwarg) != bool(old['kwarg']):
        return {}
    m = dict((c, w) for c, w in zip(cur, was) if c != w)
    if fi.vararg and old['vararg'] and fi.vararg != old['vararg']:
        m['*' + fi.vararg] = '*' + old['vararg']
    if fi.kwarg and old['kwarg'] and fi.kwarg != old['kwarg']:
        m['**' + fi.kwarg] = '**' + old['kwarg']
    return m


def default_inline(ctx):
    """Inline callback used by every rule unless it brings its own: calls of functions that did not exist when the rules were written (a block extracted
    into a new private helper, module-level or method) are evaluated in place, so the rule sees the same terms and events as before the extraction.
    Functions the rules know by name (sa/tables/known_functions.json) are never inlined here - they are anchors."""
    known = known_functions()

    def resolve(call, evaluator, generator=False):
        f = call[1]
        fi = evaluator.fi
        target = None
        if f[0] == 'name':
            target = fi.module.functions.get(f[1])
            if target is None:
                r = ctx.P.resolve_name(fi.module, f[1])
                if r is not None and r[0] == 'func':
                    target = r[1]
        elif f[0] == 'attr' and f[1] == ('param', 'self') and fi.cls is not None:
            m = ctx.P.lookup(fi.cls, f[2])
            if m is not None and m.kind == 'func':
                target = m.value
        if target is None or target.qualname in known:
            return None
        decs = [ast.unparse(d) for d in (getattr(target, 'decorators', None) or [])]
        if decs and decs != ['staticmethod']:
            return None            # a decorated helper (memoised, wrapped, ...) is not its body (a plain staticmethod is)
        if any(isinstance(n, (ast.Global, ast.Nonlocal)) for n in ast.walk(target.node)):
            return None
        if any(isinstance(n, (ast.Yield, ast.YieldFrom)) for n in ast.walk(target.node)) != generator:
            return None
        ctx.functions.add(target.qualname)
        return target
    resolve.generator = lambda call, evaluator: resolve(call, evaluator, generator=True)
    return resolve


def helper_nodes(ctx, fi, depth=3):
    """AST nodes of `fi` and of the functions it calls that did not exist when the rules were written (extracted helpers, module-level or methods),
    transitively: what a syntactic search "inside fi" has to look at after a helper extraction. [(FunctionInfo, parameter map callee->caller name)]"""
    known = known_functions()
    out, seen, todo = [], set(), [(fi, 0)]
    while todo:
        f, d = todo.pop(0)
        if f.qualname in seen:
            continue
        seen.add(f.qualname)
        out.append(f)
        if d >= depth:
            continue
        for n in ast.walk(f.node):
            if not isinstance(n, ast.Call):
                continue
            target = None
            if isinstance(n.func, ast.Name):
                target = f.module.functions.get(n.func.id)
            elif isinstance(n.func, ast.Attribute) and isinstance(n.func.value, ast.Name) and n.func.value.id == 'self' and f.cls is not None:
                m = ctx.P.lookup(f.cls, n.func.attr)
                if m is not None and m.kind == 'func':
                    target = m.value
            if target is not None and target.qualname not in known and target.qualname not in seen:
                todo.append((target, d + 1))
    return out


def run(ctx, fi, **kw):
    if 'inline' not in kw:
        kw['inline'] = default_inline(ctx)
    if isinstance(fi, str):
        fi = ctx.P.func(fi)
    ren = renamed_params(fi)
    if ren:
        # parameters renamed since the rules were written: bind the new names to the old parameter terms (rules speak of P_('<old name>'))
        back = dict((w, c) for c, w in ren.items())
        bind = dict((back.get(k, k), v) for k, v in (kw.get('bind') or {}).items())
        for c, w in ren.items():
            key = c.lstrip('*')
            if key not in bind:
                bind[key] = ('param', w)
        kw['bind'] = bind
    ev = evaluate(ctx.P, fi, **kw)
    ctx.functions.add(ev.fi.qualname)
    ctx.paths_explored += len(ev.paths)
    return ev


def ret_paths(ev):
    return [p for p in ev.paths if p.kind == 'return']


def raise_paths(ev):
    return [p for p in ev.paths if p.kind == 'raise']


def exc_name(t):
    """Exception class name of a raised term."""
    if t[0] == 'call':
        return T.dotted(t[1]) or T.call_name(t)
    return T.dotted(t) or T.show(t)


def strip_trivial(t):
    """np.asarray(x) / np.array(x) / tuple(x) / list(x) -> x (value-preserving conversions)."""
    while t[0] == 'call' and T.dotted(t[1]) in ('np.asarray', 'np.array', 'tuple', 'list', 'np.asanyarray') \
            and len(t[2]) >= 1:
        t = t[2][0]
    return t


def inline_resolver(ctx, names):
    """Inline callback resolving calls by bare function name within the analysed module /
    given {name: qualname} table."""
    table = dict(names)

    def resolve(call, evaluator):
        n = T.call_name(call)
        if n in table:
            f = call[1]
            if f[0] == 'name' or (f[0] == 'attr'):
                fi = ctx.P.functions.get(table[n])
                if fi is not None:
                    ctx.functions.add(fi.qualname)
                return fi
        return None
    return resolve


def property_value(ctx, cls_qual, name):
    """the value a read-only property `name` of class `cls_qual` returns (term over ('param','self')), when its getter has a single returning path; None otherwise"""
    fi = ctx.P.functions.get(cls_qual + '.' + name)
    if fi is None or not any(ast.unparse(d) == 'property' for d in fi.node.decorator_list):
        return None
    rets = ret_paths(run(ctx, fi, mode='join'))
    if len(rets) != 1:
        return None
    return rets[0].value


def elem_of_comp(t):
    """`for v in [E(k) for k in xs if c]`: the loop variable is ('elem', <comp>, lid); -> (E, conditions, source, comprehension loop id) so that a rule can read
    what the variable stands for and under which filter (the list is complete before the loop runs: a different statement than filtering inside the loop, same
    elements).  None for anything else"""
    if t[0] == 'elem' and t[1][0] == 'comp' and t[1][1] in ('list', 'gen') and len(t[1][3]) == 1:
        clid, src, conds = t[1][3][0]
        return t[1][2], tuple(conds), src, clid
    return None


def cond_paths(c):
    """short-circuit evaluation paths of a condition term: [(guards, truth)] with guards = ((canonical atom, polarity), ...) in evaluation order -
    the same decomposition the evaluator applies to the test of an if statement"""
    from .symeval import canon_atom
    if c[0] == 'unop' and c[1] == 'not':
        return [(g, not t) for g, t in cond_paths(c[2])]
    if c[0] == 'boolop':
        stop = (c[1] == 'or')          # value at which evaluation stops
        paths = [((), None)]
        for op in c[2]:
            new = []
            for g, t in paths:
                if t is not None and t == stop:
                    new.append((g, t))
                    continue
                for g2, t2 in cond_paths(op):
                    new.append((g + g2, t2))
            paths = new
        return paths
    atom, neg = canon_atom(c)
    if atom[0] == 'const':
        return [((), bool(atom[1]) ^ neg)]
    return [(((atom, not neg),), True), (((atom, neg),), False)]


def _outer_subterms(t):
    """sub-terms of t outside the element / conditions of comprehensions and the bodies of lambdas (what is evaluated once, not per element)"""
    stack = [t]
    while stack:
        x = stack.pop()
        if not isinstance(x, tuple) or not x:
            continue
        if isinstance(x[0], str) and x[0] in T._TAGS:
            yield x
            if x[0] == 'const' or x[0] == 'lambda':
                continue
            if x[0] == 'comp':
                stack.extend(reversed([g[1] for g in x[3]]))
                continue
            stack.extend(reversed(x[1:]))
        else:
            stack.extend(reversed(x))


def alternatives(t, limit=64, into_comps=True):
    """A term with its conditional expressions resolved: [(variant without ifexp, guards)] - so that `x.append(a if c else b)` reads like
    `if c: x.append(a) else: x.append(b)`.  into_comps=False leaves the per-element conditionals of comprehensions alone"""
    out = []

    def rec(term, guards):
        if len(out) >= limit:
            return
        first = None
        for x in (T.subterms(term) if into_comps else _outer_subterms(term)):
            if x[0] == 'ifexp':
                first = x
                break
        if first is None:
            out.append((term, guards))
            return
        for g, truth in cond_paths(first[1]):
            if any((a, not pol) in guards for a, pol in g):
                continue            # contradicts a choice already made
            rec(T.replace(term, first, first[2] if truth else first[3]), guards + tuple(x for x in g if x not in guards))
    rec(t, ())
    return out


def resolve_under(t, oracle, guards=()):
    """t with the conditional expressions resolved that the scenario decides: `oracle(atom, None)` (or a guard already on the path) answers the condition"""
    known = dict(guards)
    for variant, gs in alternatives(t):
        ok = True
        for a, pol in gs:
            r = known.get(a)
            if r is None:
                r = oracle(a, None)
            if r is None or r != pol:
                ok = False
                break
        if ok:
            return variant
    return t


def expr_term(ctx, fi, node, env=None):
    """term of a single expression node of `fi`, its free names left as ('name', id) leaves (or taken from `env`)"""
    from .symeval import Evaluator, State
    ev = Evaluator(ctx.P, fi, mode='join', inline=default_inline(ctx))
    st = State(env=dict(env or {}))
    res = ev.ev(node, st)
    return res[0][0]


UNKNOWN = object()


class _FrozenMap(dict):
    """a dict literal evaluated by val_eval (hashable by identity, so that it can sit in tuples of values)"""
    __hash__ = object.__hash__


def val_eval(t, env):
    """Concrete evaluation of a term over Python constants (None / str / int / bool) for scenario tables: `env` maps leaf terms to values.
    Returns UNKNOWN when a leaf is not in `env` or an operator is not modelled. `getattr(o, 'f', d)` is read as o.f (falling back to d only
    when `env` has neither)."""
    if t in env:
        return env[t]
    tag = t[0]
    if tag == 'const':
        return t[1]
    if tag in ('tuple', 'list', 'set'):
        vals = [val_eval(x, env) for x in t[1]]
        if any(v is UNKNOWN for v in vals):
            return UNKNOWN
        return tuple(vals)
    if tag == 'dict':
        out = {}
        for k, v in t[1]:
            kk, vv = val_eval(k, env), val_eval(v, env)
            if kk is UNKNOWN or vv is UNKNOWN:
                return UNKNOWN
            try:
                out[kk] = vv
            except TypeError:
                return UNKNOWN
        return _FrozenMap(out)
    if tag == 'sub' and t[2][0] != 'slice':
        c, k = val_eval(t[1], env), val_eval(t[2], env)
        if c is UNKNOWN or k is UNKNOWN:
            return UNKNOWN
        try:
            return c[k]
        except Exception:
            return UNKNOWN
    if tag == 'call' and t[1][0] == 'attr' and t[1][2] == 'get' and len(t[2]) in (1, 2) and not t[3]:
        c = val_eval(t[1][1], env)
        if isinstance(c, _FrozenMap):
            k = val_eval(t[2][0], env)
            d = val_eval(t[2][1], env) if len(t[2]) == 2 else None
            if k is UNKNOWN or d is UNKNOWN:
                return UNKNOWN
            try:
                return c.get(k, d)
            except TypeError:
                return UNKNOWN
    if tag == 'call' and T.dotted(t[1]) == 'getattr' and len(t[2]) in (2, 3) and t[2][1][0] == 'const':
        a = ('attr', t[2][0], t[2][1][1])
        if a in env:
            return env[a]
        return val_eval(t[2][2], env) if len(t[2]) == 3 else UNKNOWN
    if tag == 'ifexp':
        c = val_eval(t[1], env)
        return UNKNOWN if c is UNKNOWN else val_eval(t[2] if c else t[3], env)
    if tag == 'boolop':
        v = UNKNOWN
        for x in t[2]:
            v = val_eval(x, env)
            if v is UNKNOWN:
                return UNKNOWN
            if (t[1] == 'or' and v) or (t[1] == 'and' and not v):
                return v
        return v
    if tag == 'unop' and t[1] == 'not':
        v = val_eval(t[2], env)
        return UNKNOWN if v is UNKNOWN else (not v)
    if tag == 'unop' and t[1] in ('-', '+'):
        v = val_eval(t[2], env)
        if v is UNKNOWN or not isinstance(v, (int, float)):
            return UNKNOWN
        return -v if t[1] == '-' else +v
    if tag == 'binop' and t[1] in ('+', '-', '*', '//', '%'):
        a, b = val_eval(t[2], env), val_eval(t[3], env)
        if a is UNKNOWN or b is UNKNOWN or not isinstance(a, (int, float)) or not isinstance(b, (int, float)):
            return UNKNOWN
        try:
            return {'+': lambda: a + b, '-': lambda: a - b, '*': lambda: a * b, '//': lambda: a // b, '%': lambda: a % b}[t[1]]()
        except Exception:
            return UNKNOWN
    if tag == 'call' and T.dotted(t[1]) in ('int', 'bool') and len(t[2]) == 1 and not t[3]:
        v = val_eval(t[2][0], env)
        if v is UNKNOWN or not isinstance(v, (int, float, bool)):
            return UNKNOWN
        return int(v) if T.dotted(t[1]) == 'int' else bool(v)
    if tag == 'cmp':
        a, b = val_eval(t[2], env), val_eval(t[3], env)
        if a is UNKNOWN or b is UNKNOWN:
            return UNKNOWN
        op = t[1]
        try:
            if op == '==': return a == b
            if op == '!=': return a != b
            if op == 'is': return a is b
            if op == 'is not': return a is not b
            if op == '<': return a < b
            if op == '<=': return a <= b
            if op == '>': return a > b
            if op == '>=': return a >= b
            if op == 'in': return a in b
            if op == 'not in': return a not in b
        except Exception:
            return UNKNOWN
    return UNKNOWN


def truth(t, decide):
    """three-valued truth of a boolean term; `decide(atom)` answers the leaves (anything that is not and / or / not), None = unknown.
    Short-circuit order is respected: an `and` is False as soon as an earlier operand is False, whatever follows (even unknown)."""
    tag = t[0]
    if tag == 'const':
        return bool(t[1])
    if tag == 'unop' and t[1] == 'not':
        r = truth(t[2], decide)
        return None if r is None else not r
    if tag == 'boolop':
        for x in t[2]:
            r = truth(x, decide)
            if r is None:
                return None
            if t[1] == 'and' and r is False:
                return False
            if t[1] == 'or' and r is True:
                return True
        return t[1] == 'and'
    return decide(t)
