"""Thorough tier: sweeps that go beyond the anchored rule instances of the quick tier.

Everything here still decides from the current source only (no execution of repository code):
  T1 index-kind typing over *every* call site of the package that passes (or should pass) `indexing=`
  T2 NumPy name resolution over every function of the property's anchor files
  T3 effect analysis of every public function of the package under every combination of its boolean options (C15 / C19 / C03)
  T4 option plumbing: a keyword option of a public function that is never read is a dropped option (INFO)
  T5 the property's own self-test variants are re-run on scratch copies; the catch rate is recorded in the evidence
     (checker validation - never a VIOLATION of the property)
  T6 the check is re-run on 198 behaviour-preserving AST transformations of the core files (tools/neutral.py): a false alarm makes the
     run UNDECIDED (exit 2), never a VIOLATION
  T7 the check is re-run on the 321 behaviour-preserving refactorings written by independent sub-agents (seeded_neutral/): same convention
"""
import ast
import itertools
import json
import os
import subprocess

from . import terms as T
from .terms import const
from .symeval import Evaluator
from .loader import AnalysisError
from . import npapi, effects

VERIF = os.path.dirname(os.path.dirname(os.path.abspath(__file__)))

POSITION_SOURCES = {'argsort', 'locate_many', 'locate_one', 'locate_slice', 'loc', 'where', 'searchsorted', '_get_indices', 'nonzero', 'unravel_index', 'argmin', 'argmax',
                    'arange', 'range'}
INDEXED_CALLS = {'take', 'take_axis', 'put', '_getitem', '_setitem', 'read', 'write'}


def anchor_files(pid):
    for line in open(os.path.join(VERIF, 'properties.jsonl')):
        p = json.loads(line)
        if p['id'] == pid:
            return p['anchors']['files']
    return []


def kind_of(t):
    """POSITION / LABEL / MASK / None for an index term"""
    for x in T.subterms(t):
        if x[0] == 'idx':
            return 'POSITION'
        if x[0] == 'call' and T.call_name(x) in POSITION_SOURCES:
            return 'POSITION'
    for x in T.subterms(t):
        if x[0] == 'cmp' or (x[0] == 'call' and T.call_name(x) in ('isnan', '_isnan', '_matches', 'isin')):
            return 'MASK'
    return None


def sweep_index_kinds(ctx):
    """T1"""
    ctx.rule('T1', 'index-kind typing over all call sites (thorough)', 5)
    P = ctx.P
    n = 0
    E = effects.Effects(P)
    for fi in sorted(P.functions.values(), key=lambda f: f.qualname):
        if fi.file.startswith(('dimarray/io/', 'dimarray/convert/', 'dimarray/plotting', 'dimarray/prettyprinting')) or fi.parent is not None:
            continue
        src = ast.unparse(fi.node)
        if 'indexing' not in src and not any(k in src for k in ('.take(', '.take_axis(', '.put(')):
            continue
        try:
            ev = Evaluator(P, fi, mode='join', max_paths=100000)
            ev.run()
        except AnalysisError:
            continue
        seen = set()
        for p in ev.paths:
            for e in p.state.events:
                if e.kind != 'call' or id(e) in seen:
                    continue
                seen.add(id(e))
                c = e.a
                name = T.call_name(c)
                if name not in INDEXED_CALLS or c[1][0] != 'attr':
                    continue
                recv = c[1][1]
                if T.dotted(recv) in ('np', 'numpy') or (recv[0] == 'attr' and recv[2] in ('values', '_values')):
                    continue          # ndarray.take / np.take: always positional
                if E.type_of(recv, fi) in ('ndarray', 'list', 'tuple', 'dict'):
                    continue
                idx = c[2][0] if c[2] else T.kw(c, 'indices')
                if idx is None:
                    continue
                mode = T.kw(c, 'indexing')
                k = kind_of(idx)
                n += 1
                if k == 'POSITION' and mode is not None and mode != const('position') and mode[0] == 'const':
                    ctx.violated('T1', fi, e.node, 'positions (%s) are passed to %s with indexing=%s: they would be looked up as labels' % (T.show(idx)[:60], name, T.show(mode)), node=e.node)
                elif k == 'POSITION' and mode is None and name in ('take', 'take_axis', 'put'):
                    # label mode is the default: a positional vector handed over without saying so
                    if not any(x[0] == 'call' and T.call_name(x) in ('loc',) for x in T.subterms(idx)):
                        ctx.violated('T1', fi, e.node, 'positions (%s) are passed to %s without indexing=\'position\' (the default is label indexing)' % (T.show(idx)[:60], name), node=e.node)
                else:
                    ctx.holds('T1', '%s: %s(%s, indexing=%s)' % (fi.qualname.replace('dimarray.', ''), name, k, T.show(mode) if mode else 'default'))
    ctx.info('T1: %d indexed call sites typed' % n)


def sweep_numpy(ctx):
    """T2"""
    ctx.rule('T2', 'NumPy names of the anchor files resolve in the pinned NumPy (thorough)', 1)
    files = set(anchor_files(ctx.prop))
    info = npapi.numpy_info()
    nsites = 0
    bad = 0
    for fi in ctx.P.functions.values():
        if fi.file not in files or fi.file.startswith('dimarray/io/'):
            continue
        nsites += len(list(npapi.scan_function(fi)))
        for node, name in npapi.unresolved_in(fi):
            bad += 1
            ctx.violated('T2', fi, name, '%s does not exist in the pinned NumPy %s' % (name, info['version']), node=node)
    if not bad:
        ctx.holds('T2', '%d NumPy attribute sites in %d anchor files resolve (NumPy %s)' % (nsites, len(files), info['version']))


def sweep_effects(ctx):
    """T3"""
    from .props import c15
    ctx.rule('T3', 'effect analysis of every public operation under every boolean-option combination (thorough)', 80)
    E = effects.Effects(ctx.P)
    ops = c15.public_operations(ctx)
    ncfg = 0
    for label, fi in ops:
        defaults = fi.defaults()
        base = {}
        variable = []
        for p in fi.params + fi.kwonly:
            if p in c15.FORCED:
                if c15.FORCED[p] is not None:
                    base[p] = c15.FORCED[p]
                continue
            d = defaults.get(p)
            if d is not None and isinstance(d, ast.Constant) and (isinstance(d.value, bool) or d.value is None and p in ('method', 'key', 'minvalid', 'tol')):
                variable.append(p)
        variable = variable[:7]
        bad = None
        for combo in itertools.product([False, True], repeat=len(variable)):
            cfg = dict(base)
            for p, v in zip(variable, combo):
                d = defaults[p]
                if isinstance(d.value, bool):
                    cfg[p] = const(v)
                elif not v:
                    cfg[p] = T.CONST_NONE
            ncfg += 1
            s = E.summary(fi, cfg)
            for p, wit in s.mutates.items():
                if p.startswith('*') or p in c15.NON_OPERANDS:
                    continue
                bad = (p, cfg, wit)
        if bad:
            p, cfg, wit = bad
            chain = wit[0].split('  ->  ')
            ctx.violated('T3', fi, '%s mutates `%s`' % (label, p), 'non-in-place operation %s may write into `%s` under options %s' % (
                label, p, {k: v[1] for k, v in cfg.items()}), witness=chain)
        else:
            ctx.holds('T3', label)
    ctx.info('T3: %d operations x option combinations = %d summaries requested, %d evaluated' % (len(ops), ncfg, E.evaluated))


def sweep_dropped_options(ctx):
    """T4 (INFO only)"""
    files = set(anchor_files(ctx.prop))
    for fi in ctx.P.functions.values():
        if fi.file not in files or fi.name.startswith('_') or fi.parent is not None:
            continue
        used = set(n.id for n in ast.walk(fi.node) if isinstance(n, ast.Name))
        for p in fi.params[1:] + fi.kwonly:
            if p not in used and p in fi.defaults():
                ctx.info('T4: parameter `%s` of %s is never read (dropped option?)' % (p, fi.qualname))


def selftest_rate(ctx):
    """T5"""
    from . import variants as V
    mine = [v for v in V.VARIANTS if ctx.prop in v['props']]
    if not mine or ctx.P.repo != '/repo':
        return
    r = subprocess.run([os.path.join(VERIF, 'check'), 'selftest', '--only', ctx.prop, '--jobs', '16'], capture_output=True, text=True, cwd=VERIF)
    last = [l for l in r.stdout.splitlines() if l.startswith('selftest:')]
    ctx.info('T5 checker validation: %s' % (last[0] if last else 'selftest did not run'))
    ctx.selftest = last[0] if last else None


def neutral_rate(ctx):
    """T6: the property's check is re-run on 198 behaviour-preserving transformations of the core files (tools/neutral.py): all must stay clean.
    Checker validation only - a false alarm here is reported as UNDECIDED (the check is not to be trusted), never as a VIOLATION of the property."""
    if ctx.P.repo != '/repo':
        return
    r = subprocess.run(['/venv/bin/python', os.path.join(VERIF, 'tools', 'neutral.py'), ctx.prop], capture_output=True, text=True, cwd=VERIF)
    last = [l for l in r.stdout.splitlines() if l.startswith('neutral:')]
    ctx.info('T6 checker validation: %s' % (last[0] if last else 'neutral sweep did not run'))
    ctx.selftest = ((getattr(ctx, 'selftest', None) or '') + ' | ' + (last[0] if last else 'neutral sweep did not run')).strip(' |')
    for l in r.stdout.splitlines():
        if l.startswith('FALSE-ALARM'):
            ctx.undecide('T6', 'the check alarms on a behaviour-preserving transformation: %s' % l)


def refactoring_rate(ctx):
    """T7: the property's check is re-run on the behaviour-preserving refactorings written by independent sub-agents (seeded_neutral/, 321 of them in rounds 5, 6, 8, 9 and 11: helper
    extraction, guard clauses, loop <-> comprehension, renamed private parameters, recursion -> iteration, ...). Checker validation only: a refactoring whose
    patch no longer applies to the tree under analysis is skipped; an alarm on one that applies is reported as UNDECIDED, never as a VIOLATION."""
    if ctx.P.repo != '/repo':
        return
    import glob
    import shutil
    import tempfile
    from concurrent.futures import ThreadPoolExecutor

    def one(dst):
        sid = os.path.basename(dst)
        d = tempfile.mkdtemp(prefix='dimarray-refac-')
        try:
            shutil.copytree('/repo/dimarray', os.path.join(d, 'dimarray'), ignore=shutil.ignore_patterns('__pycache__', '*.pyc'))
            r = subprocess.run(['git', 'apply', '--whitespace=nowarn', os.path.join(dst, 'patch.diff')], cwd=d, capture_output=True, text=True)
            if r.returncode != 0:
                return sid, 'skipped'
            r = subprocess.run(['/venv/bin/python', '-m', 'sa.main', ctx.prop, '--repo', d, '--tier', 'quick', '--no-evidence'], capture_output=True, text=True, cwd=VERIF)
            # exit 2 = the check says of this restructuring that it cannot read it (named construct): an honest answer, not an alarm
            return sid, ('silent' if r.returncode == 0 else 'unreadable' if r.returncode == 2 else 'alarm(exit %d)' % r.returncode)
        finally:
            shutil.rmtree(d, ignore_errors=True)
    dsts = sorted(x for x in glob.glob(os.path.join(VERIF, 'seeded_neutral', '*')) if os.path.isdir(x))
    with ThreadPoolExecutor(max_workers=12) as ex:
        rows = list(ex.map(one, dsts))
    n_s = sum(1 for _, st in rows if st == 'silent')
    n_k = sum(1 for _, st in rows if st == 'skipped')
    n_u = sum(1 for _, st in rows if st == 'unreadable')
    line = 'refactorings: %d written by sub-agents, %d apply, %d silent, %d answered ANALYSIS-ERROR (restructuring the rules cannot read), %d alarms' % (
        len(rows), len(rows) - n_k, n_s, n_u, len(rows) - n_k - n_s - n_u)
    ctx.info('T7 checker validation: ' + line)
    ctx.selftest = ((getattr(ctx, 'selftest', None) or '') + ' | ' + line).strip(' |')
    for sid, st in rows:
        if st.startswith('alarm'):
            ctx.undecide('T7', 'the check alarms on the behaviour-preserving refactoring %s: %s' % (sid, st))


SWEEPS = {
    'C01': [sweep_index_kinds, sweep_numpy, sweep_dropped_options],
    'C02': [sweep_numpy, sweep_dropped_options],
    'C03': [sweep_index_kinds, sweep_numpy],
    'C04': [sweep_numpy, sweep_dropped_options],
    'C05': [sweep_numpy],
    'C06': [sweep_numpy, sweep_dropped_options],
    'C07': [sweep_index_kinds, sweep_numpy, sweep_dropped_options],
    'C08': [sweep_numpy, sweep_dropped_options],
    'C09': [sweep_numpy],
    'C10': [sweep_numpy],
    'C11': [sweep_numpy],
    'C12': [sweep_numpy, sweep_dropped_options],
    'C13': [sweep_numpy],
    'C14': [sweep_index_kinds, sweep_numpy, sweep_dropped_options],
    'C15': [sweep_effects, sweep_numpy],
    'C16': [sweep_numpy],
    'C17': [sweep_index_kinds, sweep_numpy, sweep_dropped_options],
    'C18': [sweep_numpy, sweep_dropped_options],
    'C19': [sweep_effects, sweep_numpy],
}


def extra(ctx):
    for fn in SWEEPS.get(ctx.prop, []):
        fn(ctx)
    selftest_rate(ctx)
    neutral_rate(ctx)
    refactoring_rate(ctx)
