"""Verdict bookkeeping, known findings, evidence and replay files."""
import ast
import json
import os
import re
import time

from .loader import AnalysisError

VERIF = os.path.dirname(os.path.dirname(os.path.abspath(__file__)))
KNOWN_FILE = os.path.join(VERIF, 'known_findings.json')


def norm_stmt(node_or_text):
    """Normalised statement text used in finding keys (never line numbers)."""
    if isinstance(node_or_text, ast.AST):
        try:
            text = ast.unparse(node_or_text)
        except Exception:
            text = node_or_text.__class__.__name__
    else:
        text = str(node_or_text)
    text = text.split('\n')[0]
    return re.sub(r'\s+', ' ', text).strip()[:160]


class Finding(object):
    def __init__(self, prop, rule, qualname, construct, message, where=None, witness=None):
        self.prop = prop
        self.rule = rule
        self.qualname = qualname
        self.construct = norm_stmt(construct)
        self.message = message
        self.where = where
        self.witness = witness or []

    @property
    def key(self):
        return '%s|%s|%s' % (self.rule, self.qualname, self.construct)

    def to_json(self):
        return {'property': self.prop, 'rule': self.rule, 'function': self.qualname,
                'construct': self.construct, 'message': self.message, 'where': self.where,
                'witness': self.witness, 'key': self.key}


class Ctx(object):
    """Collects what one property check did."""

    def __init__(self, prop, program, tier='quick', seed=0, only_key=None):
        self.prop = prop
        self.P = program
        self.tier = tier
        self.seed = seed
        self.only_key = only_key
        self.t0 = time.time()
        self.findings = []
        self.undecided = []
        self.infos = []
        self.obligations = []     # (rule, instance, status)
        self.samples = []
        self.rules = {}           # rule -> dict(desc=..., instances=n, min=n)
        self.functions = set()
        self.not_decided = []
        self.trusted = []
        self.exhaustive = False
        self.paths_explored = 0

    # -- recording --------------------------------------------------------
    def rule(self, rid, desc, min_instances=1):
        r = self.rules.setdefault(rid, {'desc': desc, 'instances': 0, 'min': 0, 'violations': 0})
        r['desc'] = desc
        r['min'] = max(r['min'], min_instances)

    def holds(self, rid, instance, detail=None, sample=None):
        self.rules.setdefault(rid, {'desc': '', 'instances': 0, 'min': 0, 'violations': 0})
        self.rules[rid]['instances'] += 1
        self.obligations.append((rid, instance, 'HOLDS'))
        if sample is not None and len(self.samples) < 40:
            self.samples.append({'rule': rid, 'instance': instance, 'detail': sample})
        elif detail is not None and len(self.samples) < 40:
            self.samples.append({'rule': rid, 'instance': instance, 'detail': detail})

    def violated(self, rid, fi_or_qualname, construct, message, node=None, witness=None, firm=False):
        q = fi_or_qualname if isinstance(fi_or_qualname, str) else fi_or_qualname.qualname
        where = None
        if not isinstance(fi_or_qualname, str):
            ln = getattr(node, 'lineno', None) or fi_or_qualname.lineno
            where = '%s:%s' % (fi_or_qualname.file, ln)
        self.rules.setdefault(rid, {'desc': '', 'instances': 0, 'min': 0, 'violations': 0})
        self.rules[rid]['instances'] += 1
        self.rules[rid]['violations'] += 1
        f = Finding(self.prop, '%s-%s' % (self.prop, rid), q, construct, message, where, witness)
        self.obligations.append((rid, f.construct, 'VIOLATED'))
        # the same construct reported twice (two paths) is one finding
        if not any(g.key == f.key for g in self.findings):
            self.findings.append(f)
        return f

    def undecide(self, rid, message):
        self.undecided.append('%s-%s: %s' % (self.prop, rid, message))
        self.obligations.append((rid, message, 'UNDECIDED'))

    def info(self, message):
        self.infos.append(message)

    def fn(self, qualname):
        fi = self.P.func(qualname)
        self.functions.add(fi.qualname)
        return fi

    def method(self, cls, name):
        fi = self.P.method(cls, name)
        self.functions.add(fi.qualname)
        return fi

    def require(self, rid, cond, message):
        """An anchor the rule needs must exist; otherwise the analysis is incomplete."""
        if not cond:
            raise AnalysisError('%s-%s: %s' % (self.prop, rid, message))


def load_known():
    if not os.path.exists(KNOWN_FILE):
        return []
    with open(KNOWN_FILE) as f:
        return json.load(f).get('findings', [])


def finish(ctx, explanation, level_note=None):
    """Print verdict lines, write evidence + replay files, return exit code."""
    known = load_known()
    known_keys = {(k['property'], k['key']): k for k in known if k.get('status') == 'known'}
    code = 0
    ev_dir = os.path.join(VERIF, 'evidence')
    os.makedirs(os.path.join(ev_dir, 'replay'), exist_ok=True)

    # vacuity guard
    for rid, r in sorted(ctx.rules.items()):
        if r['instances'] < r['min']:
            ctx.undecided.append('%s-%s: rule matched %d instance(s), at least %d confirmed by hand '
                                 '(anchor vanished or idiom changed)' % (ctx.prop, rid, r['instances'], r['min']))

    nviol = 0
    nknown = 0
    for f in ctx.findings:
        if ctx.only_key and f.key != ctx.only_key:
            continue
        k = known_keys.get((ctx.prop, f.key))
        if k is not None:
            nknown += 1
            print('KNOWN-FINDING: property=%s %s :: %s' % (ctx.prop, f.key, k.get('what', f.message)))
            continue
        nviol += 1
        safe = re.sub(r'[^A-Za-z0-9_.-]+', '_', f.key)[:120]
        rp = os.path.join(ev_dir, 'replay', '%s-%s.json' % (ctx.prop, safe))
        with open(rp, 'w') as fh:
            json.dump(dict(f.to_json(), replay_cmd='./check %s --replay %s' % (ctx.prop, rp)), fh, indent=1)
        print('  rule %s violated in %s (%s)' % (f.rule, f.qualname, f.where))
        print('    construct: %s' % f.construct)
        print('    %s' % f.message)
        for w in f.witness[:12]:
            print('      | %s' % w)
        print('VIOLATION property=%s replay=%s' % (ctx.prop, rp))
    for u in ctx.undecided:
        print('ANALYSIS-ERROR %s' % u)
    if nviol:
        code = 1
    elif ctx.undecided:
        code = 2

    nob = len(ctx.obligations)
    ndis = sum(1 for o in ctx.obligations if o[2] == 'HOLDS')
    distinct = len(set((o[0], str(o[1])) for o in ctx.obligations))
    rules_out = {rid: dict(r) for rid, r in sorted(ctx.rules.items())}
    evidence = {
        'property_id': ctx.prop,
        'tier': ctx.tier,
        'seed': ctx.seed,
        'level': 'other',
        'coverage': {
            'explanation': explanation,
            'obligations': nob,
            'discharged': ndis,
            'evaluations': max(nob, 1),
            'distinct_nontrivial': distinct,
            'rule': 'one obligation per (rule, instance): an instance is a construct of the current '
                    'source tree that matched the rule pattern (call site, path, table entry); it is '
                    'non-trivial when the pattern matched real code and the obligation had to be '
                    'discharged on it; instances are de-duplicated by (rule, instance text)',
            'samples': ctx.samples[:40] or [{'note': 'no instance matched'}],
            'exhaustive': bool(ctx.exhaustive),
            'rules': rules_out,
            'paths_explored': ctx.paths_explored,
            'functions_analysed': sorted(ctx.functions),
            'files': ctx.P.files_digest(),
            'not_decided': ctx.not_decided,
            'trusted_base': ctx.trusted,
            'known_findings_reported': nknown,
            'checker_validation': getattr(ctx, 'selftest', None),
            'undecided': ctx.undecided,
            'info': ctx.infos,
            'checker_cmd': './check %s --tier %s' % (ctx.prop, ctx.tier),
            'repo': ctx.P.repo,
        },
        'assumptions': ctx.trusted,
        'wall_s': round(time.time() - ctx.t0, 3),
        'violations': nviol,
    }
    if ctx.P.repo == '/repo' and not ctx.only_key:
        with open(os.path.join(ev_dir, '%s.json' % ctx.prop), 'w') as fh:
            json.dump(evidence, fh, indent=1, default=str)
    print('%s: %d obligations, %d discharged, %d violation(s), %d known finding(s), %d undecided, '
          '%d functions, %.2fs [%s]' % (ctx.prop, nob, ndis, nviol, nknown, len(ctx.undecided),
                                        len(ctx.functions), time.time() - ctx.t0, ctx.tier))
    return code


class Renamed(object):
    """View of a Ctx under which a rule module borrowed from another property reports under this property's own rule ids."""
    def __init__(self, ctx, mapping):
        object.__setattr__(self, '_ctx', ctx)
        object.__setattr__(self, '_map', mapping)

    def _r(self, rid):
        return self._map.get(rid, self._map.get('*', rid))

    def __getattr__(self, k):
        return getattr(self._ctx, k)

    def __setattr__(self, k, v):
        setattr(self._ctx, k, v)

    def rule(self, rid, desc, min_instances=1):
        # several rule ids of the home property may be folded into one id here: their instance minimum is enforced in the home property, here the
        # borrowed rule only has to match at all
        new = self._r(rid)
        if new in self._ctx.rules and new != rid:
            self._ctx.rules[new]['desc'] += ' | ' + desc if desc not in self._ctx.rules[new]['desc'] else ''
            return None
        return self._ctx.rule(new, desc, 1 if new != rid else min_instances)

    def holds(self, rid, *a, **k):
        return self._ctx.holds(self._r(rid), *a, **k)

    def violated(self, rid, *a, **k):
        return self._ctx.violated(self._r(rid), *a, **k)

    def undecide(self, rid, *a, **k):
        return self._ctx.undecide(self._r(rid), *a, **k)

    def require(self, rid, *a, **k):
        return self._ctx.require(self._r(rid), *a, **k)


class Trial(object):
    """A rule run "on trial": what it records is held back.  `commit()` replays it into the real context; `discard()` drops it.  Used where a structural reading of a
    function (which knows one way of writing it) and an interpretation of the same function on abstract inputs decide the same clause: the structural reading counts
    only when it ends without a complaint - a VIOLATION or an UNDECIDED of the structural reading means "not the shape I know", and the interpretation decides."""
    def __init__(self, ctx, about=None):
        object.__setattr__(self, '_ctx', ctx)
        object.__setattr__(self, '_log', [])
        object.__setattr__(self, '_keep', [])
        object.__setattr__(self, '_about', set(about) if about is not None else None)
        object.__setattr__(self, 'complaints', [])

    def __getattr__(self, k):
        return getattr(self._ctx, k)

    def __setattr__(self, k, v):
        setattr(self._ctx, k, v)

    def rule(self, *a, **k):
        self._log.append(('rule', a, k))

    def holds(self, *a, **k):
        self._log.append(('holds', a, k))

    def violated(self, rid, fi, construct, message, *a, **k):
        # a complaint counts against the structural reading only when it is about the function on trial (`about`: qualnames; None = any) and is not `firm`
        # (firm = decided by evaluation over a bounded domain, independent of how the function is written: kept whatever happens to the trial)
        firm = k.pop('firm', False)
        q = fi if isinstance(fi, str) else getattr(fi, 'qualname', None)
        about = object.__getattribute__(self, '_about')
        entry = ('violated', (rid, fi, construct, message) + a, k)
        if firm or (about is not None and q not in about):
            self._keep.append(entry)
        else:
            self.complaints.append('%s: %s' % (rid, construct if isinstance(construct, str) else message[:60]))
            self._log.append(entry)

    def undecide(self, rid, message):
        self.complaints.append('%s: %s' % (rid, message[:60]))
        self._log.append(('undecide', (rid, message), {}))

    def require(self, rid, cond, message):
        if not cond:
            self.complaints.append('%s: %s' % (rid, message[:60]))
            raise AnalysisError('%s-%s: %s' % (self._ctx.prop, rid, message))

    def commit(self):
        for kind, a, k in self._log + self._keep:
            getattr(self._ctx, kind)(*a, **k)

    def discard(self):
        # what was said about other functions, and what is firm, stays
        for kind, a, k in self._keep:
            getattr(self._ctx, kind)(*a, **k)
        del self._log[:]


def on_trial(ctx, structural, tables, rids, what, about=None):
    """Run the structural reading `structural(ctx)` on trial; when it ends with a complaint, drop what it recorded and decide rules `rids` by the scenario tables of the
    functions `tables` (interpretation on abstract inputs) instead."""
    trial = Trial(ctx, about=about if about is not None else tables)
    try:
        structural(trial)
    except AnalysisError as e:
        trial.complaints.append(str(e)[:80])
    if not trial.complaints:
        trial.commit()
        return True
    trial.discard()
    from .scenario_rule import rule_scenarios
    for rid in rids:
        for q in tables:
            rule_scenarios(ctx, rid, only=q, title='%s (%s by interpretation; the structural reading gave up on: %s)' % (what, q.rsplit('.', 1)[-1], '; '.join(trial.complaints[:2])))
    return False
