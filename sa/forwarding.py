"""Option plumbing: a frozen table of (function, callee, keyword, parameter) instances, each confirmed on the repaired tree, where a
public option of `function` reaches `callee` verbatim.  The rule decides, from the current source, that *every* call of `callee` inside
`function` still receives the caller's parameter unchanged (value numbering: temporaries and re-ordering do not matter; a re-bound,
defaulted, combined or dropped option does).  An option that no longer reaches the worker makes the operation ignore (or misread) what the
user asked for: C14-style "same option, different result between Dataset and DimArray", C01 "issorted forced", C17 "mode dropped"...

The table is sa/tables/forwarding.json (generated once by tools/gen_forwarding.py, then reviewed and frozen)."""
import json
import os

from . import terms as T
from .rules import P_, run
from .loader import AnalysisError

TABLE = os.path.join(os.path.dirname(os.path.abspath(__file__)), 'tables', 'forwarding.json')


def load_table():
    with open(TABLE) as f:
        return json.load(f)['entries']


def callee_calls(ev, callee):
    """distinct call events (by AST node) of `callee` over all paths"""
    seen = {}
    for p in ev.paths:
        for e in p.state.events:
            if e.kind == 'call' and T.call_name(e.a) == callee:
                seen.setdefault(id(e.node), []).append(e)
    return seen


def passed_value(P, call, kw):
    """term passed for keyword `kw`: explicit keyword, **{...} literal, or positional (resolved through the callee's signature)"""
    v = T.kw(call, kw)
    if v is not None:
        return v, 'keyword'
    if any(k == '**' for k, _ in call[3]):
        return None, 'starstar'
    name = T.call_name(call)
    cands = [fi for fi in P.functions.values() if fi.name == name and fi.parent is None]
    idxs = set()
    for fi in cands:
        params = list(fi.params)
        if kw in params:
            i = params.index(kw)
            # (a method call binds the receiver: also for module-level functions installed as methods, whose first parameter is `self`)
            if call[1][0] == 'attr' and params and params[0] in ('self', 'cls'):
                i -= 1
            idxs.add(i)
    if len(idxs) == 1:
        i = idxs.pop()
        # (`f(a, *rest)` with rest a known tuple of values - a helper's own *args handed on - reads like f(a, r0, r1, ...))
        pos = []
        for a in call[2]:
            if a[0] == 'star' and a[1][0] in ('tuple', 'list'):
                pos.extend(a[1][1])
            else:
                pos.append(a)
        if 0 <= i < len(pos) and not any(a[0] == 'star' for a in pos[:i + 1]):
            return pos[i], 'positional'
    return None, 'absent'


def _implied(guards):
    """The guards of a call, plus what they imply about the condition of a conditional expression they compare with a constant:
    `(1 if issorted else direction(values)) == 0` can only hold when `issorted` is false."""
    out = list(guards)
    for a, pol in guards:
        if a[0] == 'cmp' and a[1] == '==' and pol is True:
            for x, c in ((a[2], a[3]), (a[3], a[2])):
                if x[0] == 'ifexp' and c[0] == 'const':
                    if x[2][0] == 'const' and x[2] != c:
                        out.append((x[1], False))
                    if x[3][0] == 'const' and x[3] != c:
                        out.append((x[1], True))
    return out


# functions whose scenario table passes these options in and renders what each worker receives (sa/scenarios_def.sc_item_dispatch)
BY_SCENARIOS = {
    'dimarray.core.bases.AbstractDimArray._setitem': ('axis', 'indexing', 'tol', 'cast', 'broadcast'),
    'dimarray.core.bases.AbstractDimArray._getitem': ('axis', 'indexing', 'tol', 'keepdims', 'broadcast'),
}


def instances(ctx):
    return [e for e in load_table() if ctx.prop in e['props']]


def rule_forwarding(ctx, rid):
    mine = instances(ctx)
    ctx.rule(rid, 'option plumbing: every call of the worker receives the caller\'s option verbatim (frozen table of %d instances)' % len(mine), max(1, len(mine)))
    cache = {}
    for ent in mine:
        q = ent['function']
        fi = ctx.P.functions.get(q)
        if fi is None:
            ctx.undecide(rid, 'function %s of the forwarding table no longer exists' % q)
            continue
        if q not in cache:
            try:
                cache[q] = run(ctx, fi, mode='join')
            except AnalysisError as e:
                ctx.undecide(rid, '%s: %s' % (q, e))
                cache[q] = None
        ev = cache[q]
        if ev is None:
            continue
        calls = callee_calls(ev, ent['callee'])
        label = '%s -> %s(%s=%s)' % (q.replace('dimarray.', ''), ent['callee'], ent['kw'], ent['param'])
        if not calls and ent['callee'].startswith('_') and not any(f.name == ent['callee'] for f in ctx.P.functions.values()):
            ctx.holds(rid, label + ': the private worker no longer exists anywhere (merged into its caller): the option is used where it is given')
            continue
        if not calls and q in BY_SCENARIOS and ent['param'] in BY_SCENARIOS[q]:
            from . import scenarios_def as SD
            if q in SD.SCENARIOS and ctx.prop in SD.SCENARIOS[q][0]:
                # the call is made in a form this rule does not read (through a helper, a bound method picked first ...): what the worker receives for this option
                # is part of the outcome of the function's interpreted scenarios (rule RS of this property), which hand the option in and render the worker's arguments
                ctx.holds(rid, label + ': no direct call any more - decided by the interpreted scenarios of %s (RS), which pass %s and render what the worker receives' % (q.rsplit('.', 1)[-1], ent['param']))
                continue
        if not calls:
            ctx.undecide(rid, '%s: %s is no longer called from this function (table instance vanished)' % (label, ent['callee']))
            continue
        bad = False
        for evs in calls.values():
            for e in evs:
                v, how = passed_value(ctx.P, e.a, ent['kw'])
                if how == 'starstar':
                    continue
                if v is None:
                    bad = True
                    ctx.violated(rid, fi, '%s: option dropped' % label, 'option `%s` of %s is not passed on to %s(): the worker runs with its own default whatever the caller asked for'
                                 % (ent['param'], q.split('.')[-1], ent['callee']), node=e.node)
                    break
                # a constant that merely spells out what the guards of the call have established about the option (`if issorted: ... else: f(issorted=False)`)
                known = _implied(e.guards)
                if v in (T.CONST_TRUE, T.CONST_FALSE) and any(a == P_(ent['param']) and pol is (v == T.CONST_TRUE) for a, pol in known):
                    continue
                if v == T.CONST_NONE and any(a == T.mkcmp('is', P_(ent['param']), T.CONST_NONE) and pol is True for a, pol in known):
                    continue
                if ent.get('level') == 'derived':
                    if not T.contains(v, P_(ent['param'])):
                        bad = True
                        ctx.violated(rid, fi, '%s: option replaced' % label, 'what %s passes to %s() as `%s` (%s) no longer depends on its own option `%s`'
                                     % (q.split('.')[-1], ent['callee'], ent['kw'], T.show(v)[:60], ent['param']), node=e.node)
                        break
                    continue
                if v != P_(ent['param']):
                    bad = True
                    ctx.violated(rid, fi, '%s: option altered' % label, 'option `%s` of %s reaches %s() as `%s`, not as given by the caller'
                                 % (ent['param'], q.split('.')[-1], ent['callee'], T.show(v)[:80]), node=e.node)
                    break
            if bad:
                break
        if not bad:
            ctx.holds(rid, label)
