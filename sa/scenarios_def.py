"""Scenario definitions for sa/scenario.py: abstract objects standing for DimArray / Axis / Axes / Dataset, and, per analysed function, the list of abstract
argument forms it is interpreted on.  Each entry of SCENARIOS maps a function to (properties it serves, generator of (label, args, kwargs, options))."""
import itertools

from .scenario import Obj, Sym, TypeV, Fn, Bound, It, render, module_glob
from .absint import Raised, Undecided

DA = 'dimarray.core.dimarraycls.DimArray'
DS = 'dimarray.dataset.Dataset'
AXIS = 'dimarray.core.axes.Axis'
AXES = 'dimarray.core.axes.Axes'


P_HOLDER = []


def tok(name):
    return Sym('tok', name)


def class_methods(P, clsq, skip=()):
    """getattr hook: methods of a repository class (found along its MRO) are interpreted on the abstract receiver"""
    ci = P.classes.get(clsq)

    def hook(itp, obj, attr):
        if ci is None or attr in skip:
            return KeyError
        m = P.lookup(ci, attr)
        if m is None:
            return KeyError
        r = P.resolve_member(m) if hasattr(P, 'resolve_member') else None
        if r is not None and r[0] == 'func':
            fi = r[1]
            decs = [__import__('ast').unparse(d) for d in fi.node.decorator_list]
            fn = Fn(fi.node, None, module_glob(P, fi.module, obj.hooks.get('overrides')), fi.name)
            if 'property' in decs:
                return itp.call_fn(fn, [obj], {})
            if 'staticmethod' in decs:
                return fn
            return Bound(fn, obj)
        if r is not None and r[0] == 'prop' and r[1].get('fget') is not None:
            fi = r[1]['fget']
            return itp.call_fn(Fn(fi.node, None, module_glob(P, fi.module, obj.hooks.get('overrides')), fi.name), [obj], {})
        return KeyError
    return hook


def _prod(xs):
    r = 1
    for x in xs:
        if not isinstance(x, int):
            return Sym('call', 'prod', (list(xs),), {})
        r *= x
    return r


def mk_axis(name, size, labels=None, attrs=None, types=('Axis', 'AbstractAxis'), members=None):
    """abstract Axis: name, size, a token (or a concrete list) for its labels"""
    if labels is None:
        labels = tok('L_' + str(name))
    ax = Obj('AX', types=types, attrs={'name': name, 'size': size, 'values': labels, 'attrs': attrs if attrs is not None else tok('AXATTRS_' + str(name)),
                                       '_monotonic': None, 'tol': None, '_tol': None})
    if members is not None:
        ax.attrs['axes'] = members
    ax.hooks['render'] = lambda o: '%s(%s)=%s' % (render(o.attrs['name']), render(o.attrs['size']), render(o.attrs['values'])) + \
        ('' if isinstance(o.attrs.get('attrs'), Sym) and render(o.attrs['attrs']) == 'AXATTRS_' + str(o.attrs['name']) else ' attrs=' + render(o.attrs.get('attrs')))

    def copy(itp, o, a, k):
        c = mk_axis(o.attrs['name'], o.attrs['size'], o.attrs['values'], o.attrs.get('attrs'), o.types, o.attrs.get('axes'))
        c.attrs['_copy_of'] = o
        return c
    ax.methods['copy'] = copy

    def sort(itp, o, a, k):
        if a or k:
            raise Undecided('Axis.sort with arguments')
        v = o.attrs['values']
        if isinstance(v, list):
            try:
                o.attrs['values'] = sorted(v)
                return None
            except TypeError:
                raise Raised('TypeError')
        o.attrs['values'] = v if (isinstance(v, Sym) and v.t[0] == 'call' and v.t[1] == 'SORTED') else Sym('call', 'SORTED', (v,), {})
        return None
    ax.methods['sort'] = sort
    ax.hooks['length'] = lambda itp, o: o.attrs['size'] if isinstance(o.attrs['size'], int) else (_ for _ in ()).throw(Undecided('len of an axis of unknown size'))

    def getitem(itp, o, i):
        vals = o.attrs['values']
        if isinstance(vals, list) and isinstance(i, (int, slice)):
            try:
                sub = vals[i]
            except IndexError:
                raise Raised('IndexError')
            if isinstance(i, int):
                return sub
            return mk_axis(o.attrs['name'], len(sub), sub, o.attrs.get('attrs'), o.types)
        if isinstance(i, int):
            return Sym('sub', vals, i)
        return mk_axis(o.attrs['name'], Sym('call', 'len', (Sym('sub', vals, i),), {}), Sym('sub', vals, i), o.attrs.get('attrs'), o.types)
    ax.hooks['getitem'] = getitem

    def setitem(itp, o, i, v):
        if isinstance(i, slice) and i == slice(None, None, None):
            if isinstance(v, (list, tuple)) and isinstance(o.attrs['size'], int) and len(v) != o.attrs['size']:
                raise Raised('ValueError')
            o.attrs['values'] = list(v) if isinstance(v, (list, tuple)) else v
            return
        o.attrs['values'] = Sym('call', 'SETITEM', (o.attrs['values'], i, v), {})
    ax.hooks['setitem'] = setitem

    def setattr_(itp, o, attr, v):
        if attr == 'name' and not isinstance(v, str):
            raise Raised('TypeError')
        if attr == 'name' and v == '':
            raise Raised('ValueError')
        o.attrs[attr] = v
    ax.hooks['setattr'] = setattr_
    ax.hooks['iter'] = lambda itp, o: list(o.attrs['values']) if isinstance(o.attrs['values'], list) else [Sym('sub', o.attrs['values'], k) for k in range(o.attrs['size'])] \
        if isinstance(o.attrs['size'], int) else (_ for _ in ()).throw(Undecided('iteration over labels of unknown size'))
    ax.hooks['eq'] = lambda itp, o, other: o is other or (isinstance(other, Obj) and render(other.attrs.get('values')) == render(o.attrs.get('values'))
                                                         and other.attrs.get('name') == o.attrs.get('name'))
    if P_HOLDER:
        ax.hooks['getattr'] = class_methods(P_HOLDER[0], AXIS, skip=('copy', 'sort', 'name', 'size', 'values', 'attrs', 'tol', '__getitem__', '__setitem__', 'dtype'))
    return ax


def axis_factory(itp, args, kwargs):
    """Axis(values, name, **attrs) as the library's constructor would build it (1-d labels, a string name)"""
    vals = args[0] if args else kwargs.get('values')
    name = args[1] if len(args) > 1 else kwargs.get('name', 'x0')
    rest = dict((k, v) for k, v in kwargs.items() if k not in ('values', 'name', 'dtype'))
    if isinstance(vals, Obj) and 'Axis' in vals.types:
        vals = vals.attrs['values']
    if not isinstance(name, str) and not isinstance(name, Sym):
        raise Raised('TypeError')
    if name == '':
        raise Raised('ValueError')
    if isinstance(vals, It):
        raise Raised('ValueError')                # np.asarray of an iterator / dict view is a 0-d object array: not 1-d labels
    if isinstance(vals, tuple):
        vals = list(vals)
    if isinstance(vals, list):
        if any(isinstance(x, (list, tuple)) for x in vals) and len(set(len(x) if isinstance(x, (list, tuple)) else -1 for x in vals)) == 1 and vals and not isinstance(vals[0], tuple):
            raise Raised('ValueError')            # 2-d labels
        size = len(vals)
    elif isinstance(vals, Obj) and 'ndarray' in vals.types:
        if vals.attrs.get('ndim') != 1:
            raise Raised('ValueError')
        size = vals.attrs['shape'][0]
    elif isinstance(vals, (Sym, Obj)):
        size = Sym('call', 'len', (vals,), {})
    elif isinstance(vals, dict) or vals is None or isinstance(vals, (int, float, str)):
        raise Raised('ValueError')                # a 0-d label array
    else:
        vals = itp.iterate(vals)
        size = len(vals)
    return mk_axis(name, size, vals, rest if rest else {})


def multiaxis_factory(itp, args, kwargs):
    members = list(args)
    if not members:
        raise Raised('AssertionError')
    name = ','.join(m.attrs['name'] for m in members)
    return mk_axis(name, _prod([m.attrs['size'] for m in members]), Sym('call', 'GROUPED_LABELS', tuple(m.attrs['values'] for m in members), {}), {},
                   types=('MultiAxis', 'Axis', 'AbstractAxis'), members=mk_axes(members))


def mk_axes(axes, name='Axes'):
    """Axes: the repository's class (append with its duplicate-name test, __getitem__ / __setitem__ by position or name, insert, pop, sort ...) interpreted on an
    object whose storage is a plain list; the list primitives the class calls (list.append(self, ax), list.__getitem__(self, k) ...) act on that storage"""
    box = Obj(name, types=('Axes', 'AbstractAxes', 'list'), attrs={})
    box.attrs['_list'] = list(axes)
    P = P_HOLDER[0] if P_HOLDER else None
    if P is not None:
        box.hooks['overrides'] = shared_std(P)
    ci = P.classes.get(AXES) if P is not None else None

    def repo_method(itp, o, mname):
        m = P.lookup(ci, mname) if ci is not None else None
        r = P.resolve_member(m) if m is not None else None
        if r is None or r[0] != 'func':
            return None
        fi = r[1]
        return Bound(Fn(fi.node, None, module_glob(P, fi.module, o.hooks.get('overrides') or shared_std(P)), fi.name), o)

    def getitem(itp, o, i):
        f = repo_method(itp, o, '__getitem__')
        if f is None:
            try:
                return o.attrs['_list'][i]
            except Exception as e:
                itp.pyerr(e)
        return itp.apply(f, [i], {})

    def setitem(itp, o, i, v):
        f = repo_method(itp, o, '__setitem__')
        if f is None:
            o.attrs['_list'][i] = v
            return None
        return itp.apply(f, [i, v], {})
    box.hooks['getitem'] = getitem
    box.hooks['setitem'] = setitem
    box.hooks['iter'] = lambda itp, o: list(o.attrs['_list'])
    box.hooks['length'] = lambda itp, o: len(o.attrs['_list'])
    box.hooks['render'] = lambda o: '[' + ', '.join(render(a) for a in o.attrs['_list']) + ']'
    box.hooks['eq'] = lambda itp, o, other: isinstance(other, Obj) and 'Axes' in other.types and len(other.attrs['_list']) == len(o.attrs['_list']) and \
        all(itp._eq(x, y) for x, y in zip(o.attrs['_list'], other.attrs['_list']))
    box.methods['copy'] = lambda itp, o, a, k: mk_axes([x.methods['copy'](itp, x, [], {}) for x in o.attrs['_list']])
    inner = class_methods(P, AXES, skip=('copy',)) if P is not None else None

    def hook(itp, o, attr):
        r = inner(itp, o, attr) if inner is not None else KeyError
        if r is not KeyError:
            return r
        if hasattr(list, attr) and not attr.startswith('__'):
            def raw(itp_, a, k, attr=attr):
                try:
                    return getattr(o.attrs['_list'], attr)(*a, **k)
                except Exception as e:
                    itp_.pyerr(e)
            return raw
        return KeyError
    box.hooks['getattr'] = hook
    return box


def axes_factory(itp, args, kwargs):
    """Axes(...): the repository's Axes.__init__ interpreted on an empty Axes object"""
    box = mk_axes([])
    P = P_HOLDER[0] if P_HOLDER else None
    ci = P.classes.get(AXES) if P is not None else None
    m = P.lookup(ci, '__init__') if ci is not None else None
    r = P.resolve_member(m) if m is not None else None
    if r is None or r[0] != 'func':
        raise Undecided('Axes.__init__ not found')
    fi = r[1]
    itp.call_fn(Fn(fi.node, None, module_glob(P, fi.module, shared_std(P)), fi.name), [box] + list(args), dict(kwargs))
    return box


def mk_values(name, shape):
    v = Obj(name, types=('ndarray', 'np.ndarray'), attrs={'shape': tuple(shape), 'ndim': len(shape), 'size': _prod(shape), 'dtype': tok(name + '.dtype')})
    v.hooks['open'] = True
    for m in ('transpose', 'reshape', 'take', 'repeat', 'squeeze', 'swapaxes', 'copy', 'astype', 'ravel', 'compress'):
        v.methods[m] = (lambda m_: lambda itp, o, a, k: Sym('call', '%s.%s' % (o.name, m_), tuple(a), dict(k)))(m)
    v.hooks['getitem'] = lambda itp, o, i: Sym('sub', o, i)

    def squeeze(itp, o, a, k):
        # NumPy's rule on the known shape: the dimensions dropped are the singletons (all of them, or the ones asked for - which must be singletons); whichever way the
        # caller names them (None, a position, a negative position, a tuple), the outcome is written with the sorted tuple of positions
        ax = a[0] if a else k.get('axis')
        shape = o.attrs['shape']
        n = len(shape)
        if not all(isinstance(x, int) for x in shape) or (a and k) or len(a) > 1 or any(kk != 'axis' for kk in k):
            return Sym('call', '%s.squeeze' % o.name, tuple(a), dict(k))
        if ax is None:
            drop = [i for i, x in enumerate(shape) if x == 1]
        else:
            items = list(ax) if isinstance(ax, (tuple, list)) else [ax]
            drop = []
            for i in items:
                if isinstance(i, bool) or not isinstance(i, int):
                    raise Raised('TypeError')
                if not -n <= i < n:
                    raise Raised('AxisError')
                if shape[i % n] != 1:
                    raise Raised('ValueError')
                if i % n in drop:
                    raise Raised('ValueError')
                drop.append(i % n)
        drop = sorted(drop)
        return mk_values('%s.squeeze(%s)' % (o.name, drop), [x for i, x in enumerate(shape) if i not in drop])
    v.methods['squeeze'] = squeeze

    def reshape(itp, o, a, k):
        # C-order regrouping: a reshape of a reshape is the reshape of the original (the intermediate shape leaves no trace in the values)
        shp = a[0] if len(a) == 1 and isinstance(a[0], (list, tuple)) else (list(a) if a and all(isinstance(x, int) for x in a) else None)
        if k or shp is None or not all(isinstance(x, int) and not isinstance(x, bool) for x in shp) or not all(isinstance(x, int) for x in o.attrs['shape']):
            return Sym('call', '%s.reshape' % o.name, tuple(a), dict(k))
        if _prod(list(shp)) != _prod(list(o.attrs['shape'])):
            raise Raised('ValueError')
        base = o.attrs.get('_reshape_of', o)
        if list(shp) == list(base.attrs['shape']):
            return base
        r = mk_values('%s.reshape(%s)' % (base.name, list(shp)), list(shp))
        r.attrs['_reshape_of'] = base
        return r
    v.methods['reshape'] = reshape

    def transpose(itp, o, a, k):
        perm = a[0] if len(a) == 1 and isinstance(a[0], (list, tuple)) else (list(a) if a else None)
        shape = o.attrs['shape']
        n = len(shape)
        if k or (perm is not None and not all(isinstance(x, int) and not isinstance(x, bool) for x in perm)):
            return Sym('call', '%s.transpose' % o.name, tuple(a), dict(k))
        if perm is None:
            perm = list(range(n))[::-1]
        if len(perm) != n:
            raise Raised('ValueError')
        norm = []
        for x in perm:
            if not -n <= x < n:
                raise Raised('AxisError')
            norm.append(x % n)
        if len(set(norm)) != n:
            raise Raised('ValueError')
        if norm == list(range(n)):
            return o
        return mk_values('%s.transpose(%s)' % (o.name, norm), [shape[i] for i in norm])
    v.methods['transpose'] = transpose

    def fill(itp, o, a, k):
        o.name = '%s.filled(%s)' % (o.name, render(a[0]))
    v.methods['fill'] = fill
    v.hooks['render'] = lambda o: o.name
    return v


def mk_array(P, name, dims, sizes, cls=DA, axes=None, values=None, attrs=None, overrides=None):
    axes = axes if axes is not None else [mk_axis(d, n) for d, n in zip(dims, sizes)]
    dims = tuple(a.attrs['name'] for a in axes)
    sizes = tuple(a.attrs['size'] for a in axes)
    arr = Obj(name, types=('DimArray', 'AbstractDimArray', 'AbstractHasAxes'), attrs={
        'dims': dims, 'ndim': len(dims), 'shape': sizes, 'size': _prod(sizes), 'values': values if values is not None else mk_values('V_' + name, sizes),
        'axes': mk_axes(axes), 'attrs': attrs if attrs is not None else tok('ATTRS_' + name), '_indexing': None, '_indexing_broadcast': None})
    arr.attrs['labels'] = tuple(a.attrs['values'] for a in axes)
    arr.hooks['render'] = lambda o: 'ARRAY(values=%s, axes=%s, attrs=%s)' % (render(o.attrs['values']), render(o.attrs['axes']), render(o.attrs['attrs']))
    arr.hooks['overrides'] = overrides

    def constructor(itp, o, a, k):
        vals = a[0] if a else k.get('values')
        ax = a[1] if len(a) > 1 else k.get('axes')
        rest = dict((kk, vv) for kk, vv in k.items() if kk not in ('values', 'axes'))
        if isinstance(ax, Obj) and 'iter' in ax.hooks:
            ax = itp.iterate(ax)
        if not isinstance(ax, (list, tuple)) or not all(isinstance(x, Obj) and 'Axis' in x.types for x in ax):
            return Sym('call', 'NEW', (vals, ax), rest)
        if isinstance(vals, Obj) and 'ndarray' in vals.types and len(vals.attrs['shape']) != len(ax):
            raise Raised('Exception')             # the constructor's consistency check
        at = rest if rest else {}
        if len(rest) == 1 and list(rest)[0].startswith('**'):
            at = list(rest.values())[0]
        return mk_array(P, 'NEW', None, None, cls, axes=list(ax), values=vals, attrs=at, overrides=overrides)
    arr.methods['_constructor'] = constructor
    arr.hooks['getattr'] = class_methods(P, cls, skip=('dims', 'ndim', 'shape', 'size', 'values', 'axes', 'attrs', '_constructor', 'labels'))
    return arr


# ---------------------------------------------------------------------------------------------------------------- small concrete arrays
def _shape_of(data):
    if isinstance(data, list):
        if not data:
            return (0,)
        sub = _shape_of(data[0])
        return (len(data),) + sub
    return ()


def _kind_of(flat):
    kinds = set('b' if isinstance(x, bool) else 'i' if isinstance(x, int) else 'f' if isinstance(x, float) else 'U' if isinstance(x, str) else 'O' for x in flat)
    if not kinds:
        return 'f'
    if kinds <= {'b'}:
        return 'b'
    if kinds <= {'b', 'i'}:
        return 'i'
    if kinds <= {'b', 'i', 'f'}:
        return 'f'
    if 'O' in kinds:
        return 'O'
    return 'U'


def _flat(data):
    if isinstance(data, list):
        out = []
        for x in data:
            out.extend(_flat(x))
        return out
    return [data]


def conc(data, kind=None, shape=None):
    """a small array with concrete content (nested lists): what label arrays of grouped axes are computed from"""
    import copy as _c
    data = _c.deepcopy(data)
    shp = tuple(shape) if shape is not None else _shape_of(data)
    k = kind or _kind_of(_flat(data))
    a = Obj('arr', types=('ndarray', 'np.ndarray'), attrs={'shape': shp, 'ndim': len(shp), 'size': _prod(shp), '_data': data, 'dtype': Obj('dtype', attrs={'kind': k})})
    a.attrs['dtype'].hooks['render'] = lambda o: 'dtype(%s)' % o.attrs['kind']
    a.hooks['render'] = lambda o: 'array(%s, kind=%s)' % (render(o.attrs['_data']), o.attrs['dtype'].attrs['kind'])
    a.hooks['length'] = lambda itp, o: o.attrs['shape'][0] if o.attrs['shape'] else (_ for _ in ()).throw(Raised('TypeError'))
    a.hooks['iter'] = lambda itp, o: [conc(x, o.attrs['dtype'].attrs['kind']) if isinstance(x, list) else x for x in o.attrs['_data']] if o.attrs['shape'] else \
        (_ for _ in ()).throw(Raised('TypeError'))
    a.hooks['eq'] = lambda itp, o, other: isinstance(other, Obj) and other.attrs.get('_data') == o.attrs['_data']

    def getitem(itp, o, i):
        d = o.attrs['_data']
        if isinstance(i, tuple) and len(i) == 0:
            return o
        if not o.attrs['shape']:
            raise Raised('IndexError')
        try:
            if isinstance(i, int):
                x = d[i]
                return conc(x, o.attrs['dtype'].attrs['kind']) if isinstance(x, list) else x
            if isinstance(i, slice):
                return conc(d[i], o.attrs['dtype'].attrs['kind'])
        except IndexError:
            raise Raised('IndexError')
        return Sym('sub', o, i)

    def setitem(itp, o, i, v):
        if isinstance(i, slice) and i == slice(None, None, None):
            if isinstance(v, It):
                o.attrs['_data'][:] = [tok('<%s object>' % v.name)] * o.attrs['shape'][0]      # NumPy stores the iterator object itself in every cell
                return
            vals = itp.iterate(v)
            if len(vals) != o.attrs['shape'][0]:
                raise Raised('ValueError')
            if o.attrs['dtype'].attrs['kind'] != 'O' and any(isinstance(x, (tuple, list)) for x in vals):
                raise Raised('ValueError')
            o.attrs['_data'][:] = list(vals)
            return
        raise Undecided('array item store')
    a.hooks['getitem'] = getitem
    a.hooks['setitem'] = setitem
    def ravel(itp, o, aa, k):
        order = aa[0] if aa else k.get('order', 'C')
        if order not in ('C', 'F') or len(aa) > 1 or any(kk != 'order' for kk in k):
            raise Undecided('ravel(%s)' % render(list(aa) + sorted(k.items())))
        src = o
        if order == 'F' and len(o.attrs['shape']) > 1:
            src = itp.getattr_(o, 'T')           # column-major order = row-major order of the transposed array
        return conc(_flat(src.attrs['_data']) if src.attrs['shape'] else [src.attrs['_data']], o.attrs['dtype'].attrs['kind'])
    a.methods['ravel'] = ravel
    a.methods['tolist'] = lambda itp, o, aa, k: _c.deepcopy(o.attrs['_data'])
    a.methods['copy'] = lambda itp, o, aa, k: conc(o.attrs['_data'], o.attrs['dtype'].attrs['kind'], o.attrs['shape'])
    a.methods['astype'] = lambda itp, o, aa, k: conc(o.attrs['_data'], kind_char(aa[0] if aa else k.get('dtype')), o.attrs['shape'])

    def fill(itp, o, aa, k):
        def rec(d):
            return [rec(x) if isinstance(x, list) else aa[0] for x in d]
        o.attrs['_data'] = rec(o.attrs['_data']) if isinstance(o.attrs['_data'], list) else aa[0]
    a.methods['fill'] = fill
    a.methods['all'] = lambda itp, o, aa, k: all(bool(x) for x in _flat(o.attrs['_data'])) if not aa and not k and o.attrs['shape'] else Sym('call', 'all', (o,) + tuple(aa), dict(k))
    a.methods['any'] = lambda itp, o, aa, k: any(bool(x) for x in _flat(o.attrs['_data'])) if not aa and not k and o.attrs['shape'] else Sym('call', 'any', (o,) + tuple(aa), dict(k))

    def getattr_hook(itp, o, attr):
        if attr == 'T':
            d, shp_ = o.attrs['_data'], o.attrs['shape']
            if len(shp_) == 2:
                return conc([[d[i][j] for i in range(shp_[0])] for j in range(shp_[1])], o.attrs['dtype'].attrs['kind'], (shp_[1], shp_[0]))
            if len(shp_) <= 1:
                return o
            # n-d: the element at (i0, ..., ik) goes to (ik, ..., i0)
            import itertools as _it
            rshape = tuple(reversed(shp_))

            def at(data, idx):
                for i in idx:
                    data = data[i]
                return data

            def build(prefix):
                if len(prefix) == len(rshape):
                    return at(d, tuple(reversed(prefix)))
                return [build(prefix + (i,)) for i in range(rshape[len(prefix)])]
            return conc(build(()), o.attrs['dtype'].attrs['kind'], rshape)
        return KeyError
    a.hooks['getattr'] = getattr_hook
    return a


def kind_char(d):
    if isinstance(d, TypeV):
        return {'float': 'f', 'object': 'O', 'str': 'U', 'int': 'i', 'bool': 'b'}.get(d.name, 'O')
    if isinstance(d, str):
        return d[0] if d else 'f'
    if d is None:
        return None
    return 'O'


def class_attrs(P, clsq, overrides_of):
    """getattr hook of a class token: classmethods / staticmethods of the repository class are interpreted (cls = the token itself)"""
    ci = P.classes.get(clsq)

    def hook(itp, t, attr):
        if ci is None:
            return KeyError
        m = P.lookup(ci, attr)
        if m is None:
            return KeyError
        r = P.resolve_member(m)
        if r is not None and r[0] == 'func':
            fi = r[1]
            decs = [__import__('ast').unparse(d) for d in fi.node.decorator_list]
            fn = Fn(fi.node, None, module_glob(P, fi.module, overrides_of()), fi.name)
            if 'classmethod' in decs:
                return Bound(fn, t)
            if 'staticmethod' in decs:
                return fn
            return fn
        return KeyError
    return hook


def mk_np():
    """the few NumPy functions whose result *shape* the argument handling depends on; everything else is a symbolic call"""
    np = Obj('np', attrs={'newaxis': None, 'nan': tok('nan'), 'ndarray': TypeV('ndarray'), 'integer': TypeV('integer'), 'inf': tok('inf'), 'ma': tok('np.ma')})
    np.hooks['open'] = True
    np.hooks['render'] = lambda o: 'np'

    def shaped(name):
        def f(itp, o, a, k):
            shape = a[0] if a else k.get('shape')
            if isinstance(shape, int):
                shape = (shape,)
            if isinstance(shape, (list, tuple, range)) and all(isinstance(x, int) for x in shape):
                return mk_values('np.%s(%s)' % (name, list(shape)), list(shape))
            return Sym('call', 'np.' + name, tuple(a), dict(k))
        return f
    for nm in ('ones', 'zeros', 'empty'):
        np.methods[nm] = shaped(nm)

    def rollaxis(itp, o, a, k):
        arr, axis = a[0], a[1]
        start = a[2] if len(a) > 2 else k.get('start', 0)
        if not (isinstance(arr, Obj) and 'ndarray' in arr.types and isinstance(axis, int) and isinstance(start, int)):
            return Sym('call', 'np.rollaxis', tuple(a), dict(k))
        n = arr.attrs['ndim']
        if not -n <= axis < n or not -n <= start <= n:
            raise Raised('AxisError')
        if axis < 0:
            axis += n
        if start < 0:
            start += n
        axes = list(range(n))
        if axis < start:
            start -= 1
        if axis != start:
            axes.remove(axis)
            axes.insert(start, axis)
        shp = [arr.attrs['shape'][i] for i in axes]
        return mk_values('np.rollaxis(%s, %d, %d)' % (arr.name, axis, start), shp)
    np.methods['rollaxis'] = rollaxis

    def as_conc(x):
        if isinstance(x, Obj) and '_data' in x.attrs:
            return x
        if isinstance(x, (list, tuple)) and not has_abstract_deep(x):
            return conc([list(y) if isinstance(y, tuple) else y for y in x] if any(isinstance(y, tuple) for y in x) else list(x))
        return None

    def meshgrid(itp, o, a, k):
        arrs = [as_conc(x) for x in a]
        if any(x is None or x.attrs['ndim'] != 1 for x in arrs) or k.get('indexing') not in ('ij', 'xy', None):
            return Sym('call', 'np.meshgrid', tuple(a), dict(k))
        lists = [x.attrs['_data'] for x in arrs]
        order = list(range(len(lists)))
        if k.get('indexing', 'xy') == 'xy' and len(lists) >= 2:
            order[0], order[1] = 1, 0
        shape = [len(lists[i]) for i in order]
        out = []
        for n_, lab in enumerate(lists):
            def build(idx, depth, n_=n_, lab=lab):
                if depth == len(order):
                    return lab[idx[order.index(n_)]]
                return [build(idx + [j], depth + 1) for j in range(shape[depth])]
            out.append(conc(build([], 0), arrs[n_].attrs['dtype'].attrs['kind'], shape))
        return out
    np.methods['meshgrid'] = meshgrid

    def array(itp, o, a, k):
        x = a[0] if a else k.get('object')
        dt = k.get('dtype', a[1] if len(a) > 1 else None)
        if isinstance(x, (list, tuple)) and not has_abstract_deep(x):
            rows = [list(y) if isinstance(y, (tuple, list)) else y for y in x]
            if rows and all(isinstance(y, list) for y in rows) and len(set(len(y) for y in rows)) == 1:
                return conc(rows, kind_char(dt))
            if not any(isinstance(y, list) for y in rows):
                return conc(rows, kind_char(dt))
            raise Raised('ValueError')
        if isinstance(x, Obj) and 'ndarray' in x.types and '_data' not in x.attrs and all(kk in ('dtype', 'copy') for kk in k) and len(a) == 1 and k.get('copy', True) is True:
            # (a copy: another object with the same content - rendered like the original, the values are what the outcome is about)
            return mk_values(x.name if k.get('dtype') is None else '%s.astype(%s)' % (x.name, render(k['dtype'])), x.attrs['shape'])
        return asarray(itp, o, a, dict((kk, vv) for kk, vv in k.items() if kk != 'copy' or vv is not True))
    np.methods['array'] = array
    np.methods['dtype'] = lambda itp, o, a, k: a[0] if isinstance(a[0], TypeV) else Sym('call', 'np.dtype', tuple(a), dict(k))

    def empty(itp, o, a, k):
        shape = a[0] if a else k.get('shape')
        dt = k.get('dtype', a[1] if len(a) > 1 else None)
        if isinstance(shape, int) and not isinstance(shape, bool):
            return conc([None] * shape, kind_char(dt) or 'f', (shape,))
        if isinstance(shape, (tuple, list)) and len(shape) == 2 and all(isinstance(x, int) for x in shape):
            return conc([[None] * shape[1] for _ in range(shape[0])], kind_char(dt) or 'f', tuple(shape))
        return shaped('empty')(itp, o, a, k)
    np.methods['empty'] = empty
    np.methods['arange'] = lambda itp, o, a, k: mk_values('np.arange(%d)' % a[0], [a[0]]) if len(a) == 1 and isinstance(a[0], int) and not isinstance(a[0], bool) and not k \
        else Sym('call', 'np.arange', tuple(a), dict(k))
    def allany(which):
        def f(itp, o, a, k):
            x = a[0]
            if isinstance(x, bool) and not k:
                return x
            if isinstance(x, (list, tuple)) and not k and not any(isinstance(y, (Obj, list, tuple)) for y in x):
                vals = [itp.truth(y) for y in x]
                return all(vals) if which == 'all' else any(vals)
            return Sym('call', 'np.' + which, tuple(a), dict(k))
        return f
    np.methods['all'] = allany('all')
    np.methods['any'] = allany('any')

    def ndim(itp, o, a, k):
        x = a[0]
        if isinstance(x, Obj) and 'ndim' in x.attrs:
            return x.attrs['ndim']
        if isinstance(x, (int, float, str, bool)) or x is None:
            return 0
        if isinstance(x, (list, tuple)):
            return 1 + (ndim(itp, o, [x[0]], {}) if x and isinstance(x[0], (list, tuple)) else 0)
        return Sym('call', 'np.ndim', tuple(a), {})
    np.methods['ndim'] = ndim

    def size(itp, o, a, k):
        x = a[0]
        if isinstance(x, Obj) and 'size' in x.attrs:
            return x.attrs['size']
        if isinstance(x, (int, float, str, bool)) or x is None:
            return 1
        if isinstance(x, (list, tuple)) and not any(isinstance(y, (list, tuple)) for y in x):
            return len(x)
        return Sym('call', 'np.size', tuple(a), {})
    np.methods['size'] = size
    np.methods['isscalar'] = lambda itp, o, a, k: isinstance(a[0], (int, float, str, bool, complex)) and not isinstance(a[0], (Obj, Sym))
    np.methods['iterable'] = lambda itp, o, a, k: isinstance(a[0], (list, tuple, dict, str, set, frozenset, Sym, range)) or (isinstance(a[0], Obj) and ('iter' in a[0].hooks or 'ndarray' in a[0].types))

    def asarray(itp, o, a, k):
        x = a[0]
        if isinstance(x, Obj) and '_data' in x.attrs:
            dt = k.get('dtype', a[1] if len(a) > 1 else None)
            return x if dt is None else conc(x.attrs['_data'], kind_char(dt), x.attrs['shape'])
        if isinstance(x, Obj) and 'DimArray' in x.types and 'values' in x.attrs and len(a) == 1:
            return asarray(itp, o, [x.attrs['values']], k)             # __array__: the values of the array
        if isinstance(x, Obj) and 'ndarray' in x.types and len(a) == 1 and all(kk == 'dtype' for kk in k):
            if k.get('dtype') is None:
                return x
            return mk_values('%s.astype(%s)' % (x.name, render(k['dtype'])), x.attrs['shape'])
        if isinstance(x, Obj) and 'Axis' in x.types and not k and len(a) == 1:
            lab = x.attrs['values']
            return asarray(itp, o, [lab], {}) if isinstance(lab, list) else mk_values(render(lab), [x.attrs['size']])
        if (isinstance(x, (int, float, str, bool, dict)) or x is None) and len(a) == 1:
            return mk_values('np.asarray(%s)' % render(x), [])                    # a 0-d array
        if isinstance(x, (list, tuple)) and x and all(isinstance(y, (list, tuple)) for y in x) and len(a) == 1:
            lens = set(len(y) for y in x)
            if len(lens) == 1 and not any(isinstance(z, (list, tuple, Obj, Sym)) for y in x for z in y):
                return mk_values('np.asarray(%s)' % render([list(y) for y in x]), [len(x), lens.pop()])
            if len(lens) > 1 and k.get('dtype') is None:
                raise Raised('ValueError')                                        # ragged nested sequences (NumPy >= 1.24)
            inner = [z for y in x for z in y]
            if any(isinstance(z, (list, tuple)) for z in inner) and not all(isinstance(z, (list, tuple)) for z in inner) and k.get('dtype') is None:
                raise Raised('ValueError')
        if isinstance(x, (list, tuple)) and any(isinstance(y, (list, tuple)) for y in x) and not all(isinstance(y, (list, tuple)) for y in x) and len(a) == 1 \
                and k.get('dtype') is None:
            raise Raised('ValueError')
        if isinstance(x, (list, tuple)) and not any(isinstance(y, (list, tuple, Obj, Sym)) for y in x) and not k and len(a) == 1:
            v = mk_values('np.asarray(%s)' % render(list(x)), [len(x)])
            v.attrs['_items'] = list(x)
            v.hooks['getitem'] = lambda itp_, o_, i_: o_.attrs['_items'][i_] if isinstance(i_, int) and -len(o_.attrs['_items']) <= i_ < len(o_.attrs['_items']) else \
                ((_ for _ in ()).throw(Raised('IndexError')) if isinstance(i_, int) else Sym('sub', o_, i_))
            v.hooks['iter'] = lambda itp_, o_: list(o_.attrs['_items'])
            v.hooks['length'] = lambda itp_, o_: len(o_.attrs['_items'])
            return v
        return Sym('call', 'np.asarray', tuple(a), dict(k))
    np.methods['asarray'] = asarray

    def isin(itp, o, a, k):
        x, y = as_conc(a[0]), as_conc(a[1]) if len(a) > 1 else None
        if x is None or y is None or x.attrs['ndim'] != 1 or y.attrs['ndim'] != 1 or any(kk != 'invert' for kk in k):
            return Sym('call', 'np.isin', tuple(a), dict(k))
        inv = bool(k.get('invert', False))
        return conc([(v in y.attrs['_data']) != inv for v in x.attrs['_data']], 'b')
    np.methods['isin'] = isin
    np.methods['in1d'] = isin
    np.methods['prod'] = lambda itp, o, a, k: _prod(itp.iterate(a[0])) if isinstance(a[0], (list, tuple)) and all(isinstance(y, int) for y in a[0]) else Sym('call', 'np.prod', tuple(a), dict(k))
    return np


def has_abstract_deep(x, depth=0):
    if isinstance(x, (Sym, Obj)):
        return True
    if isinstance(x, (list, tuple)) and depth < 6:
        return any(has_abstract_deep(y, depth + 1) for y in x)
    return False


def has_abstract_in(xs):
    return any(isinstance(x, (Sym, Obj)) for x in xs)


_SHARED = {}


def shared_std(P):
    """one never-modified set of the standard overrides per loaded program (what the methods of abstract Axis / Axes objects are interpreted with)"""
    if id(P) not in _SHARED:
        _SHARED.clear()
        _SHARED[id(P)] = std_overrides(P)
    return _SHARED[id(P)]


def std_overrides(P):
    ov = {}
    axes_t = TypeV('Axes', ctor=axes_factory)
    axes_t.getattr = class_attrs(P, AXES, lambda: ov)
    ov.update(_std(P))
    ov['Axes'] = axes_t
    return ov


def _std(P):
    axis_t = TypeV('Axis', ctor=axis_factory)
    axis_t.getattr = class_attrs(P, AXIS, lambda: shared_std(P))
    return {'Axis': axis_t, 'MultiAxis': TypeV('MultiAxis', bases=('Axis',), ctor=multiaxis_factory), 'Axes': TypeV('Axes', ctor=axes_factory),
            'np': mk_np(), 'numpy': mk_np()}


# ---------------------------------------------------------------------------------------------------------------- scenario lists
def A(P, dims, sizes, name='A'):
    return mk_array(P, name, dims, sizes, overrides=std_overrides(P))


def OPTS(P, **more):
    ov = std_overrides(P)
    ov.update(more)
    return {'overrides': ov}


SHAPES = {0: ((), ()), 1: (('a',), (2,)), 2: (('a', 'b'), (2, 3)), 3: (('a', 'b', 'c'), (2, 3, 4))}


def sc_transpose(P):
    out = []
    shapes = {0: ((), ()), 1: (('a',), (2,)), 2: (('a', 'b'), (2, 3)), 3: (('a', 'b', 'c'), (2, 3, 4))}
    for nd, (dims, sizes) in shapes.items():
        forms = [('no argument', ())]
        for perm in itertools.permutations(range(nd)):
            names = [dims[i] for i in perm]
            if nd == 0:
                continue
            forms += [('names %s as arguments' % (names,), tuple(names)), ('list of names %s' % (names,), (list(names),)), ('tuple of names %s' % (names,), (tuple(names),)),
                      ('positions %s' % (list(perm),), tuple(perm)), ('list of positions %s' % (list(perm),), (list(perm),))]
            if nd >= 2:
                forms.append(('negative positions %s' % ([i - nd for i in perm],), ([i - nd for i in perm],)))
        for label, args in forms:
            out.append(('%d-d array, %s' % (nd, label), (lambda dims=dims, sizes=sizes, args=args: ([A(P, dims, sizes)] + list(args), {}, OPTS(P)))))
    # names of more than one character (a name is a string, not a sequence of names)
    out.append(("1-d array, name 'time' as argument", lambda: ([A(P, ('time',), (3,)), 'time'], {}, OPTS(P))))
    out.append(("2-d array, names ['lat', 'time'] as arguments", lambda: ([A(P, ('time', 'lat'), (3, 2)), 'lat', 'time'], {}, OPTS(P))))
    out.append(("2-d array, set of names", lambda: ([A(P, ('time', 'lat'), (3, 2)), {'lat', 'time'}], {}, OPTS(P))))
    return out


def _subsets_in_orders(dims, minlen=1):
    out = []
    for r in range(minlen, len(dims) + 1):
        for sub in itertools.permutations(dims, r):
            out.append(list(sub))
    return out


def sc_flatten(P):
    out = []
    for nd in (1, 2, 3):
        dims, sizes = SHAPES[nd]
        mk = lambda dims=dims, sizes=sizes: A(P, dims, sizes)
        out.append(('%d-d, no argument' % nd, lambda mk=mk: ([mk()], {}, OPTS(P))))
        for sub in _subsets_in_orders(dims):
            if nd == 3 and len(sub) == 3 and sub not in (['a', 'b', 'c'], ['c', 'a', 'b']):
                continue
            out.append(('%d-d, tuple %s' % (nd, sub), lambda mk=mk, sub=sub: ([mk(), tuple(sub)], {}, OPTS(P))))
            out.append(('%d-d, list %s' % (nd, sub), lambda mk=mk, sub=sub: ([mk(), list(sub)], {}, OPTS(P))))
            if len(sub) >= 2:
                out.append(('%d-d, names %s as arguments' % (nd, sub), lambda mk=mk, sub=sub: ([mk()] + list(sub), {}, OPTS(P))))
                out.append(('%d-d, set %s' % (nd, sorted(sub)), lambda mk=mk, sub=sub: ([mk(), set(sub)], {}, OPTS(P))))
            for ins in (0, 1, -1, 5):
                if nd >= 2 and len(sub) <= 2:
                    out.append(('%d-d, tuple %s, insert=%d' % (nd, sub, ins), lambda mk=mk, sub=sub, ins=ins: ([mk(), tuple(sub)], {'insert': ins}, OPTS(P))))
        if nd >= 2:
            out.append(('%d-d, positions (0, 1)' % nd, lambda mk=mk: ([mk(), (0, 1)], {}, OPTS(P))))
            out.append(('%d-d, positions (-1, 0)' % nd, lambda mk=mk: ([mk(), (-1, 0)], {}, OPTS(P))))
            out.append(('%d-d, reverse=True of %s' % (nd, [dims[0]]), lambda mk=mk, dims=dims: ([mk(), (dims[0],)], {'reverse': True}, OPTS(P))))
            out.append(('%d-d, unknown keyword' % nd, lambda mk=mk, dims=dims: ([mk(), tuple(dims)], {'bogus': 1}, OPTS(P))))
            out.append(('%d-d, unknown dimension' % nd, lambda mk=mk: ([mk(), ('a', 'zz')], {}, OPTS(P))))
    # a set has no order of its own: the dimensions are grouped in the order of the array (the interpreter iterates a set in sorted order: here that is not the array's)
    cab = (('c', 'a', 'b'), (4, 2, 3))
    out.append(("3-d ['c', 'a', 'b'], set ['a', 'c']", lambda: ([A(P, *cab), {'a', 'c'}], {}, OPTS(P))))
    out.append(("3-d ['c', 'a', 'b'], set ['a', 'b', 'c']", lambda: ([A(P, *cab), {'a', 'b', 'c'}], {}, OPTS(P))))
    out.append(("3-d ['c', 'a', 'b'], tuple ['a', 'c']", lambda: ([A(P, *cab), ('a', 'c')], {}, OPTS(P))))
    # positions in a set are positions, like in a tuple
    out.append(('3-d, set of positions [0, 2]', lambda: ([A(P, *SHAPES[3]), {0, 2}], {}, OPTS(P))))
    out.append(("3-d, set of a name and a position ['a', 2]", lambda: ([A(P, *SHAPES[3]), {'a', 2}], {}, OPTS(P))))
    out.append(('3-d, set of negative positions [-1, -3]', lambda: ([A(P, *SHAPES[3]), {-1, -3}], {}, OPTS(P))))
    return out


def grouped_array(P, spec, name='G'):
    """spec: list of names or tuples of names (a group)"""
    sizes = {'a': 2, 'b': 3, 'c': 4, 'd': 5}
    axes = []
    for it in spec:
        if isinstance(it, tuple):
            axes.append(multiaxis_factory(None, [mk_axis(n, sizes[n]) for n in it], {}))
        else:
            axes.append(mk_axis(it, sizes[it]))
    return mk_array(P, name, None, None, axes=axes, values=mk_values('V_' + name, [x.attrs['size'] for x in axes]), overrides=std_overrides(P))


def sc_unflatten(P):
    out = []
    specs = [[('a', 'b')], [('a', 'b'), 'c'], ['c', ('a', 'b')], [('b', 'a'), 'c'], [('a', 'b'), ('c', 'd')], ['a', 'b'], [('a', 'b', 'c')]]
    for spec in specs:
        for label, args in (('no argument', []), ('axis=0', [0]), ('axis=-1', [-1]), ("axis by name", [','.join(spec[0]) if isinstance(spec[0], tuple) else spec[0]])):
            out.append(('%s, %s' % (spec, label), lambda spec=spec, args=args: ([grouped_array(P, spec)] + list(args), {}, OPTS(P))))
    return out


def sc_reshape(P):
    out = []
    cases = []
    d2, d3 = SHAPES[2], SHAPES[3]
    for dims, sizes in (d2, d3):
        nd = len(dims)
        targets = [list(dims), list(reversed(dims)), [','.join(dims)], [','.join(reversed(dims))], list(dims) + ['n1'], ['n1'] + list(dims), [dims[0], ','.join(dims[1:])] if nd > 1 else None,
                   [','.join(dims[:2])] + list(dims[2:]), [dims[-1], ','.join(dims[:-1])]]
        if nd == 3:
            targets += [['a,c', 'b'], ['b', 'c,a'], ['c', 'n1', 'b,a'], ['a', 'b']]
        for t in targets:
            if t is None:
                continue
            cases.append((dims, sizes, t))
    for dims, sizes, t in cases:
        mk = lambda dims=dims, sizes=sizes: A(P, dims, sizes)
        out.append(('%s -> list %s' % (list(dims), t), lambda mk=mk, t=t: ([mk(), list(t)], {}, OPTS(P))))
        out.append(('%s -> tuple %s' % (list(dims), t), lambda mk=mk, t=t: ([mk(), tuple(t)], {}, OPTS(P))))
        out.append(('%s -> arguments %s' % (list(dims), t), lambda mk=mk, t=t: ([mk()] + list(t), {}, OPTS(P))))
        out.append(('%s -> list %s, transpose=False' % (list(dims), t), lambda mk=mk, t=t: ([mk(), list(t)], {'transpose': False}, OPTS(P))))
    for spec, t in (([('a', 'b'), 'c'], ['a', 'b', 'c']), ([('a', 'b'), 'c'], ['b', 'c,a']), (['c', ('a', 'b')], ['a,c', 'b']), ([('a', 'b')], ['a', 'b']), ([('a', 'b')], ['b', 'a'])):
        out.append(('grouped %s -> %s' % (spec, t), lambda spec=spec, t=t: ([grouped_array(P, spec), list(t)], {}, OPTS(P))))
    # singleton dimensions: kept with their label when requested, dropped when not
    d1 = (('a', 'b', 'c'), (2, 1, 4))
    for t in (['a', 'b', 'c'], ['b', 'a', 'c'], ['c', 'b', 'a'], ['a', 'c'], ['c', 'a'], ['a', 'b,c'], ['a,b', 'c'], ['a', 'n1', 'c'], ['b']):
        out.append(('singleton b: %s -> list %s' % (list(d1[0]), t), lambda t=t: ([A(P, *d1), list(t)], {}, OPTS(P))))
    out.append(('singleton b: %s -> list %s, transpose=False' % (list(d1[0]), ['a', 'c']), lambda: ([A(P, *d1), ['a', 'c']], {'transpose': False}, OPTS(P))))
    # two singleton dimensions, one requested and one not: only the unwanted one goes, the other keeps its label
    d11 = (('a', 'b', 'c', 'd'), (2, 1, 4, 1))
    for t in (['a', 'b', 'c'], ['a', 'c', 'd'], ['d', 'a', 'c'], ['a', 'c'], ['a', 'b,c'], ['b', 'a', 'c']):
        out.append(('singletons b, d: %s -> list %s' % (list(d11[0]), t), lambda t=t: ([A(P, *d11), list(t)], {}, OPTS(P))))
    # several groups, with more dimensions before / between / after them
    d5 = (('a', 'b', 'c', 'd', 'e'), (2, 3, 4, 5, 6))
    for t in (['a,b', 'c,d', 'e'], ['a', 'b,c', 'd,e'], ['a,b', 'c', 'd,e'], ['e', 'a,b', 'c,d'], ['a,b', 'c,d,e'], ['b,a', 'd,c', 'e'], ['c,d', 'a,b', 'e'], ['a', 'b,c', 'd', 'e'],
              ['a,b', 'n1', 'c,d', 'e']):
        out.append(('%s -> list %s' % (list(d5[0]), t), lambda t=t: ([A(P, *d5), list(t)], {}, OPTS(P))))
    out.append(("['a', 'b'] -> single string 'a,b'", lambda: ([A(P, *d2), 'a,b'], {}, OPTS(P))))
    out.append(("['a', 'b'] -> unknown keyword", lambda: ([A(P, *d2), ['a', 'b']], {'bogus': 1}, OPTS(P))))
    return out


def sc_swapaxes(P):
    out = []
    for nd in (2, 3):
        dims, sizes = SHAPES[nd]
        for a1, a2 in itertools.permutations(list(range(-nd, nd)) + list(dims), 2):
            out.append(('%d-d, swapaxes(%r, %r)' % (nd, a1, a2), lambda dims=dims, sizes=sizes, a1=a1, a2=a2: ([A(P, dims, sizes), a1, a2], {}, OPTS(P))))
    return out


def sc_rollaxis(P):
    out = []
    for nd in (2, 3):
        dims, sizes = SHAPES[nd]
        for ax in list(range(-nd, nd)) + list(dims):
            out.append(('%d-d, rollaxis(%r)' % (nd, ax), lambda dims=dims, sizes=sizes, ax=ax: ([A(P, dims, sizes), ax], {}, OPTS(P))))
    # every start position before, at and after the axis (start counts positions of the original order; ndim means "after the last")
    dims, sizes = SHAPES[3]
    for ax in (0, 1, 2, -1, 'b'):
        for start in range(-4, 6):
            out.append(('3-d, rollaxis(%r, %d)' % (ax, start), lambda ax=ax, start=start: ([A(P, dims, sizes), ax, start], {}, OPTS(P))))
    out.append(('3-d, rollaxis(1, start=3) by keyword', lambda: ([A(P, dims, sizes), 1], {'start': 3}, OPTS(P))))
    return out


def sc_squeeze(P):
    out = []
    shapes = [(('a',), (1,)), (('a', 'b'), (1, 3)), (('a', 'b'), (2, 1)), (('a', 'b', 'c'), (1, 3, 1)), (('a', 'b', 'c'), (2, 3, 4)), (('a', 'b', 'c'), (1, 1, 1))]
    for dims, sizes in shapes:
        for ax in [None] + list(range(-len(dims), len(dims))) + list(dims):
            out.append(('sizes %s, squeeze(%r)' % (dict(zip(dims, sizes)), ax), lambda dims=dims, sizes=sizes, ax=ax: ([A(P, dims, sizes)] + ([] if ax is None else [ax]), {}, OPTS(P))))
    return out


def sc_newaxis(P):
    out = []
    for nd in (0, 1, 2):
        dims, sizes = SHAPES[nd]
        for pos in [None] + list(range(-nd - 1, nd + 2)):
            kw = {} if pos is None else {'pos': pos}
            out.append(('%d-d, newaxis("n", %s)' % (nd, kw), lambda dims=dims, sizes=sizes, kw=kw: ([A(P, dims, sizes), 'n'], dict(kw), OPTS(P))))
        out.append(('%d-d, newaxis("n", values=[7, 8])' % nd, lambda dims=dims, sizes=sizes: ([A(P, dims, sizes), 'n'], {'values': [7, 8]}, OPTS(P))))
        out.append(('%d-d, newaxis("n", values=[7, 8], pos=1)' % nd, lambda dims=dims, sizes=sizes: ([A(P, dims, sizes), 'n'], {'values': [7, 8], 'pos': 1}, OPTS(P))))
        if nd:
            out.append(('%d-d, newaxis of an existing name' % nd, lambda dims=dims, sizes=sizes: ([A(P, dims, sizes), dims[0]], {}, OPTS(P))))
        out.append(('%d-d, newaxis with a non-string name' % nd, lambda dims=dims, sizes=sizes: ([A(P, dims, sizes), 3], {}, OPTS(P))))
    return out


def sc_repeat(P):
    out = []
    shapes = [(('a',), (1,)), (('a', 'b'), (1, 3)), (('a', 'b'), (2, 1)), (('a', 'b'), (2, 3))]
    for dims, sizes in shapes:
        for ax in list(dims) + list(range(len(dims))) + [-1]:
            out.append(('sizes %s, repeat([7, 8, 9], axis=%r)' % (dict(zip(dims, sizes)), ax), lambda dims=dims, sizes=sizes, ax=ax: ([A(P, dims, sizes), [7, 8, 9]], {'axis': ax}, OPTS(P))))
            out.append(('sizes %s, repeat(3, axis=%r)' % (dict(zip(dims, sizes)), ax), lambda dims=dims, sizes=sizes, ax=ax: ([A(P, dims, sizes), 3], {'axis': ax}, OPTS(P))))
        out.append(('sizes %s, repeat(Axis named %r)' % (dict(zip(dims, sizes)), dims[0]), lambda dims=dims, sizes=sizes: ([A(P, dims, sizes), mk_axis(dims[0], 3, [7, 8, 9])], {}, OPTS(P))))
        out.append(('sizes %s, repeat(values) without axis' % (dict(zip(dims, sizes)),), lambda dims=dims, sizes=sizes: ([A(P, dims, sizes), [7, 8, 9]], {}, OPTS(P))))
    return out


def sc_broadcast(P):
    out = []
    from collections import OrderedDict as OD
    srcs = [((), ()), (('a',), (2,)), (('b',), (3,)), (('a', 'b'), (2, 3)), (('b', 'a'), (3, 2)), (('a',), (1,)), (('a', 'b'), (1, 3))]
    tgt_specs = [[('a', 2)], [('a', 2), ('b', 3)], [('b', 3), ('a', 2)], [('c', 4), ('a', 2), ('b', 3)], [('a', 1), ('b', 3)], []]
    for dims, sizes in srcs:
        for spec in tgt_specs:
            names = [n for n, _ in spec]
            if not set(dims) <= set(names):
                continue
            lab = 'source %s onto %s' % (dict(zip(dims, sizes)), spec)
            out.append((lab + ' (list of Axis)', lambda dims=dims, sizes=sizes, spec=spec: ([A(P, dims, sizes), [mk_axis(n, k, tok('T_' + n)) for n, k in spec]], {}, OPTS(P))))
            out.append((lab + ' (DimArray)', lambda dims=dims, sizes=sizes, spec=spec: (
                [A(P, dims, sizes), mk_array(P, 'T', None, None, axes=[mk_axis(n, k, tok('T_' + n)) for n, k in spec], values=mk_values('V_T', [k for _, k in spec]), overrides=std_overrides(P))], {}, OPTS(P))))
    out.append(('source a onto OrderedDict', lambda: ([A(P, ('a',), (2,)), OD([('b', [1, 2, 3]), ('a', [5, 6])])], {}, OPTS(P, OrderedDict=TypeV('OrderedDict')))))
    out.append(('source a onto a tuple (invalid)', lambda: ([A(P, ('a',), (2,)), ('a', 'b')], {}, OPTS(P))))
    out.append(('source a onto a list of names (invalid)', lambda: ([A(P, ('a',), (2,)), ['a', 'b']], {}, OPTS(P))))
    return out


def sc_init_axes(P):
    """_init_axes(axes, dims, labels, shape): every documented way of giving the axes of an array"""
    out = []
    L0, L1 = [10, 20], ['u', 'v', 'w']
    def AX(n, lab):
        return mk_axis(n, len(lab), list(lab))
    forms2 = [
        ('label lists + dims list', lambda: dict(axes=[list(L0), list(L1)], dims=['p', 'q'], shape=(2, 3))),
        ('label lists + dims tuple', lambda: dict(axes=[list(L0), list(L1)], dims=('p', 'q'), shape=(2, 3))),
        ('tuple of label lists + dims', lambda: dict(axes=(list(L0), list(L1)), dims=['p', 'q'], shape=(2, 3))),
        ('label lists, no dims', lambda: dict(axes=[list(L0), list(L1)], shape=(2, 3))),
        ('labels= keyword + dims', lambda: dict(labels=[list(L0), list(L1)], dims=['p', 'q'], shape=(2, 3))),
        ('(name, labels) pairs', lambda: dict(axes=[('p', list(L0)), ('q', list(L1))], shape=(2, 3))),
        ('tuple of (name, labels) pairs', lambda: dict(axes=(('p', list(L0)), ('q', list(L1))), shape=(2, 3))),
        ('Axis objects', lambda: dict(axes=[AX('p', L0), AX('q', L1)], shape=(2, 3))),
        ('tuple of Axis objects', lambda: dict(axes=(AX('p', L0), AX('q', L1)), shape=(2, 3))),
        ('dict + dims', lambda: dict(axes={'q': list(L1), 'p': list(L0)}, dims=['p', 'q'], shape=(2, 3))),
        ('dict + dims in the other order', lambda: dict(axes={'p': list(L0), 'q': list(L1)}, dims=['q', 'p'], shape=(3, 2))),
        ('dims only', lambda: dict(dims=['p', 'q'], shape=(2, 3))),
        ('names as axes', lambda: dict(axes=['p', 'q'], shape=(2, 3))),
        ('nothing but the shape', lambda: dict(shape=(2, 3))),
        ('nothing at all', lambda: dict()),
        ('dims only, no shape', lambda: dict(dims=['p', 'q'])),
        ('empty list of axes', lambda: dict(axes=[], shape=())),
        ('a string as axes (invalid)', lambda: dict(axes='pq', shape=(2, 3))),
        ('mixed Axis / list (invalid)', lambda: dict(axes=[AX('p', L0), list(L1)], shape=(2, 3))),
        ('too many dims for the label lists', lambda: dict(axes=[list(L0), list(L1)], dims=['p', 'q', 'r'], shape=(2, 3))),
        ('too many names for the shape', lambda: dict(dims=['p', 'q', 'r'], shape=(2, 3))),
        ('ndarray labels + dims', lambda: dict(axes=[mk_values('LAB0', [2]), mk_values('LAB1', [3])], dims=['p', 'q'], shape=(2, 3))),
    ]
    forms1 = [
        ('1-d: bare label list + dims str', lambda: dict(axes=list(L1), dims='q', shape=(3,))),
        ('1-d: bare label list, no dims', lambda: dict(axes=list(L1), shape=(3,))),
        ('1-d: (name, labels) tuple', lambda: dict(axes=('q', list(L1)), shape=(3,))),
        ('1-d: [(name, labels)]', lambda: dict(axes=[('q', list(L1))], shape=(3,))),
        ('1-d: Axis object', lambda: dict(axes=AX('q', L1), shape=(3,))),
        ('1-d: [Axis]', lambda: dict(axes=[AX('q', L1)], shape=(3,))),
        ('1-d: (Axis,)', lambda: dict(axes=(AX('q', L1),), shape=(3,))),
        ('1-d: [labels] + dims list', lambda: dict(axes=[list(L1)], dims=['q'], shape=(3,))),
        ('1-d: (labels,) + dims tuple', lambda: dict(axes=(list(L1),), dims=('q',), shape=(3,))),
        ('1-d: dims str only', lambda: dict(dims='q', shape=(3,))),
        ('1-d: dims list only', lambda: dict(dims=['q'], shape=(3,))),
        ('1-d: nothing', lambda: dict(shape=(3,))),
        ('1-d: labels= keyword bare list + dims str', lambda: dict(labels=list(L1), dims='q', shape=(3,))),
        ('1-d: ndarray labels + dims str', lambda: dict(axes=mk_values('LAB1', [3]), dims='q', shape=(3,))),
        ('1-d: (name, ndarray labels)', lambda: dict(axes=('q', mk_values('LAB1', [3])), shape=(3,))),
        ('1-d: single-label list', lambda: dict(axes=[10], dims='q', shape=(1,))),
        ('1-d: (name, single-label list)', lambda: dict(axes=('q', [10]), shape=(1,))),
        ('1-d: dict + dims', lambda: dict(axes={'q': list(L1)}, dims=['q'], shape=(3,))),
        ('1-d: empty label list + dims str', lambda: dict(axes=[], dims='q', shape=(0,))),
    ]
    for label, mk in forms2 + forms1:
        out.append((label, lambda mk=mk: ([], mk(), OPTS(P))))
    return out


def sc_array1d_equiv(P):
    out = []
    vals = [('scalar int', 3), ('str', 'abc'), ('None', None), ('list of ints', [1, 2, 3]), ('list of str', ['a', 'b']), ('empty list', []), ('single-label list', [7]),
            ('tuple of ints', (1, 2)), ('nested list', [[1, 2], [3, 4]]), ('list holding one label list', [[1, 2, 3]]), ('dict', {'a': 1}), ('list of tuples', [(1, 2), (3, 4)])]
    for label, v in vals:
        out.append((label, lambda v=v: ([__import__('copy').deepcopy(v)], {}, OPTS(P))))
    out.append(('Axis object', lambda: ([mk_axis('q', 3, [1, 2, 3])], {}, OPTS(P))))
    out.append(('1-d ndarray', lambda: ([mk_values('X', [3])], {}, OPTS(P))))
    out.append(('2-d ndarray', lambda: ([mk_values('X', [2, 3])], {}, OPTS(P))))
    out.append(('0-d ndarray', lambda: ([mk_values('X', [])], {}, OPTS(P))))
    out.append(('empty ndarray', lambda: ([mk_values('X', [0])], {}, OPTS(P))))
    return out


def label_oracle(sym):
    """truth of symbolic label comparisons: two label tokens are equal iff they are the same token (np.all(A == B), np.any(A != B), A == B)"""
    t = sym.t
    if t[0] == 'call' and isinstance(t[1], str) and t[1] in ('np.all', 'np.any') and len(t[2]) == 1 and isinstance(t[2][0], Sym):
        inner = label_oracle(t[2][0])
        return inner
    if t[0] == 'call' and isinstance(t[1], Sym) and render(t[1]) in ('np.all', 'np.any') and len(t[2]) == 1 and isinstance(t[2][0], Sym):
        return label_oracle(t[2][0])
    if t[0] == 'call' and (t[1] if isinstance(t[1], str) else render(t[1])) in ('np.array_equal', 'np.array_equiv') and len(t[2]) == 2:
        return render(t[2][0]) == render(t[2][1])
    if t[0] == 'op' and t[1] in ('==', '!=') and len(t) == 4:
        a, b = render(t[2]), render(t[3])
        same = a == b
        return same if t[1] == '==' else not same
    if t[0] == 'op' and t[1] == 'not' and isinstance(t[2], Sym):
        r = label_oracle(t[2])
        return None if r is None else not r
    return None


def align_stub(P):
    """align(arrays, **kw) as a black box: new arrays whose data are marked as aligned with the options given and whose axes - along the dimension named by axis=,
    or along all of them - are the common axis: the inputs' own labels where they agree, a new token where they differ"""
    def f(itp, a, k):
        arrays = itp.iterate(a[0])
        out = []
        opts = ', '.join('%s=%s' % (kk, render(vv)) for kk, vv in sorted(k.items()))
        for x in arrays:
            if not (isinstance(x, Obj) and 'DimArray' in x.types):
                raise Raised('TypeError')
        only = k.get('axis')
        toks = {}
        for x in arrays:
            for ax in itp.iterate(x.attrs['axes']):
                toks.setdefault(ax.attrs['name'], set()).add(render(ax.attrs['values']))
        for x in arrays:
            axes = []
            for ax in itp.iterate(x.attrs['axes']):
                d = ax.attrs['name']
                if (only is None or only == d) and len(toks[d]) > 1:
                    axes.append(mk_axis(d, 9, tok('COMMON_%s' % d), ax.attrs.get('attrs')))
                else:
                    axes.append(ax)
            # (aligning along different dimensions commutes: the calls are recorded as a sorted set, not as a nesting)
            done = sorted(set(x.attrs.get('_aligned', [])) | {opts})
            base = x.attrs.get('_unaligned_values', x.attrs['values'])
            y = mk_array(P, x.name, None, None, axes=axes, values=Sym('call', 'ALIGNED', (base,) + tuple(Sym('tok', '[%s]' % o) for o in done), {}),
                         attrs=x.attrs['attrs'], overrides=x.hooks.get('overrides'))
            y.attrs['_aligned'] = done
            y.attrs['_unaligned_values'] = base
            out.append(y)
        return out
    return f


def arr_of(P, name, spec, labels=None):
    """spec: [(dim, size)] ; labels: {dim: token name} (default L_<dim>, so that equal dims of two arrays carry equal labels)"""
    labels = labels or {}
    axes = [mk_axis(d, n, tok(labels.get(d, 'L_' + d))) for d, n in spec]
    return mk_array(P, name, None, None, axes=axes, values=mk_values('V_' + name, [n for _, n in spec]), overrides=std_overrides(P))


def sc_stack(P):
    out = []
    O = lambda **m: dict(OPTS(P, **m), oracle=label_oracle)
    xy = [('x', 2), ('y', 3)]
    yx = [('y', 3), ('x', 2)]
    two = lambda: [arr_of(P, 'A', xy), arr_of(P, 'B', xy)]
    out.append(('two equal-axes arrays, axis and keys', lambda: ([two()], {'axis': 'k', 'keys': ['p', 'q']}, O())))
    out.append(('two equal-axes arrays, axis only', lambda: ([two()], {'axis': 'k'}, O())))
    out.append(('two equal-axes arrays, positional axis and keys', lambda: ([two(), 'k', ['p', 'q']], {}, O())))
    out.append(('tuple of arrays', lambda: ([tuple(two())], {'axis': 'k', 'keys': ['p', 'q']}, O())))
    out.append(('dict of arrays', lambda: ([dict(zip(['p', 'q'], two()))], {'axis': 'k'}, O())))
    out.append(('dict of arrays with explicit keys in another order', lambda: ([dict(zip(['p', 'q'], two()))], {'axis': 'k', 'keys': ['q', 'p']}, O())))
    out.append(('one array', lambda: ([[arr_of(P, 'A', xy)]], {'axis': 'k', 'keys': ['p']}, O())))
    out.append(('three arrays', lambda: ([two() + [arr_of(P, 'C', xy)]], {'axis': 'k', 'keys': ['p', 'q', 'r']}, O())))
    out.append(('second array with permuted dimensions', lambda: ([[arr_of(P, 'A', xy), arr_of(P, 'B', yx)]], {'axis': 'k', 'keys': ['p', 'q']}, O())))
    out.append(('first array with permuted dimensions', lambda: ([[arr_of(P, 'A', yx), arr_of(P, 'B', xy)]], {'axis': 'k', 'keys': ['p', 'q']}, O())))
    xyz, yzx, zxy = [('x', 2), ('y', 3), ('z', 4)], [('y', 3), ('z', 4), ('x', 2)], [('z', 4), ('x', 2), ('y', 3)]
    out.append(('3-d, second array with rotated dimensions', lambda: ([[arr_of(P, 'A', xyz), arr_of(P, 'B', yzx)]], {'axis': 'k', 'keys': ['p', 'q']}, O())))
    out.append(('3-d, second and third array with rotated dimensions', lambda: ([[arr_of(P, 'A', xyz), arr_of(P, 'B', yzx), arr_of(P, 'C', zxy)]], {'axis': 'k', 'keys': ['p', 'q', 'r']}, O())))
    out.append(('3-d, first array with rotated dimensions', lambda: ([[arr_of(P, 'A', zxy), arr_of(P, 'B', xyz)]], {'axis': 'k', 'keys': ['p', 'q']}, O())))
    out.append(('different labels along y, no align', lambda: ([[arr_of(P, 'A', xy), arr_of(P, 'B', xy, {'y': 'L_y2'})]], {'axis': 'k', 'keys': ['p', 'q']}, O())))
    out.append(('different single labels along a size-1 axis, no align', lambda: ([[arr_of(P, 'A', [('x', 1)]), arr_of(P, 'B', [('x', 1)], {'x': 'L_x2'})]], {'axis': 'k', 'keys': ['p', 'q']}, O())))
    out.append(('different dimension sets', lambda: ([[arr_of(P, 'A', xy), arr_of(P, 'B', [('x', 2)])]], {'axis': 'k', 'keys': ['p', 'q']}, O())))
    out.append(('axis name already a dimension', lambda: ([two()], {'axis': 'x', 'keys': ['p', 'q']}, O())))
    out.append(('integer axis (invalid)', lambda: ([two()], {'axis': 0, 'keys': ['p', 'q']}, O())))
    out.append(('too many keys', lambda: ([two()], {'axis': 'k', 'keys': ['p', 'q', 'r']}, O())))
    out.append(('a non-DimArray element', lambda: ([[arr_of(P, 'A', xy), 3]], {'axis': 'k', 'keys': ['p', 'q']}, O())))
    out.append(('align=True', lambda: ([two()], {'axis': 'k', 'keys': ['p', 'q'], 'align': True}, O(align_=align_stub(P)))))
    out.append(('second array with permuted dimensions, align=True', lambda: ([[arr_of(P, 'A', xy), arr_of(P, 'B', yx)]], {'axis': 'k', 'keys': ['p', 'q'], 'align': True}, O(align_=align_stub(P)))))
    out.append(('no axis name', lambda: ([two()], {}, O())))
    return out


def sc_concatenate(P):
    out = []
    O = lambda **m: dict(OPTS(P, **m), oracle=label_oracle)
    xy = [('x', 2), ('y', 3)]
    yx = [('y', 3), ('x', 2)]
    xyz = [('x', 2), ('y', 3), ('z', 4)]
    xzy = [('x', 2), ('z', 4), ('y', 3)]
    A = lambda spec, lab=None: arr_of(P, 'A', spec, lab)
    B = lambda spec, lab=None: arr_of(P, 'B', spec, dict({'x': 'L_xB'}, **(lab or {})))
    for ax in (0, 1, -1, -2, 'x', 'y'):
        labB = {'x': 'L_xB'} if ax in (0, -2, 'x') else {'x': 'L_x', 'y': 'L_yB'}
        out.append(('two 2-d arrays along %r' % (ax,), lambda ax=ax, labB=labB: ([[A(xy), arr_of(P, 'B', xy, labB)]], {'axis': ax}, O())))
    for ax in (-1, -2, -3, 2):
        labB = {-1: {'z': 'L_zB'}, 2: {'z': 'L_zB'}, -2: {'y': 'L_yB'}, -3: {'x': 'L_xB'}}[ax]
        out.append(('two 3-d arrays along %r' % (ax,), lambda ax=ax, labB=labB: ([[A(xyz), arr_of(P, 'B', xyz, dict({'x': 'L_x'}, **labB))]], {'axis': ax}, O())))
    out.append(('two 2-d arrays, axis omitted', lambda: ([[A(xy), B(xy)]], {}, O())))
    out.append(('tuple of arrays', lambda: ([(A(xy), B(xy))], {'axis': 'x'}, O())))
    out.append(('one array', lambda: ([[A(xy)]], {'axis': 'x'}, O())))
    out.append(('three arrays', lambda: ([[A(xy), B(xy), arr_of(P, 'C', xy, {'x': 'L_xC'})]], {'axis': 'x'}, O())))
    out.append(('second array with permuted dimensions', lambda: ([[A(xy), B(yx)]], {'axis': 'x'}, O())))
    out.append(('first array with permuted dimensions, axis by name', lambda: ([[A(yx), B(xy)]], {'axis': 'x'}, O())))
    out.append(('3-d, second array with permuted secondary dimensions', lambda: ([[A(xyz), B(xzy)]], {'axis': 'x'}, O())))
    yzx, zxy = [('y', 3), ('z', 4), ('x', 2)], [('z', 4), ('x', 2), ('y', 3)]
    out.append(('3-d, second array with rotated dimensions', lambda: ([[A(xyz), B(yzx)]], {'axis': 'x'}, O())))
    out.append(('3-d, second array with rotated dimensions, along y', lambda: ([[A(xyz), arr_of(P, 'B', zxy, {'y': 'L_yB'})]], {'axis': 'y'}, O())))
    out.append(('3-d, first array with rotated dimensions, axis by name', lambda: ([[A(zxy), B(xyz)]], {'axis': 'x'}, O())))
    out.append(('secondary labels differ, no align', lambda: ([[A(xy), B(xy, {'y': 'L_y2'})]], {'axis': 'x'}, O())))
    out.append(('secondary labels differ, _no_check', lambda: ([[A(xy), B(xy, {'y': 'L_y2'})]], {'axis': 'x', '_no_check': True}, O())))
    out.append(('secondary labels differ, align=True', lambda: ([[A(xy), B(xy, {'y': 'L_y2'})]], {'axis': 'x', 'align': True},
                                                                 O(align_=align_stub(P)))))
    out.append(('3-d align=True', lambda: ([[A(xyz), B(xyz)]], {'axis': 'y', 'align': True}, O(align_=align_stub(P)))))
    out.append(('3-d, second array with permuted secondary dimensions, align=True', lambda: ([[A(xyz), B(xzy)]], {'axis': 'x', 'align': True}, O(align_=align_stub(P)))))
    out.append(('second array with permuted dimensions, align=True', lambda: ([[A(xy), B(yx)]], {'axis': 'x', 'align': True}, O(align_=align_stub(P)))))
    out.append(('a Dataset element', lambda: ([[A(xy), Obj('DS', types=('Dataset',))]], {'axis': 'x'}, O())))
    out.append(('a scalar element', lambda: ([[A(xy), 3]], {'axis': 'x'}, O())))
    out.append(('not a list', lambda: ([A(xy)], {'axis': 'x'}, O())))
    out.append(('unknown axis name', lambda: ([[A(xy), B(xy)]], {'axis': 'zz'}, O())))
    return out


def dimarray_cls(P, ov):
    """the DimArray class as from_nested / helpers see it: calling it builds an abstract array out of the data token (scalar -> 0-d)"""
    def ctor(itp, a, k):
        data = a[0] if a else k.get('values')
        rest = dict((kk, vv) for kk, vv in k.items() if kk != 'values' and vv is not None)
        if isinstance(data, Obj) and 'ndarray' in data.types:
            n = data.attrs['ndim']
            dims = rest.get('dims') or ['x%d' % i for i in range(n)]
            labs = rest.get('labels') or [None] * n
            axes = [mk_axis(d, sz, lab if lab is not None else Sym('call', 'np.arange', (sz,), {})) for d, sz, lab in zip(dims, data.attrs['shape'], labs)]
            if len(axes) != n:
                raise Raised('Exception')
            return mk_array(P, 'DimArray', None, None, axes=axes, values=data, attrs={}, overrides=ov)
        if isinstance(data, (int, float, str, bool)) or data is None:
            return mk_array(P, 'DimArray', None, None, axes=[], values=Sym('call', 'asarray', (data,), {}), attrs={}, overrides=ov)
        return Sym('call', 'DimArray', tuple(a), rest)
    t = TypeV('DimArray', ctor=ctor)
    t.getattr = class_attrs(P, DA, lambda: ov)
    return t


def sc_from_nested(P):
    out = []

    def opts():
        ov = std_overrides(P)
        ov['DimArray'] = dimarray_cls(P, ov)
        ov['stack'] = lambda itp, a, k: Sym('call', 'stack', (a[0],), dict((kk, vv) for kk, vv in k.items()))
        return ov

    def case(label, data, **kw):
        def mk():
            ov = opts()
            import copy
            return ([ov['DimArray'], copy.deepcopy(data) if not isinstance(data, Obj) else data], dict(kw), {'overrides': ov})
        out.append((label, mk))
    d1 = {'a': 1, 'b': 2}
    d2 = {'a': {1: 11, 2: 22, 3: 33}, 'b': {1: 111, 2: 222, 3: 333}}
    l2 = [[1, 2, 3], [4, 5, 6]]
    ld = [{1: 11, 2: 22}, {1: 33, 2: 44}]
    case('scalar', 5)
    case('dict of scalars', d1)
    case('dict of scalars, dims', d1, dims=['u'])
    case('dict of scalars, dims and labels', d1, dims=['u'], labels=[['p', 'q']])
    case('dict of dicts', d2)
    # keys that were not inserted in sorted order: the labels follow the dict's own order, like the rows do
    case('dict of scalars, keys not in sorted order', {'b': 2, 'a': 1, 'c': 3})
    case('dict of dicts, keys not in sorted order', {'b': {2: 22, 1: 11}, 'a': {2: 222, 1: 111}})
    case('dict of dicts, keys not in sorted order, dims', {'b': {2: 22, 1: 11}, 'a': {2: 222, 1: 111}}, dims=['u', 'v'])
    case('dict of dicts, dims', d2, dims=['u', 'v'])
    case('dict of dicts, dims and labels', d2, dims=['u', 'v'], labels=[['p', 'q'], [7, 8, 9]])
    case('dict of dicts, only the outer labels', d2, dims=['u', 'v'], labels=[['p', 'q']])
    case('dict of dicts, align=False', d2, dims=['u', 'v'], align=False)
    case('list of lists', l2)
    case('list of lists, dims', l2, dims=['u', 'v'])
    case('list of lists, dims and labels', l2, dims=['u', 'v'], labels=[['p', 'q'], [7, 8, 9]])
    case('list of dicts, dims and outer labels', ld, dims=['u', 'v'], labels=[['p', 'q']])
    case('dict of 1-d ndarrays, dims', {'a': mk_values('N1', [3]), 'b': mk_values('N2', [3])}, dims=['u', 'v'])
    case('dict of 1-d ndarrays, dims and labels', {'a': mk_values('N1', [3]), 'b': mk_values('N2', [3])}, dims=['u', 'v'], labels=[['p', 'q'], [7, 8, 9]])
    case('a 2-d ndarray', mk_values('N', [2, 3]), dims=['u', 'v'])
    case('three levels', {'a': {'k': [1, 2], 'l': [3, 4]}, 'b': {'k': [5, 6], 'l': [7, 8]}}, dims=['u', 'v', 'w'])
    case('three levels, labels for two levels', {'a': {'k': [1, 2], 'l': [3, 4]}, 'b': {'k': [5, 6], 'l': [7, 8]}}, dims=['u', 'v', 'w'], labels=[['p', 'q'], ['r', 's']])
    return out


def sc_flatten_labels(P):
    out = []
    cases = [('one member', [[1, 2, 3]]), ('two int members', [[1, 2], [10, 20, 30]]), ('int and str members', [[1, 2], ['a', 'b', 'c']]),
             ('str and int members', [['a', 'b', 'c'], [1, 2]]), ('three members', [[1, 2], ['a', 'b'], [0.5, 1.5]]), ('an empty member', [[], [1, 2, 3]]),
             ('a second empty member', [[1, 2], []]), ('single labels', [[1], ['a']]), ('no member', [])]
    for label, lists in cases:
        out.append((label, lambda lists=lists: ([conc(l) for l in lists], {}, OPTS(P))))
    return out


def concrete_multiaxis(P, members):
    axes = [mk_axis(n, len(lab), conc(lab)) for n, lab in members]
    m = Obj('MULTI', types=('MultiAxis', 'Axis'), attrs={'axes': mk_axes(axes), '_values': None, '_size': None, '_name': ','.join(n for n, _ in members)})
    m.hooks['getattr'] = class_methods(P, 'dimarray.core.axes.MultiAxis', skip=('axes',))
    m.hooks['overrides'] = std_overrides(P)
    return m


def sc_multiaxis(P, which):
    def gen(P):
        out = []
        cases = [('one member', [('a', [1, 2, 3])]), ('two int members', [('a', [1, 2]), ('b', [10, 20, 30])]), ('int and str members', [('a', [1, 2]), ('b', ['u', 'v', 'w'])]),
                 ('three members', [('a', [1, 2]), ('b', ['u', 'v']), ('c', [0.5, 1.5])]), ('an empty member', [('a', []), ('b', [1, 2, 3])]), ('single labels', [('a', [1]), ('b', ['u'])])]
        for label, members in cases:
            out.append((label, lambda members=members: ([concrete_multiaxis(P, members)], {}, OPTS(P))))
        return out
    return gen


# ---------------------------------------------------------------------------------------------------------------- Dataset
def var_stub(name, dims, sizes=None):
    """a Dataset variable as the Dataset-level plumbing sees it: dims, shared axes, and every DimArray operation as a symbolic call on it"""
    v = Obj(name, types=('DimArray', 'AbstractDimArray', 'AbstractHasAxes'), attrs={'dims': tuple(dims), 'ndim': len(dims), 'attrs': tok('ATTRS_' + name)})
    v.hooks['open'] = True
    v.hooks['render'] = lambda o: '%s%s' % (o.name, list(o.attrs['dims']))
    for m in ('_binary_op', '_rbinary_op', '_unary_op', 'mean', 'sum', 'std', 'var', 'median', 'take_axis', 'sort_axis', 'reindex_axis', 'interp_axis', 'take', 'copy'):
        v.methods[m] = (lambda m_: lambda itp, o, a, k: Sym('call', '%s.%s' % (o.name, m_), tuple(a), dict(k)))(m)
    return v


def mk_dataset(P, variables, name='DS', axes=None):
    """abstract Dataset: an ordered mapping name -> variable plus the shared axes; its methods are the library's, interpreted"""
    dims = []
    for v in variables.values():
        for d in v.attrs['dims']:
            if d not in dims:
                dims.append(d)
    sizes = {'x': 3, 'y': 2, 'z': 4}
    if axes is None:
        axes = [mk_axis(d, sizes.get(d, 2)) for d in dims]
        for v in variables.values():
            v.attrs['axes'] = mk_axes([a for a in axes if a.attrs['name'] in v.attrs['dims']])
    ds = Obj(name, types=('Dataset', 'AbstractDataset', 'dict'), attrs={'_dict': dict(variables), 'axes': mk_axes(axes), 'attrs': tok('ATTRS_' + name)})
    ds.hooks['render'] = lambda o: 'DATASET(%s; axes=%s; attrs=%s)' % (', '.join('%s: %s' % (render(k), render(v)) for k, v in o.attrs['_dict'].items()),
                                                                   render(o.attrs['axes']), render(o.attrs['attrs']))
    ds.hooks['getitem'] = lambda itp, o, k: o.attrs['_dict'][k] if (not isinstance(k, (Obj, Sym)) and k in o.attrs['_dict']) else (_ for _ in ()).throw(Raised('KeyError'))

    def setitem(itp, o, k, v):
        o.attrs['_dict'][k] = v
    ds.hooks['setitem'] = setitem
    ds.hooks['iter'] = lambda itp, o: list(o.attrs['_dict'].keys())
    ds.hooks['length'] = lambda itp, o: len(o.attrs['_dict'])
    ds.hooks['contains'] = lambda itp, o, k: (not isinstance(k, (Obj, Sym))) and k in o.attrs['_dict']
    ds.methods['keys'] = lambda itp, o, a, k: It(list(o.attrs['_dict'].keys()), kind='view', name='dict_keys')
    ds.methods['values'] = lambda itp, o, a, k: It(list(o.attrs['_dict'].values()), kind='view', name='dict_values')
    ds.methods['items'] = lambda itp, o, a, k: It(list(o.attrs['_dict'].items()), kind='view', name='dict_items')
    ds.methods['to_dict'] = lambda itp, o, a, k: dict(o.attrs['_dict'])

    def copy(itp, o, a, k):
        newaxes = [x.methods['copy'](itp, x, [], {}) for x in o.attrs['axes'].attrs['_list']]

        def clone(v):
            # the copy holds its own variables, on its own axes
            if not (isinstance(v, Obj) and 'dims' in v.attrs and v.hooks.get('open')):
                return v
            n = var_stub(v.name if v.name.startswith('copy(') else 'copy(%s)' % v.name, v.attrs['dims'])
            n.attrs['attrs'] = v.attrs.get('attrs')
            n.attrs['axes'] = mk_axes([x for x in newaxes if x.attrs['name'] in v.attrs['dims']])
            return n
        c = mk_dataset(P, dict((kk, clone(vv)) for kk, vv in o.attrs['_dict'].items()), 'copy(%s)' % o.name, axes=newaxes)
        c.attrs['attrs'] = o.attrs['attrs']
        return c
    ds.methods['copy'] = copy
    ds.attrs['dims'] = None
    ds.hooks['getattr'] = lambda itp, o, attr: tuple(a.attrs['name'] for a in o.attrs['axes'].attrs['_list']) if attr == 'dims' else \
        (TypeV('Dataset', ctor=dataset_ctor(P)) if attr == '__class__' else class_methods(P, DS, skip=('keys', 'values', 'items', 'copy', 'to_dict', 'axes', 'attrs', 'dims'))(itp, o, attr))
    del ds.attrs['dims']
    ds.hooks['overrides'] = ds_overrides(P)
    return ds


def dataset_ctor(P):
    def ctor(itp, a, k):
        src = a[0] if a else {}
        if isinstance(src, Obj) and '_dict' in src.attrs:
            src = src.attrs['_dict']
        items = dict(src) if isinstance(src, dict) else dict(itp.iterate(src))
        items.update(k)
        d = Obj('NEWDS', types=('Dataset', 'AbstractDataset', 'dict'), attrs={'_dict': items})
        d.hooks['render'] = lambda o: 'Dataset(%s)' % ', '.join('%s: %s' % (render(kk), render(vv)) for kk, vv in o.attrs['_dict'].items())
        d.hooks['getitem'] = lambda itp_, o, kk: o.attrs['_dict'][kk] if kk in o.attrs['_dict'] else (_ for _ in ()).throw(Raised('KeyError'))
        d.hooks['setitem'] = lambda itp_, o, kk, vv: o.attrs['_dict'].__setitem__(kk, vv)
        d.hooks['iter'] = lambda itp_, o: list(o.attrs['_dict'].keys())
        d.hooks['length'] = lambda itp_, o: len(o.attrs['_dict'])
        d.methods['keys'] = lambda itp_, o, a_, k_: list(o.attrs['_dict'].keys())
        d.attrs['attrs'] = {}
        return d
    return ctor


def ds_overrides(P):
    ov = std_overrides(P)
    ov['Dataset'] = TypeV('Dataset', ctor=dataset_ctor(P))
    ov['get_option'] = lambda itp, a, k: {'op.reindex': True, 'indexing.by': 'label'}.get(a[0], Sym('call', 'get_option', tuple(a), {}))
    ov['isscalar'] = lambda itp, a, k: isinstance(a[0], (int, float, str, bool)) and not isinstance(a[0], (Obj, Sym))
    return ov


def ds_post(itp, r, ds=None):
    return render(r)


def sc_ds_rename_keys(P):
    out = []

    def DSX():
        return mk_dataset(P, {'a': var_stub('A', ('x',)), 'b': var_stub('B', ('x', 'y')), 'c': var_stub('C', ('y',))})

    def case(label, mapper, **kw):
        def mk():
            ds = DSX()
            return ([ds, mapper() if callable(mapper) and getattr(mapper, '_factory', False) else mapper], dict(kw),
                    {'overrides': ds_overrides(P), 'post': lambda itp, r, ds=ds: 'returns %s; operand afterwards %s' % (render(r), render(ds))})
        out.append((label, mk))
    for inplace in (None, True, False):
        kw = {} if inplace is None else {'inplace': inplace}
        tag = 'default' if inplace is None else 'inplace=%s' % inplace
        case('rename one key (%s)' % tag, {'b': 'z'}, **kw)
        case('swap two keys (%s)' % tag, {'a': 'b', 'b': 'a'}, **kw)
        case('onto a kept key (%s)' % tag, {'a': 'c'}, **kw)
        case('two keys onto one name (%s)' % tag, {'a': 'z', 'b': 'z'}, **kw)
        case('unknown key (%s)' % tag, {'q': 'z'}, **kw)
        case('chain a->b, b->c, c->a (%s)' % tag, {'a': 'b', 'b': 'c', 'c': 'a'}, **kw)
    fn = ast_lambda('lambda k: k + "2"')
    case('callable mapper', fn)
    case('callable mapper, inplace=False', fn, inplace=False)
    case('a mapper that is neither a dict nor callable', 3)
    return out


def ast_lambda(src):
    import ast as _ast
    e = _ast.parse(src, mode='eval').body
    fn = _ast.FunctionDef(name='<lambda>', args=e.args, body=[_ast.Return(value=e.body)], decorator_list=[], returns=None, type_comment=None, type_params=[])
    _ast.copy_location(fn, e)
    _ast.fix_missing_locations(fn)
    return Fn(fn, {}, None)


def sc_ds_rename_axes(P):
    out = []

    def case(label, mapper, **kw):
        def mk():
            ds = mk_dataset(P, {'a': var_stub('A', ('x',)), 'b': var_stub('B', ('x', 'y'))})
            return ([ds, mapper], dict(kw), {'overrides': ds_overrides(P), 'post': lambda itp, r, ds=ds: 'returns %s; operand afterwards %s' % (render(r), render(ds))})
        out.append((label, mk))
    for kw in ({}, {'inplace': False}):
        tag = 'inplace=False' if kw else 'default'
        case('rename one axis (%s)' % tag, {'x': 'u'}, **kw)
        case('swap two axes (%s)' % tag, {'x': 'y', 'y': 'x'}, **kw)
        case('unknown axis (%s)' % tag, {'q': 'u'}, **kw)
        case('onto a name another axis has (%s)' % tag, {'x': 'y'}, **kw)
        case('two axes onto one new name (%s)' % tag, {'x': 'u', 'y': 'u'}, **kw)
    case('callable mapper', ast_lambda('lambda d: d + "2"'))
    case('a mapper that is neither a dict nor callable', 3)
    return out


def sc_ds_ops(P, which):
    def gen(P):
        out = []
        func = tok('FUNC')

        def D1():
            return mk_dataset(P, {'a': var_stub('A', ('x',)), 'b': var_stub('B', ('x', 'y')), 'c': var_stub('C', ())})

        def D2(keys=('a', 'b', 'c')):
            dims = {'a': ('x',), 'b': ('x', 'y'), 'c': (), 'd': ('y',)}
            d = mk_dataset(P, dict((k, var_stub(k.upper() + '2', dims[k])) for k in keys), 'DS2')
            # a re-indexed copy is another dataset: its variables show it (the library calls other.reindex_like(self) and discards the result - each variable aligns itself)
            d.methods['reindex_like'] = lambda itp, o, a, k: mk_dataset(P, dict((kk, var_stub('reindex_like(%s, %s)' % (kk.upper() + '2', render(a[0])[:12]), dims[kk])) for kk in keys), 'DS2r')
            return d
        if which == '_binary_op':
            out.append(('dataset and scalar', lambda: ([D1(), func, 2], {}, {'overrides': ds_overrides(P)})))
            out.append(('dataset and dataset, same keys', lambda: ([D1(), func, D2()], {}, {'overrides': ds_overrides(P), 'oracle': lambda s_: True})))
            out.append(('dataset and dataset, partly other keys', lambda: ([D1(), func, D2(('b', 'd'))], {}, {'overrides': ds_overrides(P), 'oracle': lambda s_: True})))
            def D2_other_labels():
                d = D2()
                d.attrs['axes'].attrs['_list'][0].attrs['values'] = tok('L_x2')       # (the Axis object is shared with the variables)
                return d
            out.append(('dataset and dataset, other labels along x', lambda: ([D1(), func, D2_other_labels()], {}, {'overrides': ds_overrides(P), 'oracle': lambda s_: True})))
            out.append(('dataset and a list (invalid)', lambda: ([D1(), func, [1, 2]], {}, {'overrides': ds_overrides(P)})))
        elif which == '_rbinary_op':
            out.append(('scalar and dataset', lambda: ([D1(), func, 2], {}, {'overrides': ds_overrides(P)})))
        else:
            out.append(('unary', lambda: ([D1(), func], {}, {'overrides': ds_overrides(P)})))
        return out
    return gen


def sc_ds_apply(P):
    out = []

    def D():
        return mk_dataset(P, {'a': var_stub('A', ('x',)), 'b': var_stub('B', ('x', 'y')), 'c': var_stub('C', ('y',)), 's': var_stub('S', ())})
    for ax in ('x', 'y', 0, 1, -1, None):
        out.append(('mean over axis=%r' % (ax,), lambda ax=ax: ([D(), 'mean'], {'axis': ax}, {'overrides': ds_overrides(P)})))
    out.append(('mean without axis', lambda: ([D(), 'mean'], {}, {'overrides': ds_overrides(P)})))
    out.append(('sum with an option', lambda: ([D(), 'sum'], {'axis': 'x', 'skipna': True}, {'overrides': ds_overrides(P)})))
    for name in ('mean', 'std', 'var', 'median', 'sum'):
        out.append(('Dataset.%s(axis="y")' % name, lambda name=name: ('METHOD', name, [D()], {'axis': 'y'}, {'overrides': ds_overrides(P)})))
        out.append(('Dataset.%s()' % name, lambda name=name: ('METHOD', name, [D()], {}, {'overrides': ds_overrides(P)})))
    return out


def sc_stack_ds(P, which):
    def gen(P):
        out = []

        def two(keys2=('a', 'b', 'c')):
            d1 = mk_dataset(P, {'a': var_stub('A1', ('x',)), 'b': var_stub('B1', ('x', 'y')), 'c': var_stub('C1', ('y',))}, 'DS1')
            spec = {'a': ('x',), 'b': ('x', 'y'), 'c': ('y',), 'd': ('y',)}
            d2 = mk_dataset(P, dict((k, var_stub(k.upper() + '2', spec[k])) for k in keys2), 'DS2')
            return [d1, d2]

        def ov():
            o = ds_overrides(P)
            o['stack'] = lambda itp, a, k: Sym('call', 'stack', (a[0],), dict(k))
            o['concatenate'] = lambda itp, a, k: Sym('call', 'concatenate', (a[0],), dict(k))
            alg = lambda itp, a, k: [mk_dataset(P, dict((kk, var_stub('aligned(%s)' % vv.name, vv.attrs['dims'])) for kk, vv in d.attrs['_dict'].items()), 'aligned(%s; %s)' % (
                d.name, ', '.join('%s=%s' % (x, render(y)) for x, y in sorted(k.items())))) for d in itp.iterate(a[0])]
            dap = Obj('da', attrs={})
            dap.hooks['open'] = True
            dap.methods['align'] = lambda itp, o_, a, k: alg(itp, a, k)
            o['da'] = dap
            o['align'] = alg
            return o
        if which == 'stack_ds':
            out.append(('two datasets, axis and keys', lambda: ([two(), 'k'], {'keys': ['p', 'q']}, {'overrides': ov()})))
            out.append(('two datasets, axis only', lambda: ([two(), 'k'], {}, {'overrides': ov()})))
            out.append(('dict of datasets', lambda: ([dict(zip(['p', 'q'], two())), 'k'], {}, {'overrides': ov()})))
            out.append(('tuple of datasets', lambda: ([tuple(two()), 'k'], {'keys': ['p', 'q']}, {'overrides': ov()})))
            out.append(('align=True', lambda: ([two(), 'k'], {'keys': ['p', 'q'], 'align': True}, {'overrides': ov()})))
            out.append(('variables in another order', lambda: ([two(('c', 'b', 'a')), 'k'], {'keys': ['p', 'q']}, {'overrides': ov()})))
            out.append(('different variables', lambda: ([two(('a', 'b', 'd')), 'k'], {'keys': ['p', 'q']}, {'overrides': ov()})))
            out.append(('axis already a dimension', lambda: ([two(), 'x'], {'keys': ['p', 'q']}, {'overrides': ov()})))
            out.append(('integer axis (invalid)', lambda: ([two(), 0], {'keys': ['p', 'q']}, {'overrides': ov()})))
        else:
            for ax in ('x', 'y', 0, 1, -1):
                out.append(('two datasets along %r' % (ax,), lambda ax=ax: ([two()], {'axis': ax}, {'overrides': ov()})))
            out.append(('two datasets, axis omitted', lambda: ([two()], {}, {'overrides': ov()})))
            out.append(('align=True along x', lambda: ([two()], {'axis': 'x', 'align': True}, {'overrides': ov()})))
            out.append(('align=True along 1', lambda: ([two()], {'axis': 1, 'align': True}, {'overrides': ov()})))
            out.append(('variables in another order', lambda: ([two(('c', 'b', 'a'))], {'axis': 'x'}, {'overrides': ov()})))
            out.append(('different variables', lambda: ([two(('a', 'b', 'd'))], {'axis': 'x'}, {'overrides': ov()})))
            out.append(('unknown axis', lambda: ([two()], {'axis': 'zz'}, {'overrides': ov()})))
        return out
    return gen


def sc_axis_set(P):
    out = []

    def case(label, kw):
        def mk():
            ax = mk_axis('x', 3, [10, 20, 30], attrs={'units': 'm'})
            return ([ax], kw(), {'overrides': std_overrides(P), 'post': lambda itp, r, ax=ax: 'returns %s; axis afterwards %s' % (render(r), render(ax))})
        out.append((label, mk))
    case('new labels', lambda: {'values': [1, 2, 3]})
    case('new labels, positional', lambda: {'values': [1, 2, 3]})
    case('new name', lambda: {'name': 'u'})
    case('labels and name', lambda: {'values': [1, 2, 3], 'name': 'u'})
    case('dict mapper', lambda: {'values': {10: 11, 30: 33}})
    case('callable mapper', lambda: {'values': ast_lambda('lambda v: v + 1')})
    case('attrs keyword', lambda: {'attrs': {'long_name': 'L'}})
    case('metadata keyword', lambda: {'units': 'km'})
    case('nothing', lambda: {})
    case('inplace=False, new labels', lambda: {'values': [1, 2, 3], 'inplace': False})
    case('inplace=False, new name', lambda: {'name': 'u', 'inplace': False})
    case('wrong number of labels', lambda: {'values': [1, 2]})
    case('non-string name', lambda: {'name': 3})
    return out


def sc_set_axis(P, which):
    def gen(P):
        out = []

        def target():
            if which == 'dataset':
                return mk_dataset(P, {'a': var_stub('A', ('x',)), 'b': var_stub('B', ('x', 'y'))})
            return arr_of(P, 'A', [('x', 3), ('y', 2)])

        def case(label, args, kw):
            def mk():
                t = target()
                return ([t] + list(args), dict(kw), {'overrides': ds_overrides(P), 'post': lambda itp, r, t=t: 'returns %s; operand afterwards %s' % (render(r), render(t))})
            out.append((label, mk))
        case('new labels along x by name', [[7, 8, 9]], {'axis': 'x'})
        case('new labels along the default axis', [[7, 8, 9]], {})
        case('new labels along position 1', [[5, 6]], {'axis': 1})
        case('rename x', [], {'name': 'u', 'axis': 'x'})
        case('rename x to its own name', [], {'name': 'x', 'axis': 'x'})
        case('rename x to the name of another axis', [], {'name': 'y', 'axis': 'x'})
        case('rename position 0 to the name of another axis', [], {'name': 'y', 'axis': 0})
        case('labels and name', [[7, 8, 9]], {'name': 'u', 'axis': 'x'})
        case('inplace=False, new labels', [[7, 8, 9]], {'axis': 'x', 'inplace': False})
        case('inplace=False, rename', [], {'name': 'u', 'axis': 'x', 'inplace': False})
        case('unknown axis', [[7, 8, 9]], {'axis': 'zz'})
        return out
    return gen


def sc_operation(P):
    out = []

    def ctor(itp, a, k):
        ax = a[1] if len(a) > 1 else k.get('axes')
        return Sym('call', 'CONSTRUCT', (a[0], itp.iterate(ax) if isinstance(ax, Obj) else ax), {})

    def ov():
        o = std_overrides(P)
        o['align_axes'] = lambda itp, a, k: tuple(Obj('aligned(%s)' % x.name, x.types, x.attrs, x.methods, **x.hooks) for x in itp.iterate(a[0]))
        def align_dims(itp, a, k):
            # what align_dims guarantees: both operands come back with all the dimensions (the first one's, then the new ones), a dimension an operand lacks
            # being a placeholder axis of size 1 with the label None
            dims = []
            for x in a:
                for d in x.attrs['dims']:
                    if d not in dims:
                        dims.append(d)
            res = []
            for x in a:
                own = dict((ax.attrs['name'], ax) for ax in itp.iterate(x.attrs['axes']))
                axes = [own[d] if d in own else mk_axis(d, 1, [None]) for d in dims]
                res.append(mk_array(P, 'samedims(%s)' % x.name, None, None, axes=axes, values=Sym('call', 'SAMEDIMS', (x.attrs['values'], list(dims)), {}),
                                    attrs=x.attrs['attrs'], overrides=std_overrides(P)))
            return tuple(res)
        o['align_dims'] = align_dims
        o['is_DimArray'] = lambda itp, a, k: isinstance(a[0], Obj) and 'DimArray' in a[0].types
        return o
    FUNC = lambda itp, a, k: Sym('call', 'FUNC', tuple(a), {})

    def arr(name, spec):
        axes = []
        for d, lab in spec:
            axes.append(mk_axis(d, len(lab), list(lab)) if isinstance(lab, list) else mk_axis(d, lab))
        return mk_array(P, name, None, None, axes=axes, values=mk_values('V_' + name, [a.attrs['size'] for a in axes]), overrides=std_overrides(P))

    def case(label, mk_args, **kw):
        out.append((label, lambda: ([FUNC] + mk_args(), dict({'constructor': ctor}, **kw), {'overrides': ov()})))
    case('array and scalar', lambda: [arr('A', [('x', 3)]), 2])
    case('array and a 1-d ndarray', lambda: [arr('A', [('x', 3), ('y', 2)]), mk_values('N', [2])])
    case('array and an ndarray of more dimensions', lambda: [arr('A', [('x', 3)]), mk_values('N', [3, 2])])
    case('scalar and array', lambda: [2, arr('B', [('x', 3)])])
    case('two arrays, same axes', lambda: [arr('A', [('x', 3), ('y', 2)]), arr('B', [('x', 3), ('y', 2)])])
    case('left operand with a placeholder dimension', lambda: [arr('A', [('x', 3), ('y', [None])]), arr('B', [('x', 3), ('y', 2)])])
    case('left operand with a placeholder dimension, right single label', lambda: [arr('A', [('x', 3), ('y', [None])]), arr('B', [('x', 3), ('y', ['k'])])])
    case('left operand with a real single label', lambda: [arr('A', [('x', 3), ('y', ['k'])]), arr('B', [('x', 3), ('y', ['k'])])])
    case('an empty dimension', lambda: [arr('A', [('x', [])]), arr('B', [('x', [])])])
    case('0-d and 1-d', lambda: [arr('A', []), arr('B', [('x', 3)])])
    case('1-d and 0-d', lambda: [arr('A', [('x', 3)]), arr('B', [])])
    case('disjoint dimensions', lambda: [arr('A', [('x', 3)]), arr('B', [('y', 2)])])
    case('2-d and 1-d on the second dimension', lambda: [arr('A', [('x', 3), ('y', 2)]), arr('B', [('y', 2)])])
    case('1-d and 2-d', lambda: [arr('A', [('y', 2)]), arr('B', [('x', 3), ('y', 2)])])
    case('no reindex, no broadcast', lambda: [arr('A', [('x', 3)]), arr('B', [('x', 3)])], reindex=False, broadcast=False)
    case('default constructor', lambda: [arr('A', [('x', 3)]), 2], constructor=None)
    return out


def reindexable(P, name, spec, labels=None, kind='DimArray'):
    """an array (or Dataset-like holder of axes) whose reindex_axis(ax) gives a new object carrying `ax` in place of its own axis of that name"""
    arr = arr_of(P, name, spec, labels)
    if kind == 'Dataset':
        arr.types = ('Dataset', 'AbstractHasAxes')
        arr.hooks['render'] = lambda o: 'DATASET-LIKE(values=%s, axes=%s)' % (render(o.attrs['values']), render(o.attrs['axes']))

    def reindex_axis(itp, o, a, k):
        ax = a[0] if a else k.get('values')
        if not (isinstance(ax, Obj) and 'Axis' in ax.types) or len(a) > 1 or any(kk != 'values' for kk in k):
            raise Undecided('reindex_axis called with %s' % render(list(a) + sorted(k.items()))[:80])
        old = itp.iterate(o.attrs['axes'])
        names = [x.attrs['name'] for x in old]
        if ax.attrs['name'] not in names:
            raise Raised('ValueError')
        new = reindexable(P, o.name, [(x.attrs['name'], x.attrs['size']) for x in old], None, kind)
        new.attrs['axes'] = mk_axes([ax if x.attrs['name'] == ax.attrs['name'] else x for x in old])
        # (re-indexing along different dimensions commutes: the order of the calls is not part of the outcome)
        done = dict(o.attrs.get('_reindexed', {}))
        done[ax.attrs['name']] = ax.attrs['values']
        new.attrs['_reindexed'] = done
        new.attrs['_base'] = o.attrs.get('_base', o.attrs['values'])
        new.attrs['values'] = Sym('call', 'REINDEXED', (new.attrs['_base'],) + tuple(Sym('tok', '%s->%s' % (d, render(v))) for d, v in sorted(done.items())), {})
        new.attrs['attrs'] = o.attrs['attrs']
        return new
    arr.methods['reindex_axis'] = reindex_axis
    return arr


def common_axis_stub(P):
    """_common_axis(axes, join) as a black box: the inputs' own Axis object when all of them carry the same labels, else a new axis whose label token records the join"""
    def f(itp, a, k):
        holders = itp.iterate(a[0])
        join = a[1] if len(a) > 1 else (list(k.values())[0] if len(k) == 1 else k.get('join', 'outer'))
        if not holders:
            raise Raised('IndexError')
        for h in holders:
            if not (isinstance(h, Obj) and 'Axis' in h.types):
                raise Raised('AttributeError')
        toks = set(render(h.attrs['values']) for h in holders)
        if len(toks) == 1:
            return holders[0]
        d = holders[0].attrs['name']
        return mk_axis(d, 9, tok('COMMON_%s[join=%s]' % (d, render(join))))
    return f


def aligned_axes_stub(P):
    """_get_aligned_axes as a black box: one axis per dimension (in order of first appearance, or the one named by `axis`): the common axis of the arrays that
    have the dimension (common_axis_stub), a sorted copy of it with sort=True"""
    def f(itp, a, k):
        arrays = itp.iterate(a[0])
        names = ('join', 'axis', 'sort', 'strict')
        opts = {'join': 'outer', 'axis': None, 'sort': False, 'strict': False}
        for n, v in zip(names, a[1:]):
            opts[n] = v
        # (keyword names as the helper has them today: a private helper's parameters may have been renamed, their positions say which option each is)
        fi_ = P.functions.get('dimarray.core.align._get_aligned_axes')
        cur = dict(zip(list(fi_.params)[1:5], names)) if fi_ is not None else {}
        for kk, vv in k.items():
            kk = cur.get(kk, kk)
            if kk not in opts:
                raise Raised('TypeError')
            opts[kk] = vv
        for x in arrays:
            if not (isinstance(x, Obj) and 'AbstractHasAxes' in x.types):
                raise Raised('AttributeError')
        dims = []
        if opts['axis'] is None:
            for x in arrays:
                for d in x.attrs['dims']:
                    if d not in dims:
                        dims.append(d)
        elif isinstance(opts['axis'], str):
            dims = [opts['axis']]
        else:
            raise Raised('ValueError')
        out = []
        for d in dims:
            holders = [ax for x in arrays for ax in itp.iterate(x.attrs['axes']) if ax.attrs['name'] == d]
            if opts['strict'] and len(holders) != len(arrays):
                raise Raised('ValueError')
            ax = common_axis_stub(P)(itp, [holders, opts['join']], {})
            if opts['sort']:
                ax = ax.methods['copy'](itp, ax, [], {})
                ax.methods['sort'](itp, ax, [], {})
            out.append(ax)
        return mk_axes(out)
    return f


def sc_align(P):
    out = []

    def O():
        ov = std_overrides(P)
        ov['DimArray'] = dimarray_cls(P, ov)
        ov['Dataset'] = TypeV('Dataset')
        ov['_get_aligned_axes'] = aligned_axes_stub(P)
        ov['_common_axis'] = common_axis_stub(P)

        def get_dims(itp, a, k):
            dims = []
            for x in a:
                for d in x.attrs['dims']:
                    if d not in dims:
                        dims.append(d)
            return dims
        ov['get_dims'] = get_dims
        return {'overrides': ov, 'oracle': label_oracle}
    xy = [('x', 2), ('y', 3)]
    R = lambda name, spec, lab=None, kind='DimArray': reindexable(P, name, spec, lab, kind)
    out.append(('two arrays, same labels', lambda: ([[R('A', xy), R('B', xy)]], {}, O())))
    out.append(('two arrays, labels differ along x', lambda: ([[R('A', xy), R('B', xy, {'x': 'L_xB'})]], {}, O())))
    out.append(('two arrays, labels differ along x and y', lambda: ([[R('A', xy), R('B', xy, {'x': 'L_xB', 'y': 'L_yB'})]], {}, O())))
    out.append(('three arrays, labels differ along x and y, third lacks y', lambda: ([[R('A', xy), R('B', xy, {'x': 'L_xB', 'y': 'L_yB'}), R('C', [('x', 2)], {'x': 'L_xC'})]], {}, O())))
    out.append(('three arrays, 3-d, every dimension differs', lambda: ([[R('A', xy + [('z', 4)]), R('B', xy + [('z', 4)], {'x': 'L_xB', 'y': 'L_yB', 'z': 'L_zB'}),
                                                                       R('C', [('z', 4), ('x', 2)], {'x': 'L_xC'})]], {}, O())))
    out.append(('tuple of arrays', lambda: ([(R('A', xy), R('B', xy, {'x': 'L_xB'}))], {}, O())))
    out.append(('second array lacks a dimension', lambda: ([[R('A', xy), R('B', [('y', 3)], {'y': 'L_yB'})]], {}, O())))
    out.append(('disjoint dimensions', lambda: ([[R('A', [('x', 2)]), R('B', [('y', 3)])]], {}, O())))
    out.append(('axis="y" only', lambda: ([[R('A', xy), R('B', xy, {'x': 'L_xB', 'y': 'L_yB'})]], {'axis': 'y'}, O())))
    out.append(('axis given by position (invalid)', lambda: ([[R('A', xy), R('B', xy, {'x': 'L_xB'})]], {'axis': 0}, O())))
    out.append(('join="inner"', lambda: ([[R('A', xy), R('B', xy, {'x': 'L_xB'})]], {'join': 'inner'}, O())))
    out.append(('sort=True', lambda: ([[R('A', xy), R('B', xy, {'x': 'L_xB'})]], {'sort': True}, O())))
    out.append(('strict=True, same dimensions', lambda: ([[R('A', xy), R('B', xy, {'x': 'L_xB'})]], {'strict': True}, O())))
    out.append(('strict=True, second array lacks a dimension', lambda: ([[R('A', xy), R('B', [('y', 3)])]], {'strict': True}, O())))
    out.append(('positional options (inner, "x", True, True)', lambda: ([[R('A', xy), R('B', xy, {'x': 'L_xB', 'y': 'L_yB'})], 'inner', 'x', True, True], {}, O())))
    out.append(('a scalar among the arrays', lambda: ([[R('A', xy), 3, R('B', xy, {'x': 'L_xB'})]], {}, O())))
    out.append(('a string among the arrays', lambda: ([[R('A', xy), 'text']], {}, O())))
    out.append(('a list among the arrays (invalid)', lambda: ([[R('A', xy), [1, 2]]], {}, O())))
    out.append(('a Dataset among the arrays', lambda: ([[R('A', xy), R('D', xy, {'x': 'L_xD'}, 'Dataset')]], {}, O())))
    out.append(('one array', lambda: ([[R('A', xy)]], {}, O())))
    out.append(('empty list', lambda: ([[]], {}, O())))
    out.append(('not a list', lambda: ([R('A', xy)], {}, O())))
    out.append(('caller\'s list afterwards', lambda: (lambda lst: ([lst], {}, dict(O(), post=lambda itp, r: render([r, 'input list:', lst]))))([R('A', xy), R('B', xy, {'x': 'L_xB'})])))
    return out


def live_dims(obj):
    """make obj.dims follow the names of its (possibly shared) Axis objects instead of being a snapshot"""
    obj.attrs.pop('dims', None)
    inner = obj.hooks.get('getattr')

    def hook(itp, o, attr):
        if attr == 'dims':
            return tuple(a.attrs['name'] for a in itp.iterate(o.attrs['axes']))
        return inner(itp, o, attr) if inner is not None else KeyError
    obj.hooks['getattr'] = hook
    return obj


def sc_set_dims(P, which):
    """a.dims = ... (AbstractHasAxes._set_dims) and ds.dims = ... (Dataset.dims setter): the names of the Axis objects afterwards, as the array / every variable sees them"""
    def gen(P):
        out = []

        def case(label, newdims):
            def mk():
                if which == 'dataset':
                    vs = {'a': var_stub('A', ('x',)), 'b': var_stub('B', ('x', 'y')), 'c': var_stub('C', ('y', 'z'))}
                    obj = mk_dataset(P, vs)
                    for v in vs.values():
                        live_dims(v)
                        v.hooks['render'] = lambda o: '%s%s' % (o.name, [a.attrs['name'] for a in o.attrs['axes'].attrs['_list']])
                else:
                    obj = live_dims(mk_array(P, 'A', ('x', 'y', 'z'), (3, 2, 4), overrides=std_overrides(P)))
                nd = newdims() if callable(newdims) else newdims
                return ([obj, nd], {}, {'overrides': ds_overrides(P) if which == 'dataset' else std_overrides(P), 'post': lambda itp, r, obj=obj: 'afterwards %s' % render(obj)})
            out.append((label, mk))
        case('all names, tuple', ('u', 'v', 'w'))
        case('all names, list', ['u', 'v', 'w'])
        case('swap the first two', ('y', 'x', 'z'))
        case('rotate', ('y', 'z', 'x'))
        case('same names', ('x', 'y', 'z'))
        case('too few names', ('u', 'v'))
        case('too many names', ('u', 'v', 'w', 't'))
        case('duplicate new names', ('u', 'u', 'w'))
        case('not iterable', 3)
        case('a name that is not a string', ('u', 1, 'w'))
        case('an empty name', ('u', '', 'w'))
        if which == 'array':
            case('dict: one dimension', {'x': 'u'})
            case('dict: swap', {'x': 'y', 'y': 'x'})
            case('dict: chain', {'x': 'y', 'y': 'z', 'z': 'x'})
            case('dict: collides with an untouched dimension', {'x': 'y'})
            case('dict: two dimensions onto one new name', {'x': 'u', 'y': 'u'})
            case('dict: unknown dimension', {'q': 'u'})
            case('dict: empty', {})
        return out
    return gen


def sc_dimarray_init(P):
    """DimArray.__init__ on the argument forms of the documentation: what is stored (values, axes, attrs) or that the call is refused"""
    out = []

    def ov():
        o = std_overrides(P)
        o['get_option'] = lambda itp, a, k: Sym('call', 'get_option', tuple(a), {})
        o['warnings'] = Obj('warnings', attrs={}, methods={'warn': lambda itp, ob, a, k: None})
        return o

    def fresh():
        o = ov()
        me = Obj('SELF', types=('DimArray', 'AbstractDimArray', 'AbstractHasAxes'), attrs={'_order': None})
        me.hooks['overrides'] = o
        me.hooks['getattr'] = class_methods(P, DA)
        me.hooks['render'] = lambda ob: 'DimArray(values=%s, axes=%s, attrs=%s, indexing=%s/%s)' % tuple(render(ob.attrs.get(k, '<unset>')) for k in ('_values', '_axes', '_attrs', '_indexing', '_indexing_broadcast'))
        return me, o

    def case(label, args, kwargs=None):
        def mk():
            me, o = fresh()
            a = args() if callable(args) else args
            k = kwargs() if callable(kwargs) else (kwargs or {})
            return ([me] + list(a), dict(k), {'overrides': o, 'oracle': label_oracle, 'post': lambda itp, r, me=me: render(me)})
        out.append((label, mk))
    V = lambda *shape: mk_values('V', shape)
    AXS = lambda: [mk_axis('x', 2), mk_axis('y', 3)]
    case('values only, 2-d', lambda: [V(2, 3)])
    case('values only, 0-d', lambda: [V()])
    case('values and Axis objects', lambda: [V(2, 3), AXS()])
    case('values and an Axes object', lambda: [V(2, 3), mk_axes(AXS())])
    case('values and (name, labels) pairs', lambda: [V(2, 3), [('x', [10, 20]), ('y', ['u', 'v', 'w'])]])
    case('values and label lists with dims', lambda: [V(2, 3)], lambda: {'axes': [[10, 20], ['u', 'v', 'w']], 'dims': ['x', 'y']})
    case('values with dims only', lambda: [V(2, 3)], {'dims': ['x', 'y']})
    case('values with labels only', lambda: [V(2, 3)], lambda: {'labels': [[10, 20], ['u', 'v', 'w']]})
    case('values with dims and labels', lambda: [V(2, 3)], lambda: {'dims': ['x', 'y'], 'labels': [[10, 20], ['u', 'v', 'w']]})
    case('axes only', lambda: [], lambda: {'axes': [('x', [10, 20]), ('y', ['u', 'v', 'w'])]})
    case('axes only, dtype=int', lambda: [], lambda: {'axes': [('x', [10, 20])], 'dtype': TypeV('int')})
    case('neither values nor axes', lambda: [])
    case('Axis objects of the wrong sizes', lambda: [V(3, 2), AXS()])
    case('one Axis of the wrong size', lambda: [V(2, 4), AXS()])
    case('fewer Axis objects than dimensions', lambda: [V(2, 3), AXS()[:1]])
    case('more Axis objects than dimensions', lambda: [V(2,), AXS()])
    case('an Axes object of the wrong sizes', lambda: [V(3, 2), mk_axes(AXS())])
    case('an Axes object with fewer axes', lambda: [V(2, 3), mk_axes(AXS()[:1])])
    case('label lists of the wrong length', lambda: [V(2, 3)], lambda: {'axes': [[10, 20, 30], ['u', 'v', 'w']], 'dims': ['x', 'y']})
    case('too many dims', lambda: [V(2, 3)], {'dims': ['x', 'y', 'z']})
    case('duplicate dims', lambda: [V(2, 3)], {'dims': ['x', 'x']})
    case('duplicate Axis names', lambda: [V(2, 2), [mk_axis('x', 2), mk_axis('x', 2)]])
    case('metadata keywords', lambda: [V(2, 3)], {'units': 'm', 'name': 'test'})
    def src(spec):
        a = arr_of(P, 'A', spec)
        a.attrs['attrs'] = {'long_name': 'T', 'units': 'K'}
        return a
    case('from a DimArray', lambda: [src([('x', 2), ('y', 3)])])
    case('from a DimArray with other axes', lambda: [src([('x', 2), ('y', 3)]), [mk_axis('u', 2), mk_axis('v', 3)]])
    case('from a DimArray with metadata keywords', lambda: [src([('x', 2)])], {'units': 'm'})
    def mk_src_after():
        me, o = fresh()
        a = src([('x', 2)])
        return ([me, a], {'units': 'm'}, {'overrides': o, 'oracle': label_oracle, 'post': lambda itp, r: 'new: %s; source attrs afterwards: %s' % (render(me.attrs.get('_attrs')), render(a.attrs['attrs']))})
    out.append(('from a DimArray, metadata of the source afterwards', mk_src_after))
    case('explicit indexing options', lambda: [V(2, 3)], {'_indexing': 'position', '_indexing_broadcast': False})
    case('copy=True', lambda: [V(2, 3)], {'copy': True})
    case('a nested list', lambda: [[[1, 2, 3], [4, 5, 6]]])
    case('a nested list and pairs', lambda: [[[1, 2, 3], [4, 5, 6]], [('x', [10, 20]), ('y', ['u', 'v', 'w'])]])
    case('a scalar', lambda: [3])
    return out


def joinable_axis(name, size, label):
    """an Axis whose union / intersection with another one is a token - or, as in the library, one of the operands themselves when there is nothing to merge
    (equal labels: a copy of the first; an empty operand: the other one)"""
    ax = mk_axis(name, size, tok(label))

    def join(kind):
        def f(itp, o, a, k):
            other = a[0]
            if not (isinstance(other, Obj) and 'Axis' in other.types):
                raise Raised('AttributeError')
            if render(o.attrs['values']) == render(other.attrs['values']) and o.attrs['size'] == other.attrs['size']:
                return o.methods['copy'](itp, o, [], {})
            if o.attrs['size'] == 0:
                return other
            if other.attrs['size'] == 0:
                return o
            r = joinable_axis(o.attrs['name'], 9, '%s(%s, %s)' % (kind, render(o.attrs['values']), render(other.attrs['values'])))
            return r
        return f
    ax.methods['union'] = join('UNION')
    ax.methods['intersection'] = join('INTERSECTION')
    inner_copy = ax.methods['copy']

    def copy(itp, o, a, k):
        c = joinable_axis(o.attrs['name'], o.attrs['size'], 'x')
        c.attrs['values'] = o.attrs['values']
        c.attrs['attrs'] = o.attrs.get('attrs')
        return c
    ax.methods['copy'] = copy
    return ax


def sc_aligned_axes(P):
    """_get_aligned_axes: the common axes returned, and the inputs' own axes afterwards (sort=True must sort a copy)"""
    out = []

    def arr(name, spec):
        axes = [joinable_axis(d, n, lab) for d, n, lab in spec]
        return mk_array(P, name, None, None, axes=axes, values=mk_values('V_' + name, [n for _, n, _ in spec]), overrides=std_overrides(P))

    def case(label, mk_arrays, **kw):
        def mk():
            arrays = mk_arrays()
            return ([arrays], dict(kw), {'overrides': std_overrides(P), 'oracle': label_oracle,
                                         'post': lambda itp, r: 'axes %s; inputs afterwards %s' % (render(r), render([x.attrs['axes'] for x in arrays]))})
        out.append((label, mk))
    two = lambda: [arr('A', [('x', 2, 'L_x'), ('y', 3, 'L_y')]), arr('B', [('x', 2, 'L_xB'), ('y', 3, 'L_y')])]
    for sort in (False, True):
        tag = 'sort=%s' % sort
        case('two arrays, x differs (%s)' % tag, two, sort=sort)
        case('one array (%s)' % tag, lambda: [arr('A', [('x', 2, 'L_x')])], sort=sort)
        case('only one array has y (%s)' % tag, lambda: [arr('A', [('x', 2, 'L_x'), ('y', 3, 'L_y')]), arr('B', [('x', 2, 'L_xB')])], sort=sort)
        case('an empty axis next to a full one (%s)' % tag, lambda: [arr('A', [('x', 0, 'EMPTY')]), arr('B', [('x', 2, 'L_xB')])], sort=sort)
        case('a full axis next to an empty one (%s)' % tag, lambda: [arr('A', [('x', 2, 'L_x')]), arr('B', [('x', 0, 'EMPTY')])], sort=sort)
        case('three arrays (%s)' % tag, lambda: two() + [arr('C', [('x', 2, 'L_xC')])], sort=sort)
        case('three arrays, join=inner (%s)' % tag, lambda: two() + [arr('C', [('x', 2, 'L_xC')])], sort=sort, join='inner')
    case('axis="y"', two, axis='y')
    case('axis by position (invalid)', two, axis=0)
    case('strict=True, same dimensions', two, strict=True)
    case('strict=True, one array lacks y', lambda: [arr('A', [('x', 2, 'L_x'), ('y', 3, 'L_y')]), arr('B', [('x', 2, 'L_xB')])], strict=True)
    case('disjoint dimensions', lambda: [arr('A', [('x', 2, 'L_x')]), arr('B', [('y', 3, 'L_y')])])
    return out


def relabelable(P, name, spec, labels=None):
    """an array whose reindex_axis(labels, axis=name, **options) gives a new array carrying `labels` on that dimension; which dimensions were re-indexed onto what, and
    with which options, is recorded in the values token (order-independent: re-indexing along different dimensions commutes)"""
    arr = arr_of(P, name, spec, labels)

    def reindex_axis(itp, o, a, k):
        k = dict(k)
        vals = a[0] if a else k.pop('values', None)
        axis = a[1] if len(a) > 1 else k.pop('axis', 0)
        if isinstance(vals, Obj) and 'Axis' in vals.types:
            axis, vals = vals.attrs['name'], vals.attrs['values']
        old = itp.iterate(o.attrs['axes'])
        names = [x.attrs['name'] for x in old]
        if isinstance(axis, int) and not isinstance(axis, bool) and -len(names) <= axis < len(names):
            axis = names[axis]
        if axis not in names:
            raise Raised('ValueError')
        if render(vals) == render(old[names.index(axis)].attrs['values']):
            return o            # onto the labels it already has: the same array (whether the function takes a short-cut for this case is not observable)
        opts = ', '.join('%s=%s' % (kk, render(vv)) for kk, vv in sorted(k.items()))
        new = relabelable(P, o.name, [(x.attrs['name'], x.attrs['size']) for x in old])
        new.attrs['axes'] = mk_axes([mk_axis(axis, Sym('call', 'len', (vals,), {}), vals, x.attrs.get('attrs')) if x.attrs['name'] == axis else x for x in old])
        done = dict(o.attrs.get('_reindexed', {}))
        done[axis] = '%s%s' % (render(vals), (' [%s]' % opts) if opts else '')
        new.attrs['_reindexed'] = done
        new.attrs['_base'] = o.attrs.get('_base', o.attrs['values'])
        new.attrs['values'] = Sym('call', 'REINDEXED', (new.attrs['_base'],) + tuple(Sym('tok', '%s->%s' % (d, v)) for d, v in sorted(done.items())), {})
        new.attrs['attrs'] = o.attrs['attrs']
        return new
    arr.methods['reindex_axis'] = reindex_axis
    return arr


def sc_reindex_like(P):
    out = []
    xyz = [('x', 2), ('y', 3), ('z', 4)]
    T_ = lambda spec: arr_of(P, 'T', spec, dict((d, 'T_' + d) for d, _ in spec))

    def case(label, mk_self, mk_other, **kw):
        out.append((label, lambda: ([mk_self(), mk_other()], dict(kw), {'overrides': std_overrides(P), 'oracle': label_oracle})))
    S = lambda: relabelable(P, 'A', xyz)
    case('template with the same dimensions', S, lambda: T_(xyz))
    case('template with the dimensions in reverse order', S, lambda: T_(xyz[::-1]))
    case('template with the dimensions rotated', S, lambda: T_(xyz[1:] + xyz[:1]))
    case('template with one shared dimension', S, lambda: T_([('y', 3)]))
    case('template with a dimension the array lacks', S, lambda: T_([('w', 5), ('z', 4), ('x', 2)]))
    case('template without shared dimensions', S, lambda: T_([('w', 5)]))
    case('template given as an Axes object', S, lambda: T_(xyz[::-1]).attrs['axes'])
    case('options are handed on', S, lambda: T_(xyz[::-1]), fill_value=0, method='left')
    case('a 0-d array', lambda: relabelable(P, 'A', []), lambda: T_(xyz))

    def concrete(name, labels, maker):
        a = maker(P, name, [('x', len(labels))])
        a.attrs['axes'].attrs['_list'][0].attrs['values'] = conc(list(labels))
        return a
    case('template with the same labels in another order', lambda: concrete('A', [1, 2, 3], relabelable), lambda: concrete('T', [3, 1, 2], arr_of))
    case('template with the same labels in reverse order', lambda: concrete('A', [1, 2, 3], relabelable), lambda: concrete('T', [3, 2, 1], arr_of))
    case('template with the same labels in the same order', lambda: concrete('A', [1, 2, 3], relabelable), lambda: concrete('T', [1, 2, 3], arr_of))
    case('template that is neither an array nor Axes (invalid)', S, lambda: 3)
    return out


def sc_get_axes(P):
    """_get_axes(*arrays): per dimension the axis every array is broadcast onto - the first one, a placeholder (label None) giving way to any real axis, a single label to a
    longer (or empty) axis - and the refusal of non-singleton axes whose labels differ"""
    out = []

    def arr(name, spec):
        axes = [mk_axis(d, len(lab), list(lab)) if isinstance(lab, list) else mk_axis(d, lab[0], tok(lab[1])) for d, lab in spec]
        return mk_array(P, name, None, None, axes=axes, values=mk_values('V_' + name, [a.attrs['size'] for a in axes]), overrides=std_overrides(P))

    def case(label, *specs):
        out.append((label, lambda: ([arr(chr(65 + i), sp) for i, sp in enumerate(specs)], {}, {'overrides': std_overrides(P), 'oracle': label_oracle})))
    full, other = (3, 'L_x'), (3, 'L_x2')
    case('same labels', [('x', full), ('y', (2, 'L_y'))], [('x', full), ('y', (2, 'L_y'))])
    case('labels differ on a full axis', [('x', full)], [('x', other)])
    case('labels differ on the second dimension', [('x', full), ('y', (2, 'L_y'))], [('x', full), ('y', (2, 'L_y2'))])
    case('single label, then full axis', [('x', ['k'])], [('x', full)])
    case('full axis, then single label', [('x', full)], [('x', ['k'])])
    case('placeholder, then full axis', [('x', [None])], [('x', full)])
    case('full axis, then placeholder', [('x', full)], [('x', [None])])
    case('placeholder, then single label', [('x', [None])], [('x', ['k'])])
    case('single label, then placeholder', [('x', ['k'])], [('x', [None])])
    case('two different single labels', [('x', ['k'])], [('x', ['m'])])
    case('single label, then empty axis', [('x', ['k'])], [('x', [])])
    case('empty axis, then single label', [('x', [])], [('x', ['k'])])
    case('placeholder, single label, full axis', [('x', [None])], [('x', ['k'])], [('x', full)])
    case('full axis, placeholder, other full axis', [('x', full)], [('x', [None])], [('x', other)])
    case('second array lacks a dimension', [('x', full), ('y', (2, 'L_y'))], [('y', (2, 'L_y'))])
    case('first array lacks a dimension', [('y', (2, 'L_y'))], [('x', full), ('y', (2, 'L_y'))])
    case('disjoint dimensions', [('x', full)], [('y', (2, 'L_y'))])
    case('one array', [('x', full), ('y', (2, 'L_y'))])
    case('0-d and 1-d', [], [('x', full)])
    return out


def sc_align_dims(P):
    """align_dims(*arrays): every array reshaped onto the ordered union of the dimension names - the first operand's in their order, then the new ones; untouched when the
    ordered dims already coincide"""
    out = []

    def arr(name, dims):
        a = mk_array(P, name, dims, tuple(2 + i for i, _ in enumerate(dims)), overrides=std_overrides(P))
        a.methods['reshape'] = lambda itp, o, aa, k: Sym('call', '%s.reshape' % o.name, tuple(list(x) if isinstance(x, (list, tuple)) else x for x in aa), dict(k))
        return a

    def case(label, *dimss):
        out.append((label, lambda: ([arr(chr(65 + i), d) for i, d in enumerate(dimss)], {}, {'overrides': std_overrides(P)})))
    case('same dimensions', ('x', 'y'), ('x', 'y'))
    case('same dimensions in another order', ('x', 'y'), ('y', 'x'))
    case('second operand has more dimensions, shared one last', ('x',), ('s', 't', 'x'))
    case('second operand has more dimensions, shared one first', ('x',), ('x', 's', 't'))
    case('first operand has more dimensions', ('s', 't', 'x'), ('x',))
    case('disjoint dimensions', ('x',), ('y',))
    case('0-d and 2-d', (), ('x', 'y'))
    case('three operands', ('x',), ('y', 'x'), ('z', 'y'))
    case('one operand', ('x', 'y'))
    return out


def sc_get_indices(P):
    """AbstractHasAxes._get_indices(indices, axis, indexing, tol, keepdims): every documented spelling of an index (scalar, list, mask, slice, tuple with Ellipsis,
    {dimension: index}, (index, axis=), an Axes object) normalised to one positional index per dimension; labels looked up on the axis of the *named* dimension, with the
    tolerance handed on; masks and full slices never looked up; positions taken as they are under indexing='position'"""
    out = []
    dims, sizes = ('x', 'y', 'z'), (3, 4, 5)
    # (an argument handed to Axis.loc at its declared default says nothing)
    import ast as _ast
    loc_defaults = {}
    floc = P.functions.get('dimarray.core.bases.AbstractAxis.loc')
    if floc is not None:
        pos = floc.node.args.args
        for arg, d in list(zip(pos[len(pos) - len(floc.node.args.defaults):], floc.node.args.defaults)) + \
                [(a_, d_) for a_, d_ in zip(floc.node.args.kwonlyargs, floc.node.args.kw_defaults) if d_ is not None]:
            if isinstance(d, _ast.Constant):
                loc_defaults[arg.arg] = d.value

    def target(indexing=None, tol=None):
        axes = [mk_axis(d, n) for d, n in zip(dims, sizes)]
        for ax in axes:
            def loc(itp, o, a, k):
                lix = a[0] if a else k.get('val')
                rest = dict((kk, vv) for kk, vv in k.items() if kk != 'val')
                if len(a) > 1:
                    rest['tol'] = a[1]
                rest = dict((kk, vv) for kk, vv in rest.items() if kk not in loc_defaults or render(loc_defaults[kk]) != render(vv))
                if isinstance(lix, (int, float, str, bool)) and not isinstance(lix, (Obj, Sym)):
                    # a scalar label gives a scalar position (np.isscalar is true of it)
                    return 'pos[%s](%s%s)' % (o.attrs['name'], render(lix), ''.join(', %s=%s' % (kk, render(vv)) for kk, vv in sorted(rest.items()) if vv is not None))
                return Sym('call', 'positions[%s]' % o.attrs['name'], (plain(lix),), dict((kk, vv) for kk, vv in rest.items() if vv is not None))
            ax.methods['loc'] = loc
        arr = mk_array(P, 'A', None, None, axes=axes, overrides=ov())
        arr.attrs['_indexing'] = indexing
        arr.attrs['_tol'] = tol
        return arr

    def ov():
        o = std_overrides(P)
        o['get_option'] = lambda itp, a, k: {'indexing.by': 'label'}.get(a[0], Sym('call', 'get_option', tuple(a), {}))
        np_ = o['np']
        base_asarray = np_.methods['asarray']

        def asarray(itp, o_, a, k):
            x = a[0]
            if isinstance(x, (list, tuple)) and not has_abstract_deep(x) and len(a) == 1 and not k and not any(isinstance(y, (list, tuple)) for y in x):
                return conc(list(x))
            if (x is None or (isinstance(x, (int, float, str, bool)) and not isinstance(x, (Obj, Sym)))) and len(a) == 1 and not k:
                return conc(x, 'O' if x is None else _kind_of([x]), ())                  # a 0-d array
            return base_asarray(itp, o_, a, k)
        np_.methods['asarray'] = asarray
        o['numpy'] = np_
        return o

    def plain(x):
        # a list of labels or positions and the array made of it address the same cells
        if isinstance(x, Obj) and '_data' in x.attrs and x.attrs['dtype'].attrs['kind'] != 'b':
            return x.attrs['_data']
        return list(x) if isinstance(x, tuple) else x

    def post(itp, r):
        if isinstance(r, Obj) and 'iter' in r.hooks:
            r = itp.iterate(r)
        return render([plain(x) for x in r]) if isinstance(r, (list, tuple)) else render(r)

    def case(label, args, kw=None, **tk):
        out.append((label, lambda: ([target(**tk)] + list(args), dict(kw or {}), {'overrides': ov(), 'post': post})))

    mask = lambda: conc([True, False, True], 'b')
    case('scalar label', [20])
    case('list of labels', [[30, 10]])
    case('empty list', [[]])
    case('tuple of labels: one per dimension', [(20, 'b')])
    case('full tuple', [(20, 'b', 7)])
    case('too many indices', [(1, 2, 3, 4)])
    case('full slice', [slice(None)])
    case('label slice', [slice(10, 20)])
    case('mask on the first dimension', [mask()])
    case('mask in a tuple', [(20, mask())])
    case('Ellipsis then a label', [(Ellipsis, 7)])
    case('label, Ellipsis, label', [(20, Ellipsis, 7)])
    case('None: everything', [None])
    case('{name: index}', [{'y': 'b'}])
    case('{name: index} for two dimensions, in another order', [{'z': 7, 'x': [10, 20]}])
    case('{position: index}', [{1: 'b'}])
    case('{negative position: index}', [{-1: 7}])
    case('{unknown name: index}', [{'w': 1}])
    case('index, axis=name', [[30, 10]], {'axis': 'y'})
    case('index, axis=position', [20], {'axis': 2})
    case('index, axis=0', [20], {'axis': 0})
    case('index, axis=None', [20], {'axis': None})
    case('scalar label with tolerance', [20.2], {'tol': 0.5})
    case('list of labels with tolerance', [[20.2, 9.9]], {'tol': 0.5})
    case("tolerance of the array (its _tol)", [20.2], None, tol=0.25)
    case("tolerance argument over the array's own", [20.2], {'tol': 0.5}, tol=0.25)
    case('scalar position', [1], {'indexing': 'position'})
    case('list of positions', [[2, 0]], {'indexing': 'position'})
    case('position slice', [slice(0, 2)], {'indexing': 'position'})
    case('tuple of positions with Ellipsis', [(1, Ellipsis, [0, 1])], {'indexing': 'position'})
    case('{name: position}', [{'z': 2}], {'indexing': 'position'})
    case('mask under position indexing', [(slice(None), mask())], {'indexing': 'position'})
    case("array's own indexing mode is position", [(1, [0, 2])], None, indexing='position')
    case("indexing argument over the array's own mode", [(20, 'b')], {'indexing': 'label'}, indexing='position')
    case('scalar label, keepdims', [20], {'keepdims': True})
    case('tuple with a list, keepdims', [(20, ['a', 'b'])], {'keepdims': True})
    case('scalar position, keepdims', [(1, 2)], {'indexing': 'position', 'keepdims': True})
    case('full slice, keepdims', [slice(None)], {'keepdims': True})
    return out


def sc_item_dispatch(P, which):
    """AbstractDimArray._getitem / _setitem: which worker pair serves an index.  The index is resolved once by _get_indices with the caller's axis / indexing / tol (/ keepdims)
    handed on; a full N-d boolean mask goes to compress / _setvalues_bool; the orthogonal workers serve unless broadcast is asked for by the argument, else by the array's
    own flag, else by the global option; a read gives a scalar as it is and otherwise the constructor's array with the metadata of the source; a write with inplace=False
    goes to a copy that is returned and leaves the receiver alone."""
    def gen(P):
        out = []

        def target(own=None, option=False):
            arr = mk_array(P, 'A', ('x', 'y'), (3, 4), overrides=ov(option))
            log = arr.attrs['_log'] = []
            arr.attrs['_broadcast'] = own
            arr.attrs['attrs'] = {'units': 'u'}

            def rec(name, ret=None):
                def m(itp, o, a, k):
                    # (positional or by keyword, the same cells / values / cast flag)
                    kw = dict(zip(['mask' if name == '_setvalues_bool' else 'idx_tuple', 'values', 'cast'], a))
                    kw.update(k)
                    kw.setdefault('cast', False)
                    o.attrs['_log'].append('%s(%s)' % (name, ', '.join('%s=%s' % (kk, render(vv)) for kk, vv in sorted(kw.items()))))
                    return ret(o, a, k) if ret else None
                return m

            def get_indices(itp, o, a, k):
                # (arguments at the declared defaults say nothing)
                names = ['indices', 'axis', 'indexing', 'tol', 'keepdims']
                defaults = {'axis': 0, 'indexing': None, 'tol': None, 'keepdims': False}
                kw = dict(zip(names, a))
                kw.update(k)
                kw = dict((kk, vv) for kk, vv in kw.items() if kk not in defaults or render(defaults[kk]) != render(vv))
                if kw.get('indices', ()) is None:
                    kw['indices'] = ()                   # (None is what _get_indices itself reads as "everything")
                return Sym('call', 'IDX', (), kw)
            arr.methods['_get_indices'] = get_indices
            arr.methods['_getaxes_ortho'] = lambda itp, o, a, k: [Sym('call', 'AXES_ORTHO', tuple(a), dict(k))]
            arr.methods['_getaxes_broadcast'] = lambda itp, o, a, k: [Sym('call', 'AXES_BROADCAST', tuple(a), dict(k))]
            arr.methods['_getvalues_ortho'] = lambda itp, o, a, k: Sym('call', 'VALUES_ORTHO', tuple(a), dict(k))
            arr.methods['_getvalues_broadcast'] = lambda itp, o, a, k: Sym('call', 'VALUES_BROADCAST', tuple(a), dict(k))
            arr.methods['compress'] = lambda itp, o, a, k: Sym('call', 'COMPRESS', tuple(a), dict(k))
            for nm in ('_setvalues_ortho', '_setvalues_broadcast', '_setvalues_bool'):
                arr.methods[nm] = rec(nm)
            def constructor(itp, o, a, k):
                kw = dict(zip(['values', 'axes'], a))
                kw.update(k)
                meta = dict((kk, vv) for kk, vv in kw.items() if kk not in ('values', 'axes'))
                if len(a) > 2:
                    meta['<positional>'] = list(a[2:])
                return Obj('NEW', types=('DimArray',), attrs={'args': (kw.get('values'), kw.get('axes')), 'attrs': meta})
            arr.methods['_constructor'] = constructor

            def copy(itp, o, a, k):
                # a copy: another array with the content of its source at that moment (the writes received so far included)
                c = target(own, option)
                c.name = 'COPY'
                shallow = a[0] if a else k.get('shallow', False)
                # a shallow copy shares its values with the source: what is written into one is written into the other
                c.attrs['_log'] = o.attrs['_log'] if shallow is not False else list(o.attrs['_log'])
                return c
            arr.methods['copy'] = copy
            return arr

        def ov(option):
            o = std_overrides(P)
            o['get_option'] = lambda itp, a, k: {'indexing.broadcast': option, 'indexing.by': 'label'}.get(a[0], Sym('call', 'get_option', tuple(a), {}))
            o['warnings'] = Obj('warnings', attrs={})
            o['warnings'].hooks['open'] = True
            o['warnings'].methods['warn'] = lambda itp, o_, a, k: None
            o['FutureWarning'] = lambda itp, a, k: tok('FutureWarning')
            return o

        def post(itp, r, arr=None):
            def show(x):
                if isinstance(x, Obj) and x.name == 'NEW':
                    return 'NEW(%s; attrs=%s)' % (render(x.attrs['args']), render(x.attrs['attrs']))
                if isinstance(x, Obj) and x.name == 'A':
                    return 'the receiver'
                if isinstance(x, Obj) and x.name == 'COPY':
                    return 'a copy with the writes %s' % (x.attrs['_log'],)
                return render(x)
            return 'returns %s; writes into the receiver %s' % (show(r), arr.attrs['_log'])

        def case(label, args, kw=None, **tk):
            def mk():
                arr = target(**tk)
                return [arr] + list(args), dict(kw or {}), {'overrides': ov(tk.get('option', False)), 'post': lambda itp, r: post(itp, r, arr)}
            out.append((label, mk))

        nd_mask = lambda: conc([[True, False], [False, True]], 'b')
        mask1 = lambda: conc([True, False, True], 'b')
        extra = [] if which == '_getitem' else [tok('NEWVALUES')]
        IDX = (20, ['a', 'b'])
        case('defaults', [IDX] + extra)
        case('array flag: broadcast', [IDX] + extra, None, own=True)
        case('array flag: orthogonal, option: broadcast', [IDX] + extra, None, own=False, option=True)
        case('no array flag, option: broadcast', [IDX] + extra, None, option=True)
        case('broadcast=True', [IDX] + extra, {'broadcast': True})
        case('broadcast=False over the array flag', [IDX] + extra, {'broadcast': False}, own=True)
        case('broadcast=False over the option', [IDX] + extra, {'broadcast': False}, option=True)
        case('axis, indexing and tol handed on', [IDX] + extra, {'axis': 'y', 'indexing': 'position', 'tol': 0.5})
        case('full N-d boolean mask', [nd_mask()] + extra)
        case('full N-d boolean mask, broadcast=True', [nd_mask()] + extra, {'broadcast': True})
        case('1-d boolean mask is an ordinary index', [mask1()] + extra)
        case('nested list of numbers is an ordinary index', [conc([[1, 0], [0, 1]], 'i')] + extra)
        if which == '_getitem':
            case('keepdims handed on', [IDX], {'keepdims': True})
            case('deprecated broadcast_arrays=True', [IDX], {'broadcast_arrays': True})
            case('no index', [None])

            def scalar_case():
                arr = target()
                arr.methods['_getvalues_ortho'] = lambda itp, o, a, k: 3.5
                return [arr, IDX], {}, {'overrides': ov(False), 'post': lambda itp, r: post(itp, r, arr)}
            out.append(('scalar values are returned as they are', scalar_case))
        else:
            case('cast handed on', [IDX] + extra, {'cast': True})
            case('cast handed on, broadcast', [IDX] + extra, {'cast': True, 'broadcast': True})
            case('cast handed on, N-d mask', [nd_mask()] + extra, {'cast': True})
            case('inplace=False', [IDX] + extra, {'inplace': False})
            case('inplace=False, broadcast', [IDX] + extra, {'inplace': False, 'broadcast': True})
            case('inplace=False, N-d mask', [nd_mask()] + extra, {'inplace': False})
            case('inplace=False, array flag: broadcast', [IDX] + extra, {'inplace': False}, own=True)
            case('inplace=False, cast=True', [IDX] + extra, {'inplace': False, 'cast': True})
            case('inplace=False, cast=True, N-d mask', [nd_mask()] + extra, {'inplace': False, 'cast': True})
        return out
    return gen


def sc_getaxes_ortho(P):
    """_getaxes_ortho(idx_tuple): the i-th index samples the i-th axis; scalar-indexed axes are dropped, all the others kept in their order"""
    out = []

    def target():
        axes = [mk_axis('x', 3, [10, 20, 30]), mk_axis('y', 2, ['a', 'b']), mk_axis('z', 4, [1.5, 2.5, 3.5, 4.5])]
        return mk_array(P, 'A', None, None, axes=axes, overrides=std_overrides(P))

    def post(itp, r):
        if isinstance(r, Obj) and 'iter' in r.hooks:
            r = itp.iterate(r)
        return render(list(r)) if isinstance(r, (list, tuple)) else render(r)

    def case(label, idx):
        out.append((label, lambda: ([target(), idx], {}, {'overrides': std_overrides(P), 'post': post})))
    full = slice(None)
    case('all full slices', (full, full, full))
    case('scalar on the first dimension', (1, full, full))
    case('scalar on the middle dimension', (full, 0, full))
    case('scalar on the last dimension', (full, full, 3))
    case('scalars on two dimensions', (2, full, 0))
    case('scalars everywhere', (0, 1, 2))
    case('slice and list', (slice(0, 2), [1, 0], full))
    case('list on the first, scalar on the second', ([2, 0], 1, full))
    case('singleton list keeps its dimension', ([1], [0], [2]))
    return out


def sc_locate_slice_strict(P):
    """_locate_slice_strict(values, start, stop, step): both bounds are exact first matches; the stop label belongs to the selection (one past it in the direction of the
    step); omitted bounds stay None; a negative step down to the first element ends with None, not with -1 (which would wrap around); an absent label is refused"""
    out = []
    where = {'a': 0, 'b': 1, 'c': 2, 'd': 3, 'e': 4}

    def ov():
        o = std_overrides(P)

        def locate_one(itp, a, k):
            kw = dict(zip(['values', 'val', 'issorted', 'tol', 'side'], a))
            kw.update(k)
            if kw.get('tol') is not None or kw.get('side', 'left') != 'left' or render(kw.get('values')) != 'VALUES':
                return Sym('call', 'locate_one', tuple(a), dict(k))          # not an exact first match on the axis: left as it is written
            if kw.get('val') not in where:
                raise Raised('IndexError')
            return where[kw['val']]
        o['locate_one'] = locate_one
        return o

    for step in (None, 1, 2, -1, -2):
        for start in (None, 'a', 'c', 'e'):
            for stop in (None, 'a', 'b', 'c', 'd', 'e'):
                out.append(('start %r, stop %r, step %r' % (start, stop, step), lambda start=start, stop=stop, step=step: ([tok('VALUES'), start, stop, step], {}, {'overrides': ov()})))
    # labels that are false in a boolean context are labels like any other (an omitted bound is None, nothing else)
    where.update({0: 1, '': 3, 0.0: 1})
    for start, stop, step in ((0, 'c', None), ('a', 0, None), (0, 0, None), ('', 'e', None), ('a', '', None), (0, None, -1), (None, 0, -1)):
        out.append(('falsy label: start %r, stop %r, step %r' % (start, stop, step), lambda start=start, stop=stop, step=step: ([tok('VALUES'), start, stop, step], {}, {'overrides': ov()})))
    out.append(('absent start label', lambda: ([tok('VALUES'), 'q', 'c', None], {}, {'overrides': ov()})))
    out.append(('absent stop label', lambda: ([tok('VALUES'), 'a', 'q', None], {}, {'overrides': ov()})))
    out.append(('absent stop label, negative step', lambda: ([tok('VALUES'), None, 'q', -1], {}, {'overrides': ov()})))
    return out


def sc_maybe_delete_axes(P):
    """Dataset._maybe_delete_axes(axes): of the candidate axes, exactly those that no variable of the dataset has a dimension for are removed from the dataset's axes
    (each candidate decided on its own; the variables themselves untouched)"""
    out = []

    def case(label, variables, ds_dims, cand):
        def mk():
            vs = dict((k, var_stub(k.upper(), d)) for k, d in variables)
            axes = [mk_axis(d, {'x': 3, 'y': 2, 'z': 4, 'w': 5}[d]) for d in ds_dims]
            for v in vs.values():
                v.attrs['axes'] = mk_axes([a for a in axes if a.attrs['name'] in v.attrs['dims']])
            ds = mk_dataset(P, vs, axes=axes)
            byname = dict((a.attrs['name'], a) for a in axes)
            return [ds, [byname[c] for c in cand]], {}, {'overrides': ds_overrides(P), 'post': lambda itp, r: 'returns %s; %s' % (render(r), render(ds))}
        out.append((label, mk))
    V = (('a', ('x',)), ('b', ('x', 'y')))
    case('no candidate', V, ('x', 'y', 'z'), [])
    case('one unused candidate', V, ('x', 'y', 'z'), ['z'])
    case('one candidate still in use by the last variable', V, ('x', 'y', 'z'), ['y'])
    case('one candidate still in use by the first variable only', (('a', ('x', 'z')), ('b', ('y',))), ('x', 'y', 'z'), ['z'])
    case('in use, then unused', V, ('x', 'y', 'z'), ['x', 'z'])
    case('unused, then in use', V, ('x', 'y', 'z'), ['z', 'y'])
    case('two unused candidates', V, ('x', 'y', 'z', 'w'), ['z', 'w'])
    case('in use, unused, in use, unused', V, ('x', 'z', 'y', 'w'), ['x', 'z', 'y', 'w'])
    case('dataset without variables', (), ('x', 'y'), ['x', 'y'])
    case('two unused candidates, listed in reverse order', V, ('x', 'y', 'z', 'w'), ['w', 'z'])
    case('unused candidates around one in use, other order', V, ('z', 'x', 'w', 'y'), ['w', 'x', 'z'])
    case('three adjacent unused candidates', (('a', ('x',)),), ('x', 'y', 'z', 'w'), ['y', 'z', 'w'])
    return out


def sc_get_dims(P):
    """get_dims(*arrays): the dimension names of the operands, each once, in the order in which they first show up (first operand first)"""
    out = []

    def case(label, *dimss):
        out.append((label, lambda: ([mk_array(P, chr(65 + i), d, tuple(2 + j for j, _ in enumerate(d)), overrides=std_overrides(P)) for i, d in enumerate(dimss)], {},
                                    {'overrides': std_overrides(P), 'post': lambda itp, r: render(list(itp.iterate(r)) if not isinstance(r, (list, tuple)) else list(r))})))
    case('no operand')
    case('one operand', ('x', 'y'))
    case('0-d operand', ())
    case('same dimensions', ('x', 'y'), ('x', 'y'))
    case('same dimensions in another order', ('x', 'y'), ('y', 'x'))
    case('second operand brings a new dimension first', ('x',), ('s', 'x'))
    case('second operand brings new dimensions around a shared one', ('x',), ('s', 'x', 't'))
    case('disjoint dimensions', ('y',), ('x',))
    case('names not in alphabetical order', ('time', 'lat'), ('lon', 'lat'))
    case('three operands', ('x',), ('y', 'x'), ('z', 'y'))
    case('0-d first', (), ('x', 'y'))
    return out


def sc_axes_from(P):
    """Axes.from_shape / from_arrays / from_dict called directly"""
    out = []
    return out


SCENARIOS = {
    'dimarray.core.bases.AbstractHasAxes._get_indices': (('C01', 'C02', 'C03'), sc_get_indices),
    'dimarray.core.bases.AbstractDimArray._getitem': (('C01', 'C02'), sc_item_dispatch(None, '_getitem')),
    'dimarray.core.bases.AbstractDimArray._setitem': (('C03',), sc_item_dispatch(None, '_setitem')),
    'dimarray.core.bases.AbstractHasAxes._getaxes_ortho': (('C01', 'C02'), sc_getaxes_ortho),
    'dimarray.core.indexing._locate_slice_strict': (('C02',), sc_locate_slice_strict),
    'dimarray.dataset.Dataset._maybe_delete_axes': (('C13',), sc_maybe_delete_axes),
    'dimarray.core.align.get_dims': (('C04', 'C10'), sc_get_dims),
    'dimarray.core.axes._init_axes': (('C05',), sc_init_axes),
    'dimarray.tools.is_array1d_equiv': (('C05',), sc_array1d_equiv),
    'dimarray.core.dimarraycls.DimArray.from_nested': (('C05',), sc_from_nested),
    'dimarray.dataset.Dataset.rename_keys': (('C13', 'C15'), sc_ds_rename_keys),
    'dimarray.dataset.Dataset.rename_axes': (('C13', 'C05'), sc_ds_rename_axes),
    'dimarray.dataset.Dataset._binary_op': (('C14',), sc_ds_ops(None, '_binary_op')),
    'dimarray.dataset.Dataset._rbinary_op': (('C14',), sc_ds_ops(None, '_rbinary_op')),
    'dimarray.dataset.Dataset._unary_op': (('C14',), sc_ds_ops(None, '_unary_op')),
    'dimarray.dataset.Dataset._apply_dimarray_axis': (('C14',), sc_ds_apply),
    'dimarray.core.dimarraycls.DimArray.__init__': (('C05',), sc_dimarray_init),
    'dimarray.core.axes.Axis.set': (('C13', 'C05'), sc_axis_set),
    'dimarray.core.bases.AbstractHasAxes._set_dims': (('C05', 'C13'), sc_set_dims(None, 'array')),
    'dimarray.dataset.Dataset.dims.setter': (('C05', 'C13'), sc_set_dims(None, 'dataset')),
    'dimarray.dataset.Dataset.set_axis': (('C13', 'C05'), sc_set_axis(None, 'dataset')),
    'dimarray.core.dimarraycls.DimArray.set_axis': (('C05', 'C13'), sc_set_axis(None, 'array')),
    'dimarray.core.operation.operation': (('C04',), sc_operation),
    'dimarray.dataset.stack_ds': (('C14', 'C12'), sc_stack_ds(None, 'stack_ds')),
    'dimarray.dataset.concatenate_ds': (('C14', 'C12'), sc_stack_ds(None, 'concatenate_ds')),
    'dimarray.core.axes._flatten': (('C11', 'C05'), sc_flatten_labels),
    'dimarray.core.axes.MultiAxis._get_values': (('C11',), sc_multiaxis(None, '_get_values')),
    'dimarray.core.axes.MultiAxis.values': (('C11',), sc_multiaxis(None, 'values')),
    'dimarray.core.axes.MultiAxis.size': (('C11',), sc_multiaxis(None, 'size')),
    'dimarray.core.align.align': ((), sc_align),         # the decision procedure of c06.rule_align (C04-R7, C06-R3, C12-R7, C13-R7)
    'dimarray.core.align._get_aligned_axes': (('C06', 'C12'), sc_aligned_axes),
    'dimarray.core.align.reindex_like': ((), sc_reindex_like),          # the decision procedure of C07-R4
    'dimarray.core.align._get_axes': (('C10', 'C04'), sc_get_axes),       # (not C12: stack() compares every input axis with the common axes itself)
    'dimarray.core.align.align_dims': (('C04', 'C10'), sc_align_dims),
    'dimarray.core.align.stack': (('C12', 'C05'), sc_stack),
    'dimarray.core.align.concatenate': (('C12',), sc_concatenate),
    'dimarray.core.reshape.transpose': (('C10', 'C04', 'C12'), sc_transpose),
    'dimarray.core.reshape.swapaxes': (('C10',), sc_swapaxes),
    'dimarray.core.reshape.rollaxis': (('C10',), sc_rollaxis),
    'dimarray.core.reshape.squeeze': (('C10',), sc_squeeze),
    'dimarray.core.reshape.newaxis': (('C10',), sc_newaxis),
    'dimarray.core.reshape.repeat': (('C10',), sc_repeat),
    'dimarray.core.reshape.broadcast': (('C10', 'C04'), sc_broadcast),
    'dimarray.core.reshape.flatten': (('C11', 'C08', 'C05'), sc_flatten),
    'dimarray.core.reshape.unflatten': (('C11',), sc_unflatten),
    'dimarray.core.reshape.reshape': (('C11', 'C10', 'C04'), sc_reshape),
}
